(* C20 driver: one history per line.
   h <maxv> <tf> <misc> <nx> <nodata> <deleg> <trunc> <nev> <event>*   (raw setter arguments; `d` x 7 = Config::default())
   event := q <name> <qcase> <class> <type> <flags rd|cd<<1|ad<<2|own DO<<3|base OPT<<4|own OPT<<6> <opcode> <now_ms> <delay_ms> <resp>
          | s <name> <qcase> <class> <type> <flags> <opcode> <now_ms>      (a request starts: lookup)
          | f <name> <class> <type> <flags> <t_ms> <resp>                  (upstream's answer to a waiting request arrives)
          | x <n>
   resp  := e <code> | m <id> <rcode> <flags aa|tc<<1|rd<<2|ad<<3|broken<<4> <q: - | type:class> <qcase> <nan> <nns> <nar> <rec>*
   rec   := type:class:ttl:id:bad
   Output: observations joined by " | ": F, FE<code>, P, X, S e<code>, S m <id> <rcode> <flags> <qcase> [recs] [recs] [recs];
   `Panic` if the model panics anywhere in the history. *)
let ni s = n_of_int (int_of_string s)
let bit v i = (v lsr i) land 1 = 1

(* request flags word: rd | cd<<1 | ad<<2 | own DO<<3 | base OPT (0 none, 1 DO clear, 2 DO set)<<4 | own OPT present<<6 *)
let request_key name cls ty f =
  let base = match (f lsr 4) land 3 with 0 -> None | 1 -> Some false | _ -> Some true in
  let own = if bit f 6 then Some (bit f 3) else None in
  key_of_request_msg (ni name) (ni cls) (ni ty) (bit f 0) (bit f 1) (bit f 2) base own

let parse_rec s =
  match String.split_on_char ':' s with
  | [t; c; ttl; id; bad] -> { r_type = ni t; r_class = ni c; r_ttl = ni ttl; r_id = ni id; r_bad = (bad = "1") }
  | _ -> failwith ("bad record " ^ s)

let rec take n l acc =
  if n = 0 then (List.rev acc, l)
  else match l with x :: t -> take (n - 1) t (x :: acc) | [] -> failwith "short line"

let parse_resp l =
  match l with
  | "e" :: code :: rest -> (RErr (ni code), rest)
  | "m" :: id :: rcode :: flags :: q :: qcase :: nan :: nns :: nar :: rest ->
      let f = int_of_string flags in
      let q = if q = "-" then None else
        (match String.split_on_char ':' q with
         | [t; c] -> Some (ni t, ni c) | _ -> failwith "bad question") in
      let (an, rest) = take (int_of_string nan) rest [] in
      let (ns, rest) = take (int_of_string nns) rest [] in
      let (ar, rest) = take (int_of_string nar) rest [] in
      (RMsg { m_id = ni id; m_rcode = ni rcode; m_aa = bit f 0; m_tc = bit f 1; m_rd = bit f 2; m_ad = bit f 3;
              m_q = q; m_qcase = ni qcase; m_an = List.map parse_rec an; m_ns = List.map parse_rec ns;
              m_ar = List.map parse_rec ar; m_broken = bit f 4 }, rest)
  | _ -> failwith "bad response"

let rec parse_events n l acc =
  if n = 0 then (if l <> [] then failwith "trailing words" else List.rev acc)
  else match l with
  | "x" :: k :: rest -> parse_events (n - 1) rest (EEvict (nat_of_int (int_of_string k)) :: acc)
  | "q" :: name :: qcase :: cls :: ty :: flags :: opcode :: now :: delay :: rest ->
      let k = request_key name cls ty (int_of_string flags) in
      let (u, rest) = parse_resp rest in
      parse_events (n - 1) rest (EQuery (k, ni opcode, ni qcase, ni now, ni delay, u) :: acc)
  | "s" :: name :: qcase :: cls :: ty :: flags :: opcode :: now :: rest ->
      let k = request_key name cls ty (int_of_string flags) in
      parse_events (n - 1) rest (EStart (k, ni opcode, ni qcase, ni now) :: acc)
  | "f" :: name :: cls :: ty :: flags :: t :: rest ->
      let f = int_of_string flags in
      let k = key_of_request (ni name) (ni cls) (ni ty) (bit f 0) (bit f 1) (bit f 2) (bit f 3) in
      let (u, rest) = parse_resp rest in
      parse_events (n - 1) rest (EFinish (k, ni t, u) :: acc)
  | _ -> failwith "bad event"

let show_rec r =
  Printf.sprintf "%d:%d:%d:%d" (int_of_n r.r_type) (int_of_n r.r_class) (int_of_n r.r_ttl) (int_of_n r.r_id)
let show_sec l = "[" ^ String.concat " " (List.map show_rec l) ^ "]"
let b2i b = if b then 1 else 0
let show_resp = function
  | RErr e -> "e" ^ string_of_int (int_of_n e)
  | RMsg m ->
      Printf.sprintf "m %d %d %d %d %s %s %s" (int_of_n m.m_id) (int_of_n m.m_rcode)
        (b2i m.m_aa lor (b2i m.m_tc lsl 1) lor (b2i m.m_rd lsl 2) lor (b2i m.m_ad lsl 3)) (int_of_n m.m_qcase)
        (show_sec m.m_an) (show_sec m.m_ns) (show_sec m.m_ar)
let show_obs = function
  | OServed r -> "S " ^ show_resp r
  | OForwarded -> "F"
  | OFwdErr e -> "FE" ^ string_of_int (int_of_n e)
  | OBypass -> "F"  (* not distinguishable from outside: both reach upstream *)
  | OPending -> "P"
  | OEvicted -> "X"

let handle = function
  | "h" :: maxv :: tf :: misc :: nx :: nodata :: deleg :: trunc :: nev :: rest ->
      let cfg = if maxv = "d" then config_default
        else config_of (ni maxv) (ni tf) (ni misc) (ni nx) (ni nodata) (ni deleg) (trunc = "1") in
      let evs = parse_events (int_of_string nev) rest [] in
      (match c20_run cfg evs with
       | Ok os ->
           (* a started request that is not cacheable also just goes upstream *)
           let show ev o = match ev, o with EStart _, OBypass -> "P" | _ -> show_obs o in
           String.concat " | " (List.map2 show evs os)
       | Err e -> "Err " ^ string_of_int (int_of_n e)
       | Panic _ -> "Panic"
       | OutOfFuel -> "OutOfFuel")
  | _ -> failwith "bad case line"
let () = main handle
