(* common.ml -- textually included after `open Model` in every driver.
   Conversions between OCaml values and the Coq datatypes that extraction
   keeps as inductives (positive, N, nat, comparison); bool/option/prod/list
   are mapped to OCaml's by ExtrOcamlBasic. *)
let rec pos_of_int (i : int) : positive =
  if i = 1 then XH
  else if i land 1 = 0 then XO (pos_of_int (i lsr 1))
  else XI (pos_of_int (i lsr 1))
let n_of_int (i : int) : n = if i = 0 then N0 else Npos (pos_of_int i)
let rec int_of_pos (p : positive) : int =
  match p with XH -> 1 | XO q -> 2 * int_of_pos q | XI q -> 2 * int_of_pos q + 1
let int_of_n (x : n) : int = match x with N0 -> 0 | Npos p -> int_of_pos p
let bytes_of_hex (s : string) : n list =
  if s = "-" then [] else
  List.init (String.length s / 2) (fun i -> n_of_int (int_of_string ("0x" ^ String.sub s (2*i) 2)))
let hex_of_bytes (l : n list) : string =
  if l = [] then "-" else String.concat "" (List.map (fun b -> Printf.sprintf "%02x" (int_of_n b)) l)
let words (s : string) : string list =
  List.filter (fun w -> w <> "") (String.split_on_char ' ' s)
let main (handle : string list -> string) =
  (try
    while true do
      let line = input_line stdin in
      let r = (try handle (words line) with
               | Failure m -> "DRIVER-ERROR " ^ m
               | Not_found -> "DRIVER-ERROR not_found"
               | Invalid_argument m -> "DRIVER-ERROR " ^ m
               | Stack_overflow -> "DRIVER-ERROR stack_overflow") in
      print_string r; print_char '\n'
    done
  with End_of_file -> ());
  flush stdout
