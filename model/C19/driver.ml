let nat_n s = n_of_int (int_of_string s)
let show_o f = function
  | Ok a -> "Ok " ^ f a
  | Err _ -> "Err"
  | Panic _ -> "Panic"
  | OutOfFuel -> "OutOfFuel"
let wire_of_labels (ls : n list list) : string =
  String.concat "" (List.map (fun l -> Printf.sprintf "%02x" (List.length l) ^ (if l = [] then "" else hex_of_bytes l)) ls) ^ "00"
let handle = function
  | ["split"; c; s] -> show_o (fun (w, e) -> hex_of_bytes w ^ " " ^ string_of_int (int_of_n e)) (c19_split (bytes_of_hex c) (nat_n s))
  | ["parse"; c; s] -> show_o hex_of_bytes (c19_parse (bytes_of_hex c) (nat_n s))
  | ["rsplit"; c; s] -> show_o (fun (w, e) -> hex_of_bytes w ^ " " ^ string_of_int (int_of_n e)) (c19_rsplit (bytes_of_hex c) (nat_n s))
  | ["rparse"; c; s] -> show_o hex_of_bytes (c19_rparse (bytes_of_hex c) (nat_n s))
  | ["old"; m; p] -> show_o (fun (n, e) -> wire_of_labels n ^ " " ^ string_of_int (int_of_n e)) (c19_old (bytes_of_hex m) (nat_n p))
  | ["class"; m; p] -> (match c19_class (bytes_of_hex m) (nat_n p) with KNone -> "none" | KOwnSeg -> "own" | KHeader -> "hdr")
  | ["bim"; base; names] ->
      let ns = List.map bytes_of_hex (String.split_on_char ',' names) in
      let b = int_of_string base in
      show_o (fun c -> hex_of_bytes (List.filteri (fun i _ -> i >= b) c)) (c19_build (n_of_int b) ns)
  | ["bimrev"; base; names] ->
      let ns = List.map bytes_of_hex (String.split_on_char ',' names) in
      let b = int_of_string base in
      show_o (fun c -> hex_of_bytes (List.filteri (fun i _ -> i >= b) c)) (c19_build_rev (n_of_int b) ns)
  | ["nquestion"; c; s] ->
      show_o (fun (((w, t), cl), e) -> Printf.sprintf "%s %d %d %d" (hex_of_bytes w) (int_of_n t) (int_of_n cl) (int_of_n e)) (c19_question (bytes_of_hex c) (nat_n s))
  | ["nrecord"; c; s] ->
      show_o (fun (((((w, t), cl), ttl), d), e) -> Printf.sprintf "%s %d %d %d %d %d" (hex_of_bytes w) (int_of_n t) (int_of_n cl) (int_of_n ttl) (int_of_n d) (int_of_n e)) (c19_record (bytes_of_hex c) (nat_n s))
  | ["edns"; b] ->
      show_o (fun (e, rest) -> Printf.sprintf "%d %d %d %d %s %d" (int_of_n e.e_udp) (int_of_n e.e_ext) (int_of_n e.e_ver) (int_of_n e.e_flags) (hex_of_bytes e.e_data) (List.length rest)) (c19_edns (bytes_of_hex b))
  | ["mparse"; m] ->
      let i = int_of_n in
      let item = function
        | MQ (w, t, c) -> Printf.sprintf "Q:%s:%d:%d" (hex_of_bytes w) (i t) (i c)
        | MR (_, w, t, c, ttl, l) -> Printf.sprintf "R:%s:%d:%d:%d:%d" (hex_of_bytes w) (i t) (i c) (i ttl) (i l)
        | ME e -> Printf.sprintf "E:%d:%d:%d:%d:%d" (i e.e_udp) (i e.e_ext) (i e.e_ver) (i e.e_flags) (List.length e.e_data) in
      (match c19_mparse (bytes_of_hex m) with
       | None -> "Short"
       | Some r -> show_o (fun ((items, off), ok) ->
           Printf.sprintf "%s %d %s fused" (if items = [] then "-" else String.concat "," (List.map item items)) (i off) (if ok then "complete" else "error")) r)
  | ["flat"; b] -> show_o (fun (w, rest) -> hex_of_bytes w ^ " " ^ string_of_int (List.length rest)) (c19_flat (bytes_of_hex b))
  | ["flat"] -> show_o (fun (w, rest) -> hex_of_bytes w ^ " " ^ string_of_int (List.length rest)) (c19_flat [])
  | _ -> failwith "bad case line"
let () = main handle
