(* C03 driver.  Case lines:
     seq CAP OP... FINAL
       CAP    - (growable) or the fixed capacity
       OP     p:HH | s:HEX | e | l:HEX | d:N | h:N | n:HEX(wire of a relative name)
       FINAL  F (finish) | I (into_name) | O:HEX (append_origin, wire of an
              absolute name) | X (nothing)
     observation: RES,RES,...  INLABEL  AS_SLICE  FINALRES *)
let err_word e = match int_of_n e with
  | 1 -> "LongLabel" | 2 -> "LongName" | 3 -> "ShortBuf" | k -> "Err" ^ string_of_int k
let show_r = function
  | Ok _ -> "Ok" | Err e -> err_word e | Panic _ -> "Panic" | OutOfFuel -> "OutOfFuel"
let show_fin = function
  | Ok b -> "Ok:" ^ hex_of_bytes b | Err e -> err_word e | Panic _ -> "Panic" | OutOfFuel -> "OutOfFuel"

let parse_labels (b : n list) : n list list =
  let rec take k l a =
    if k = 0 then (List.rev a, l)
    else match l with [] -> failwith "short name" | x :: r -> take (k - 1) r (x :: a) in
  let rec go l acc = match l with
    | [] -> List.rev acc
    | h :: t ->
        let k = int_of_n h in
        if k = 0 then (if t = [] then List.rev acc else failwith "root inside name")
        else let (lab, rest) = take k t [] in go rest (lab :: acc) in
  go b []

let parse_op w = match String.split_on_char ':' w with
  | ["p"; h] -> OPush (n_of_int (int_of_string ("0x" ^ h)))
  | ["s"; h] -> OSlice (bytes_of_hex h)
  | ["e"] -> OEnd
  | ["l"; h] -> OLabel (bytes_of_hex h)
  | ["d"; v] -> ODec (n_of_int (int_of_string v))
  | ["h"; v] -> OHex (n_of_int (int_of_string v))
  | ["n"; h] -> OName (parse_labels (bytes_of_hex h))
  | _ -> failwith ("bad op " ^ w)

let rec split_last = function
  | [] -> failwith "no final"
  | [x] -> ([], x)
  | x :: r -> let (a, l) = split_last r in (x :: a, l)

let rec handle_seq_from st0 cap rest =
  let cap = if cap = "-" then None else Some (nat_of_int (int_of_string cap)) in
  let (opw, fin) = split_last rest in
  let ops = List.map parse_op opw in
  let (rs, st) = run_log cap st0 ops in
  let panicked = List.exists (function Panic _ | OutOfFuel -> true | _ -> false) rs in
  let rstr = if rs = [] then "-" else String.concat "," (List.map show_r rs) in
  let inl = match st.head with Some _ -> "1" | None -> "0" in
  let finstr =
    if panicked then "-" else
    match String.split_on_char ':' fin with
    | ["F"] -> show_fin (b_finish st)
    | ["I"] -> show_fin (b_into_name cap st)
    | ["O"; h] -> show_fin (b_append_origin cap st (parse_labels (bytes_of_hex h)))
    | ["X"] -> "-"
    | _ -> failwith "bad final" in
  rstr ^ " " ^ inl ^ " " ^ hex_of_bytes st.buf ^ " " ^ finstr

let handle_seq cap rest = handle_seq_from b_init cap rest

let wire_word e = match int_of_n e with
  | 1 -> "LongName" | 2 -> "TrailingData" | 3 -> "RelativeName" | 4 -> "ShortInput" | 5 -> "BadLabel"
  | 6 -> "CompressedName" | 7 -> "AbsoluteName" | 8 -> "LongLabel" | 9 -> "LongChain" | k -> "Err" ^ string_of_int k
let show_w = function
  | Ok _ -> "Ok" | Err e -> wire_word e | Panic _ -> "Panic" | OutOfFuel -> "OutOfFuel"

let text_word e = match int_of_n e with
  | 1 -> "LongLabel" | 2 -> "LongName" | 3 -> "ShortBuf" | 11 -> "ShortInput" | 12 -> "BadEscape" | 13 -> "NonAscii"
  | 14 -> "BinaryLabel" | 15 -> "EmptyLabel" | 16 -> "AbsoluteName" | k -> "Err" ^ string_of_int k
let chars_of (s : string) : n list =
  if s = "-" then [] else List.map (fun h -> n_of_int (int_of_string ("0x" ^ h))) (String.split_on_char ',' s)
let show_t f = function
  | Ok a -> "Ok:" ^ f a | Err e -> text_word e | Panic _ -> "Panic" | OutOfFuel -> "OutOfFuel"
let show_chars (l : n list) =
  if l = [] then "-" else String.concat "," (List.map (fun c -> Printf.sprintf "%x" (int_of_n c)) l)

let is_abs k = (k = "A")
let show_p f = function
  | Ok a -> f a | Err e -> wire_word e | Panic _ -> "Panic" | OutOfFuel -> "OutOfFuel"
let nat_arg s = nat_of_int (int_of_string s)
let hi_arg s =
  if s = "u" then EUnb
  else let n = nat_arg (String.sub s 1 (String.length s - 1)) in
       if s.[0] = 'i' then EIncl n else EExcl n
let rel_labels b = parse_labels b
let abs_labels b = parse_labels b   (* parse_labels drops the final root label *)

let handle = function
  | "seq" :: cap :: rest -> handle_seq cap rest
  | ["ils"; k; h; i] -> show_p (fun b -> if b then "true" else "false") (is_label_start (is_abs k) (bytes_of_hex h) (nat_arg i))
  | ["split"; k; h; i] -> show_p (fun (l, r) -> "Ok:" ^ hex_of_bytes l ^ ":" ^ hex_of_bytes r) (n_split (is_abs k) (bytes_of_hex h) (nat_arg i))
  | ["trunc"; k; h; i] -> show_p (fun l -> "Ok:" ^ hex_of_bytes l) (n_truncate (is_abs k) (bytes_of_hex h) (nat_arg i))
  | ["range"; k; h; lo; hi] ->
      show_p (fun l -> "Ok:" ^ hex_of_bytes l)
        (n_range (is_abs k) (bytes_of_hex h) (if lo = "-" then None else Some (nat_arg lo)) (hi_arg hi))
  | ["from"; h; i] -> show_p (fun l -> "Ok:" ^ hex_of_bytes l) (n_range_from (bytes_of_hex h) (nat_arg i))
  | ["parent"; k; h] -> show_p (function None -> "None" | Some p -> "Some:" ^ hex_of_bytes p) (n_parent (is_abs k) (bytes_of_hex h))
  | ["strip"; "A"; h; b] -> show_p (function None -> "None" | Some p -> "Some:" ^ hex_of_bytes p) (abs_strip_suffix (abs_labels (bytes_of_hex h)) (abs_labels (bytes_of_hex b)))
  | ["strip"; "R"; h; b] -> show_p (function None -> "None" | Some p -> "Some:" ^ hex_of_bytes p) (rel_strip_suffix (rel_labels (bytes_of_hex h)) (rel_labels (bytes_of_hex b)))
  | ["pn"; h; pos] ->
      let m = bytes_of_hex h in
      (match parse_ref m (n_of_int (int_of_string pos)) (mlen m) with
       | Ok p -> (match parsed_flatten m p, parsed_to_name m p with
                  | Ok b, Ok b' when b = b' -> "Ok:" ^ hex_of_bytes b
                  | _ -> "Bad")
       | Err _ -> "Err" | Panic _ -> "Panic" | OutOfFuel -> "OutOfFuel")
  | ["unc"; h] -> show_p (fun b -> if b then "A" else "R") (uncertain_check (bytes_of_hex h))
  | ["chainu"; k; l; r] -> show_w (chain_new_uncertain (k = "R") (nat_arg l) (nat_arg r))
  | ["ends"; k; h; b] ->
      let root = if k = "A" then [[]] else [] in
      if ends_with (parse_labels (bytes_of_hex h) @ root) (parse_labels (bytes_of_hex b) @ root) then "true" else "false"
  | ["starts"; k; h; b] ->
      let root = if k = "A" then [[]] else [] in
      if starts_with (parse_labels (bytes_of_hex h) @ root) (parse_labels (bytes_of_hex b) @ root) then "true" else "false"
  | ["chroot"; h] -> show_p (fun l -> "Ok:" ^ hex_of_bytes l) (n_chain_root (bytes_of_hex h))
  | ["uchain"; k; l; r] -> show_p (fun l -> "Ok:" ^ hex_of_bytes l) (unc_chain (k = "A") (bytes_of_hex l) (bytes_of_hex r))
  | ["serde"; "A"; cs] -> (match name_from_chars None (chars_of cs) with Ok b -> "Ok:" ^ hex_of_bytes b | Panic _ -> "Panic" | _ -> "Err")
  | ["serde"; "R"; cs] -> (match serde_de_rel None (chars_of cs) with Ok b -> "Ok:" ^ hex_of_bytes b | Panic _ -> "Panic" | _ -> "Err")
  | ["serde"; "U"; cs] -> (match uncertain_from_chars None (chars_of cs) with Ok (a, b) -> "Ok:" ^ (if a then "A:" else "R:") ^ hex_of_bytes b | Panic _ -> "Panic" | _ -> "Err")
  | ["ser"; "A"; h] -> show_chars (display_name (parse_labels (bytes_of_hex h)))
  | ["ser"; "R"; h] -> show_chars (display_rel (parse_labels (bytes_of_hex h)))
  | ["ser"; "UA"; h] -> show_chars (display_uncertain true (parse_labels (bytes_of_hex h)))
  | ["ser"; "UR"; h] -> show_chars (display_uncertain false (parse_labels (bytes_of_hex h)))
  | ["chain3"; a; b; c] -> show_w (chain3 (nat_arg a) (nat_arg b) (nat_arg c))
  | ["const"; k] ->
      hex_of_bytes (match k with
        | "root" -> const_root | "root_slice" -> const_root_slice | "empty" -> const_empty
        | "wildcard" -> const_wildcard | "empty_slice" -> const_empty_slice | "wildcard_slice" -> const_wildcard_slice
        | _ -> failwith "bad const")
  | "fromb" :: h :: rest ->
      (match b_from_builder (bytes_of_hex h) with
       | Ok st -> handle_seq_from st "-" rest
       | Err e -> wire_word e | Panic _ -> "Panic" | OutOfFuel -> "OutOfFuel")
  | ["scan"; cs] -> (match name_from_chars None (chars_of cs) with Ok b -> "Ok:" ^ hex_of_bytes b | Panic _ -> "Panic" | _ -> "Err")
  | ["nparse"; h] ->
      (match name_parse (bytes_of_hex h) with
       | Ok b -> "Ok:" ^ hex_of_bytes b
       | Err e -> if int_of_n e = 4 then "ShortInput" else "Form"
       | Panic _ -> "Panic" | OutOfFuel -> "OutOfFuel")
  | ["intorel"; h] -> show_p (fun l -> "Ok:" ^ hex_of_bytes l) (n_into_relative (bytes_of_hex h))
  | ["intoabs"; h] -> show_p (fun l -> "Ok:" ^ hex_of_bytes l) (n_into_absolute None (bytes_of_hex h))
  | ["txt"; cs] ->
      let cs = chars_of cs in
      "abs=" ^ show_t hex_of_bytes (name_from_chars None cs)
      ^ " rel=" ^ show_t hex_of_bytes (rel_from_chars None cs)
      ^ " unc=" ^ show_t (fun (a, b) -> (if a then "A:" else "R:") ^ hex_of_bytes b) (uncertain_from_chars None cs)
  | ["dispr"; h] -> show_chars (display_rel (parse_labels (bytes_of_hex h)))
  | ["olabel"; cs] -> show_t hex_of_bytes (owned_label_from_chars (chars_of cs))
  | ["disp"; h] ->
      let b = bytes_of_hex h in
      (match List.rev (parse_labels b) with _ -> show_chars (display_name (parse_labels b)))
  | ["abs"; h] -> show_w (check_abs (bytes_of_hex h))
  | ["rel"; h] -> show_w (check_rel (bytes_of_hex h))
  | ["label"; h] -> show_w (label_from_slice (bytes_of_hex h))
  | ["chain"; l; r] -> show_w (chain_new (nat_of_int (int_of_string l)) (nat_of_int (int_of_string r)))
  | _ -> failwith "bad case line"
let () = main handle
