(* C15 driver.
   q  tok...   detailed trace of the outstanding-query table: per operation the
               observation and count/curr/occupancy after it
   ql tok...   long sequences: observations only, then `| count curr len`
   tokens: i<v> insert, a<idx>:<v> insert_at, r<idx> try_remove, d drain,
           F<n>:<start> n inserts of start.., X<from>:<n>:<step> n removes *)
let ni s = n_of_int (int_of_string s)
let expand (tok : string) : n qop list =
  let body = String.sub tok 1 (String.length tok - 1) in
  match tok.[0] with
  | 'i' -> [OIns (ni body)]
  | 'r' -> [ORem (ni body)]
  | 'd' -> [ODrain]
  | 'a' -> (match String.split_on_char ':' body with
            | [i; v] -> [OInsAt (ni i, ni v)] | _ -> failwith "bad a token")
  | 'F' -> (match String.split_on_char ':' body with
            | [n; s] -> let n = int_of_string n and s = int_of_string s in
                        List.init n (fun k -> OIns (n_of_int (s + k)))
            | _ -> failwith "bad F token")
  | 'X' -> (match String.split_on_char ':' body with
            | [f; n; st] -> let f = int_of_string f and n = int_of_string n and st = int_of_string st in
                            List.init n (fun k -> ORem (n_of_int (f + k * st)))
            | _ -> failwith "bad X token")
  | _ -> failwith "bad token"
let show_obs (o : n qobs) : string =
  match o with
  | RIns (Some i) -> "I" ^ string_of_int (int_of_n i)
  | RIns None -> "IF"
  | RInsAt -> "A"
  | RRem (Some v) -> "R" ^ string_of_int (int_of_n v)
  | RRem None -> "R-"
  | RDrain [] -> "D-"
  | RDrain l -> "D" ^ String.concat "," (List.map (fun v -> string_of_int (int_of_n v)) l)
let bits (l : bool list) : string =
  if l = [] then "-" else String.concat "" (List.map (fun b -> if b then "1" else "0") l)
let ops_of toks = List.concat (List.map expand toks)
let handle = function
  | "q" :: toks ->
      let tr = c15_trace q_new (ops_of toks) in
      let one = function
        | Ok (ob, ((c, cu), occ)) ->
            Printf.sprintf "%s/%d/%d/%s" (show_obs ob) (int_of_n c) (int_of_n cu) (bits occ)
        | Panic _ -> "Panic"
        | Err _ -> "Err"
        | OutOfFuel -> "OutOfFuel" in
      if tr = [] then "-" else String.concat " " (List.map one tr)
  | "ql" :: toks ->
      (match c15_run_obs q_new (ops_of toks) [] with
       | Ok (obs, ((c, cu), len)) ->
           String.concat " " (List.map show_obs obs) ^
           Printf.sprintf " | %d %d %d" (int_of_n c) (int_of_n cu) (int_of_n len)
       | Panic _ -> "Panic"
       | Err _ -> "Err"
       | OutOfFuel -> "OutOfFuel")
  | _ -> failwith "bad case line"
let () = main handle
