(* C15 driver.
   q  tok...   detailed trace of the outstanding-query table: per operation the
               observation and count/curr/occupancy after it
   ql tok...   long sequences: observations only, then `| count curr len`
   qp n tok... the same, starting from the table that n inserts (values 0..n-1) produce
   tokens: i<v> insert, a<idx>:<v> insert_at, r<idx> try_remove, d drain,
           F<n>:<start> n inserts of start.., X<from>:<n>:<step> n removes *)
let ni s = n_of_int (int_of_string s)
let expand (tok : string) : n qop list =
  let body = String.sub tok 1 (String.length tok - 1) in
  match tok.[0] with
  | 'i' -> [OIns (ni body)]
  | 'r' -> [ORem (ni body)]
  | 'd' -> [ODrain]
  | 'a' -> (match String.split_on_char ':' body with
            | [i; v] -> [OInsAt (ni i, ni v)] | _ -> failwith "bad a token")
  | 'F' -> (match String.split_on_char ':' body with
            | [n; s] -> let n = int_of_string n and s = int_of_string s in
                        List.init n (fun k -> OIns (n_of_int (s + k)))
            | _ -> failwith "bad F token")
  | 'X' -> (match String.split_on_char ':' body with
            | [f; n; st] -> let f = int_of_string f and n = int_of_string n and st = int_of_string st in
                            List.init n (fun k -> ORem (n_of_int (f + k * st)))
            | _ -> failwith "bad X token")
  | _ -> failwith "bad token"
let show_obs (o : n qobs) : string =
  match o with
  | RIns (Some i) -> "I" ^ string_of_int (int_of_n i)
  | RIns None -> "IF"
  | RInsAt -> "A"
  | RRem (Some v) -> "R" ^ string_of_int (int_of_n v)
  | RRem None -> "R-"
  | RDrain [] -> "D-"
  | RDrain l -> "D" ^ String.concat "," (List.map (fun v -> string_of_int (int_of_n v)) l)
let bits (l : bool list) : string =
  if l = [] then "-" else String.concat "" (List.map (fun b -> if b then "1" else "0") l)
let ops_of toks = List.concat (List.map expand toks)
let handle = function
  | "q" :: toks ->
      let tr = c15_trace q_new (ops_of toks) in
      let one = function
        | Ok (ob, ((c, cu), occ)) ->
            Printf.sprintf "%s/%d/%d/%s" (show_obs ob) (int_of_n c) (int_of_n cu) (bits occ)
        | Panic _ -> "Panic"
        | Err _ -> "Err"
        | OutOfFuel -> "OutOfFuel" in
      if tr = [] then "-" else String.concat " " (List.map one tr)
  | "ql" :: toks ->
      (match c15_run_obs q_new (ops_of toks) [] with
       | Ok (obs, ((c, cu), len)) ->
           String.concat " " (List.map show_obs obs) ^
           Printf.sprintf " | %d %d %d" (int_of_n c) (int_of_n cu) (int_of_n len)
       | Panic _ -> "Panic"
       | Err _ -> "Err"
       | OutOfFuel -> "OutOfFuel")
  | "qp" :: n :: toks ->
      let n = int_of_string n in
      (match c15_run_obs (c15_prefill (List.init n (fun k -> n_of_int k))) (ops_of toks) [] with
       | Ok (obs, ((c, cu), len)) ->
           String.concat " " (List.map show_obs obs) ^
           Printf.sprintf " | %d %d %d" (int_of_n c) (int_of_n cu) (int_of_n len)
       | Panic _ -> "Panic"
       | Err _ -> "Err"
       | OutOfFuel -> "OutOfFuel")
  | ["ia"; rid; rq; aid; qr; rc; qd; an; ns; ar; aq] ->
      let lst s = if s = "-" then [] else List.map ni (String.split_on_char ',' s) in
      let a = { m_id = ni aid; m_qr = (qr = "1"); m_tc = false; m_rcode = ni rc; m_qd = ni qd; m_an = ni an;
                m_ns = ni ns; m_ar = ni ar; m_qs = (if aq = "bad" then None else Some (lst aq)); m_ans = Some []; m_ka = None } in
      if c15_is_answer { r_id = ni rid; r_qs = lst rq } a then "true" else "false"
  | ["dg"; retries; timeout; script] ->
      let mk id tc rc qd an qs = PMsg { m_id = n_of_int id; m_qr = true; m_tc = tc; m_rcode = n_of_int rc; m_qd = n_of_int qd;
                                       m_an = n_of_int an; m_ns = N0; m_ar = N0; m_qs = qs; m_ans = Some []; m_ka = None } in
      let q l = Some (List.map n_of_int l) in
      let pkt id = function
        | 'G' | 'U' -> mk id false 0 1 0 (q [0]) | 'T' -> mk id true 0 1 0 (q [0]) | 'K' -> mk id true 0 1 1 (q [0]) | 'X' -> mk id false 0 1 1 (q [0])
        | 'E' -> mk id false 3 1 0 (q [0]) | 'H' -> mk id false 2 0 0 (q [])
        | 'I' | 'P' -> mk ((id + 1) land 65535) false 0 1 0 (q [0])
        | 'Q' -> (match mk id false 0 1 0 (q [0]) with PMsg m -> PMsg { m with m_qr = false } | p -> p)
        | 'N' -> mk id false 0 1 0 (q [1]) | 'Y' -> mk id false 0 1 0 (q [2]) | 'Z' -> mk id false 0 0 0 (q [])
        | 'W' -> mk id false 0 2 0 (q [0; 1]) | 'B' -> mk id false 0 1 0 None
        | 'S' -> PGarbage | 'R' -> PRecvErr | _ -> failwith "bad variant" in
      let attempt k s =
        let id = 1000 + k in
        let fault = (match s.[0] with '-' -> FNone | 'c' -> FConnect | 's' -> FSend | 'h' -> FShortSend | _ -> failwith "bad fault") in
        let body = String.sub s 1 (String.length s - 1) in
        let pkts = if body = "-" then [] else
          List.map (fun t -> match String.split_on_char ':' t with
                             | [off; v] -> (ni off, pkt id v.[0]) | _ -> failwith "bad packet") (String.split_on_char ',' body) in
        { a_fault = fault; a_id = n_of_int id; a_pkts = pkts } in
      let atts = if script = "-" then [] else List.mapi attempt (String.split_on_char '|' script) in
      let (r, sends) = c15_dgram (ni retries) (ni timeout) [n_of_int 0] atts in
      (match r with
       | DOk (_, t, m) -> Printf.sprintf "Ok t=%d sends=%d rcode=%d tc=%d an=%d" (int_of_n t) (int_of_n sends)
                            (int_of_n m.m_rcode) (if m.m_tc then 1 else 0) (int_of_n m.m_an)
       | DErr (e, t) -> Printf.sprintf "Err %s t=%d sends=%d"
                          (match int_of_n e with 1 -> "connect" | 2 -> "send" | 3 -> "receive" | _ -> "timeout") (int_of_n t) (int_of_n sends))
  | "sm" :: idle :: evs ->
      (* s<k> single-response submit by caller k (question token k); x<k> AXFR and y<k> IXFR
         multi-response submit; f connection failure; t the idle timeout expires;
         p<id>:<qr>:<rcode>:<qd>:<an>:<tc>:<qs>:<ans>:<ka> a reply (qs: comma list of tokens, - empty, bad;
         ans: - empty, bad = answer() fails, else comma list of s<serial> | o | e = unparsable record) *)
      let lst s = if s = "-" then [] else List.map ni (String.split_on_char ',' s) in
      let ans s = if s = "bad" then None else if s = "-" then Some [] else
        Some (List.map (fun t -> match t.[0] with
                                 | 's' -> Some (RSoa (ni (String.sub t 1 (String.length t - 1))))
                                 | 'o' -> Some ROther | 'e' -> None | _ -> failwith "bad record") (String.split_on_char ',' s)) in
      let num t = ni (String.sub t 1 (String.length t - 1)) in
      let ev t =
        match t.[0] with
        | 's' -> ESubmit (num t, [num t], false, false, XDone)
        | 'x' -> ESubmit (num t, [num t], true, false, XAxfrInit)
        | 'y' -> ESubmit (num t, [num t], true, false, XIxfrInit)
        | 'f' -> EFail (n_of_int 1)
        | 't' -> ETick
        | 'p' -> (match String.split_on_char ':' (String.sub t 1 (String.length t - 1)) with
                  | [id; qr; rc; qd; an; tc; qs; a; ka] ->
                      (* ka: - no keepalive option, n option without timeout, else the timeout in units of 100 ms (the OPT record makes ARCOUNT 1) *)
                      EReply { m_id = ni id; m_qr = (qr = "1"); m_tc = (tc = "1"); m_rcode = ni rc; m_qd = ni qd; m_an = ni an;
                               m_ns = N0; m_ar = (if ka = "-" then N0 else n_of_int 1);
                               m_qs = (if qs = "bad" then None else Some (lst qs)); m_ans = ans a;
                               m_ka = (if ka = "-" then None else if ka = "n" then Some None else Some (Some (ni ka))) }
                  | _ -> failwith "bad reply event")
        | _ -> failwith "bad event" in
      let evl = List.map ev evs in
      (match c15_demux (idle = "1") evl with
       | Ok s ->
           let callers = List.filter_map (function ESubmit (k, _, mu, _, _) -> Some (k, mu) | _ -> None) evl in
           let is_term ((_, mu), d) = (match d with DAnswer _ | DWrong -> not mu | _ -> true) in
           let term = List.filter is_term s.st_log in
           let order = String.concat "," (List.map (fun ((c, _), _) -> string_of_int (int_of_n c)) term) in
           let cls (c, mu) =
             let wire = (match List.find_opt (fun ((c', _), _) -> c' = c) s.st_sent with
                         | Some ((_, i), _) -> string_of_int (int_of_n i) | None -> "-") in
             let mine = List.filter (fun ((c', _), _) -> c' = c) s.st_log in
             let r =
               if mu then
                 let items = String.concat "" (List.map (fun (_, d) -> match d with DAnswer _ -> "A" | DWrong -> "W" | DEof -> "F" | DError _ -> "E") mine) in
                 if List.exists is_term mine then items else items ^ (if c15_pending c s then "P" else "?")
               else
                 (match List.find_opt is_term mine with
                  | Some (_, DAnswer m) -> Printf.sprintf "A%d.%d.%d" (int_of_n m.m_rcode) (int_of_n m.m_an) (if m.m_tc then 1 else 0)
                  | Some (_, DWrong) -> "W"
                  | Some (_, _) -> "E"
                  | None -> if c15_pending c s then "P" else "?") in
             Printf.sprintf "%d=%s@%s" (int_of_n c) r wire in
           (if order = "" then "-" else order) ^ " | " ^ String.concat " " (List.map cls callers)
       | Panic _ -> "Panic" | Err _ -> "Err" | OutOfFuel -> "OutOfFuel")
  | ["lbl"; mb; opt; ids] ->
      (* load balancer with no upstream (x), one upstream without burst limit (n) or with max_burst <mb>;
         requests with the given IDs inside one burst interval; U = went upstream, L:.. = the local answer *)
      let ups = (match mb with "x" -> [] | "n" -> [(None, N0)] | v -> [(Some (ni v), N0)]) in
      let idl = List.map int_of_string (String.split_on_char ',' ids) in
      let routes = c15_lb_run ups (List.map (fun _ -> O) idl) in
      String.concat " " (List.map2 (fun id r -> match r with
        | Some _ -> "U"
        | None -> let m = c15_lb_local (n_of_int id) false [n_of_int 0] (opt = "1") in
                  Printf.sprintf "L:%d:%d:%d:%d:%d:%d:%s" (int_of_n m.m_id) (if m.m_qr then 1 else 0) (int_of_n m.m_rcode)
                    (int_of_n m.m_qd) (int_of_n m.m_an) (int_of_n m.m_ar) (if m.m_qs = Some [n_of_int 0] then "same" else "other")) idl routes)
  | ["msr"; t; script] ->
      (* multi_stream request against scripted connection attempts: f<d> connect fails after d ms;
         k<d>:R<e> connects after d, reply after e; W wrong reply; X other error; C connection closed; S silent;
         a trailing * repeats the last attempt for ever *)
      let toks = String.split_on_char '|' script in
      let parse tk =
        let tk = if tk.[String.length tk - 1] = '*' then String.sub tk 0 (String.length tk - 1) else tk in
        match tk.[0] with
        | 'f' -> CFail (ni (String.sub tk 1 (String.length tk - 1)))
        | 'k' -> (match String.split_on_char ':' (String.sub tk 1 (String.length tk - 1)) with
                  | [d; r] -> let e () = ni (String.sub r 1 (String.length r - 1)) in
                      COk (ni d, (match r.[0] with 'R' -> SReply (e ()) | 'W' -> SWrong (e ()) | 'X' -> SFail (e ())
                                                   | 'C' -> SClosed (e ()) | 'S' -> SSilent | _ -> failwith "bad fate"))
                  | _ -> failwith "bad attempt")
        | _ -> failwith "bad attempt" in
      let atts = List.map parse toks in
      let last = List.nth toks (List.length toks - 1) in
      let atts = if last.[String.length last - 1] = '*' then atts @ List.init 300 (fun _ -> parse last) else atts in
      let show = function MOk t -> Printf.sprintf "Ok %d" (int_of_n t) | MErrWrong t -> Printf.sprintf "Err wrong %d" (int_of_n t)
                        | MErrTimeout t -> Printf.sprintf "Err timeout %d" (int_of_n t) in
      let r0 = c15_ms_request (ni t) atts (List.init 400 (fun _ -> N0)) in
      let r1 = c15_ms_request (ni t) atts (List.init 400 (fun _ -> n_of_int 100000000)) in
      let r2 = c15_ms_request (ni t) atts (List.init 400 (fun k -> n_of_int (137 * (k + 1)))) in
      if r0 = r1 && r1 = r2 then show r0 else "NONDET " ^ show r0 ^ " / " ^ show r1
  | ["msc"; iz; ops] ->
      (* requests (q) over one multi_stream transport, the peer killing the current connection (k) in between:
         per request <got a reply>:<connects made so far> *)
      let l = List.init (String.length ops) (fun i -> if ops.[i] = 'q' then MQ else MK) in
      String.concat " " (List.map (fun (ok, c) -> Printf.sprintf "%d:%d" (if ok then 1 else 0) (int_of_n c)) (c15_msc (iz = "1") l))
  | ["red"; n; de; dr; ds; res] ->
      (* redundant with n upstreams all giving the same result: g<rcode> a reply, e a transport error;
         flags defer_transport_error, defer_refused, defer_servfail *)
      let r = (if res = "e" then UErr (n_of_int 1) else
                 let rc = ni (String.sub res 1 (String.length res - 1)) in
                 if c15_red_skip (dr = "1") (ds = "1") rc then USkip rc else UGood rc) in
      (match c15_red (de = "1") (ni n) r with
       | Ok (Inr (RReturnOk m)) -> Printf.sprintf "Ok %d" (int_of_n m)
       | Ok (Inr (RReturnErr _)) -> "Err"
       | Ok (Inl _) -> "Pending"
       | _ -> "Panic")
  | _ -> failwith "bad case line"
let () = main handle
