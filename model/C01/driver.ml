(* C01 driver: prints the model's observation in the harness' syntax. *)
let i = int_of_n
let si x = string_of_int (int_of_n x)
let b01 b = if b then "1" else "0"

let labels_str (ls : n list list) : string =
  if ls = [] then "." else String.concat "," (List.map hex_of_bytes ls)

let name_obs_str (o : name_obs) : string =
  Printf.sprintf "%d/%s/%s/%s" (i o.no_len) (b01 o.no_compressed) (labels_str o.no_labels) (b01 o.no_root)

let slice_str (ls : n list list) : string =
  if ls = [] then "-" else String.concat "," (List.map (fun l -> if l = [] then "." else hex_of_bytes l) ls)

let q_str (o, ty, cl) = Printf.sprintf "q(%s %d %d)" (name_obs_str o) (i ty) (i cl)

let ev_str (e : ev) : string =
  match e with
  | EvQ (o, ty, cl, after) -> Printf.sprintf " %s>%d" (q_str (o, ty, cl)) (i after)
  | EvR (o, ty, cl, ttl, rdlen, before, after) ->
      Printf.sprintf " r(%s %d %d %d %d @%d>%d)" (name_obs_str o) (i ty) (i cl) (i ttl) (i rdlen) (i before) (i after)
  | EvErr (e, f) -> Printf.sprintf " E%d fused%s" (i e) (b01 f)

let evs_str (l : ev list) : string =
  let body = String.concat "" (List.map ev_str l) in
  let ended = match List.rev l with EvErr _ :: _ -> false | _ -> true in
  body ^ (if ended then " end" else "")

let sect_str (v : (n * ev list) item) : string =
  match v with
  | IOk (pos, evs) -> Printf.sprintf "@%d%s" (i pos) (evs_str evs)
  | IErr e -> Printf.sprintf " X%d" (i e)

let obs_str (o : observation) : string =
  let (((qd, an), ns), ar) = o.o_counts in
  let b = Buffer.create 256 in
  Buffer.add_string b (Printf.sprintf "c %d %d %d %d |" (i qd) (i an) (i ns) (i ar));
  Buffer.add_string b (evs_str o.o_questions);
  Buffer.add_string b (" | an" ^ sect_str o.o_answer);
  Buffer.add_string b (" | ns" ^ sect_str o.o_authority);
  Buffer.add_string b (" | ar" ^ sect_str o.o_additional);
  Buffer.add_string b " | secs ";
  (match o.o_sections with
   | IOk (((q, a), n), r) -> Buffer.add_string b (Printf.sprintf "%d %d %d %d" (i q) (i a) (i n) (i r))
   | IErr e -> Buffer.add_string b (Printf.sprintf "X%d" (i e)));
  Buffer.add_string b " | fq ";
  (match o.o_first with Some ((n, ty), cl) -> Buffer.add_string b (q_str (n, ty, cl)) | None -> Buffer.add_string b "none");
  Buffer.add_string b " | sq ";
  (match o.o_sole with IOk ((n, ty), cl) -> Buffer.add_string b (q_str (n, ty, cl)) | IErr e -> Buffer.add_string b (Printf.sprintf "X%d" (i e)));
  Buffer.add_string b (" | self " ^ b01 o.o_self);
  Buffer.add_string b " | iter";
  List.iter (fun x -> match x with
    | IOk (k, ty) -> Buffer.add_string b (Printf.sprintf " %d:%d" (i k - 1) (i ty))
    | IErr e -> Buffer.add_string b (Printf.sprintf " E%d" (i e))) o.o_iter;
  Buffer.add_string b " | cn ";
  (match o.o_canonical with Some n -> Buffer.add_string b (name_obs_str n) | None -> Buffer.add_string b "none");
  Buffer.add_string b " | opt ";
  (match o.o_opt with
   | None -> Buffer.add_string b "none"
   | Some ((cl, ttl), os) ->
       let t = i ttl in
       Buffer.add_string b (Printf.sprintf "%d %d %d" (i cl) ((t lsr 16) land 255) ((t lsr 15) land 1));
       List.iter (fun (c, d) -> Buffer.add_string b (Printf.sprintf " %d:%s" (i c) (hex_of_bytes d))) os);
  Buffer.add_string b (" | sl " ^ slice_str o.o_slice);
  Buffer.contents b


let pops_str (o : name_ops) : string =
  let lab l = if l = [] then "." else hex_of_bytes l in
  Printf.sprintf "rev=%s split=%s suf=%s parents=%d flat=%s"
    (String.concat "," (List.map lab o.no_rev))
    (if o.no_split = [] then "-" else String.concat "," (List.map hex_of_bytes o.no_split))
    (String.concat "," (List.map (fun (n, l) -> Printf.sprintf "%d:%s" (i n) (lab l)) o.no_suffixes))
    (List.length o.no_suffixes - 1)
    (match o.no_flat with Some f -> hex_of_bytes f | None -> "none")

let typed_str (x : unit item option) : string =
  match x with None -> "-" | Some (IOk _) -> "ok" | Some (IErr e) -> "e" ^ si e

let res_str (r : res) : string =
  match r with
  | RNone -> "none"
  | REnd -> "end"
  | RErr e -> "E" ^ si e
  | RPos p -> "@" ^ si p
  | RQ (((n, ty), cl), after) -> Printf.sprintf "%s>%d" (q_str (n, ty, cl)) (i after)
  | RR (n, ty, cl, ttl, rdlen, after) ->
      Printf.sprintf "r(%s %d %d %d %d)>%d" (name_obs_str n) (i ty) (i cl) (i ttl) (i rdlen) (i after)
  | RQOpt (Some ((n, ty), cl)) -> q_str (n, ty, cl)
  | RQOpt None -> "noq"
  | RBool b -> "b" ^ b01 b
  | RName (Some n) -> "n:" ^ name_obs_str n
  | RName None -> "n:none"
  | RSecs (((a, b), c), d) -> Printf.sprintf "s %d %d %d %d" (i a) (i b) (i c) (i d)
  | RCounts (((a, b), c), d) -> Printf.sprintf "c %d %d %d %d" (i a) (i b) (i c) (i d)
  | RLabels l -> "l:" ^ slice_str l
  | RTyped l -> "t:" ^ (if l = [] then "-" else String.concat "," (List.map typed_str l))
  | ROptTyped None -> "o:none"
  | ROptTyped (Some l) -> "o:" ^ (if l = [] then "-" else String.concat "," (List.map (fun (_, c) -> match c with IOk _ -> "ok" | IErr _ -> "e") l))

let dtok_str (t : dtok) : string =
  match t with
  | TOpt l -> "O" ^ (if List.mem false l then "0" else "")
  | TQHdr -> "QH" | TQ -> "q"
  | TSecHdr k -> "S" ^ si k
  | TRec b -> "r" ^ b01 b
  | TInvalid -> "!"

let res3_str (r : res3) : string =
  match r with
  | R2 r -> res_str r
  | RCount (a, b) -> Printf.sprintf "n %d %d" (i a) (i b)
  | RCopy (IOk ((a, b), c)) -> Printf.sprintf "k:%d/%d/%d" (i a) (i b) (i c)
  | RCopy (IErr e) -> "k:E" ^ si e
  | RLast (Some t) -> "g:" ^ si t
  | RLast None -> "g:none"
  | RDig l ->
      let l = List.filter (fun t -> t <> TRec true) l in
      "p:" ^ (if l = [] then "-" else String.concat " " (List.map dtok_str l))

let op_of_string (s : string) : op =
  let arg () = if String.length s > 1 then int_of_string (String.sub s 1 (String.length s - 1)) else 0 in
  match s.[0] with
  | 'Q' -> OQuestion | 'A' -> OAnswer | 'U' -> OAuthority | 'D' -> OAdditional
  | 'n' -> OQNext (nat_of_int (arg ())) | 'a' -> OQAnswer (nat_of_int (arg ()))
  | 'r' -> ORNext (nat_of_int (arg ())) | 's' -> ORNextSection (nat_of_int (arg ()))
  | 'f' -> OFirst | 'o' -> OSole | 'e' -> OSelf | 'c' -> OCanonical | 'S' -> OSections
  | 'C' -> OCounts | 'l' -> OSlice (n_of_int (arg ())) | 't' -> OTyped | 'O' -> OOptTyped
  | _ -> failwith "bad op"

let op3_of_string (s : string) : op3 =
  match s.[0] with
  | 'L' ->
      (match String.split_on_char '_' (String.sub s 1 (String.length s - 1)) with
       | [a; b] -> OLimit (nat_of_int (int_of_string a), n_of_int (int_of_string b))
       | _ -> failwith "bad L op")
  | 'K' -> OCopy | 'G' -> OLast | 'P' -> ODig
  | _ -> O2 (op_of_string s)

let dots f l = String.concat "." (List.map f l)
let svcval_str (x : svcval) : string =
  match x with
  | VMandatory l -> "m" ^ dots si l
  | VAlpn l -> "a" ^ dots hex_of_bytes l
  | VNoDefaultAlpn -> "n"
  | VPort p -> "p" ^ si p
  | VEch b -> "e" ^ hex_of_bytes b
  | VIpv4 l -> "4" ^ dots hex_of_bytes l
  | VIpv6 l -> "6" ^ dots hex_of_bytes l
  | VDohPath b -> "d" ^ hex_of_bytes b
  | VOhttp -> "o"
  | VGroups l -> "g" ^ dots si l
  | VUnknownP (k, b) -> "u" ^ si k ^ ":" ^ hex_of_bytes b

let walk_str (w : walk_obs) : string =
  match w with
  | WNone -> "-"
  | WErr -> "e"
  | WBitmap (l, c) -> "B" ^ dots si l ^ "/" ^ String.concat "" (List.map b01 c)
  | WSvc l -> "S" ^ (if l = [] then "-" else String.concat "," (List.map svcval_str l))
  | WTxt l -> "T" ^ dots hex_of_bytes l

let res4_str (r : res4) : string =
  match r with
  | R3 r -> res3_str r
  | RDisplay l -> "v:" ^ (if l = [] then "-" else String.concat " " (List.map walk_str l))

let op4_of_string (s : string) : op4 =
  match s.[0] with 'V' -> ODisplay | _ -> O3 (op3_of_string s)

let handle = function
  | ["pname"; lim; pos; m] ->
      show_outcome (fun (o, e) ->
          Printf.sprintf "%d %d %s %d %s %s" (i o.no_pos) (i o.no_len) (b01 o.no_compressed) (i e) (labels_str o.no_labels) (b01 o.no_root))
        (c01_pname (bytes_of_hex m) (n_of_int (int_of_string pos)) (n_of_int (int_of_string lim)))
  | ["skip"; lim; pos; m] ->
      show_outcome si (c01_skip (bytes_of_hex m) (n_of_int (int_of_string pos)) (n_of_int (int_of_string lim)))
  | ["islice"; start; m] ->
      show_outcome slice_str (c01_islice (bytes_of_hex m) (n_of_int (int_of_string start)))
  | ["msg"; m] ->
      (match read_all (bytes_of_hex m) with
       | Ok None -> "short"
       | Ok (Some o) -> obs_str o
       | Err e -> "Err " ^ si e
       | Panic _ -> "Panic"
       | OutOfFuel -> "OutOfFuel")
  | ["pops"; lim; pos; m] ->
      show_outcome pops_str (c01_pops (bytes_of_hex m) (n_of_int (int_of_string pos)) (n_of_int (int_of_string lim)))
  | ["ops"; m; ops] ->
      (match read_ops4 (bytes_of_hex m) (List.map op4_of_string (String.split_on_char ',' ops)) with
       | Ok None -> "short"
       | Ok (Some l) -> String.concat " ; " (List.map res4_str l)
       | Err e -> "Err " ^ si e
       | Panic _ -> "Panic"
       | OutOfFuel -> "OutOfFuel")
  | ["isans"; m; q] ->
      (match c01_isans (bytes_of_hex m) (bytes_of_hex q) with
       | Ok None -> "short"
       | Ok (Some b) -> b01 b
       | Err e -> "Err " ^ si e
       | Panic _ -> "Panic"
       | OutOfFuel -> "OutOfFuel")
  | ["ctor"; m] -> String.concat "" (List.map b01 (c01_ctor (bytes_of_hex m)))
  | ["xfr1"; m] ->
      (match c01_xfr (bytes_of_hex m) with
       | Ok None -> "short"
       | Ok (Some r) -> (match i r with 0 | 1 -> "Ok" | 99 -> "?" | k -> string_of_int k)
       | Err e -> "Err " ^ si e
       | Panic _ -> "Panic"
       | OutOfFuel -> "OutOfFuel")
  | _ -> failwith "bad case line"
let () = main handle
