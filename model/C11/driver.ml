(* C11 driver: one case per line, see harness/src/bin/c11.rs for the syntax *)
let alg_of = function "sha1" -> Sha1 | "sha256" -> Sha256 | "sha384" -> Sha384 | "sha512" -> Sha512 | _ -> failwith "alg"
(* decimal u64 -> N (OCaml ints are 63 bit: go through Int64 with the 0u prefix) *)
let num s =
  let v = Int64.of_string ("0u" ^ s) in
  let rec pos (x : int64) : positive =
    if Int64.equal x 1L then XH
    else let hi = Int64.shift_right_logical x 1 in
      if Int64.equal (Int64.logand x 1L) 0L then XO (pos hi) else XI (pos hi) in
  if Int64.equal v 0L then N0 else Npos (pos v)
let opt s = if s = "-" then None else Some (num s)
(* uncompressed wire name -> labels without the root *)
let labels_of_wire (b : n list) : n list list =
  let rec go l acc = match l with
    | [] -> List.rev acc
    | N0 :: _ -> List.rev acc
    | c :: r -> let k = int_of_n c in
        let rec take i l a = if i = 0 then (List.rev a, l) else match l with x :: t -> take (i-1) t (x :: a) | [] -> failwith "name" in
        let (lab, rest) = take k r [] in go rest (lab :: acc) in
  go b []
let verr e = match int_of_n e with
  | 1 -> "BadSig" | 2 -> "BadTrunc" | 3 -> "BadKey" | 4 -> "BadTime" | 5 -> "FormErr" | 6 -> "ServerUnsigned"
  | 7 -> "ServerBadKey" | 8 -> "ServerBadSig" | 9 -> "ServerBadTime" | 10 -> "TooManyUnsigned"
  | 30 -> "PushError" | k -> "E" ^ string_of_int k
let serr e = let k = int_of_n e in
  if k >= 100 then (match k - 100 with 1 -> "FORMERR" | 16 -> "BADSIG" | 17 -> "BADKEY" | 18 -> "BADTIME" | 22 -> "BADTRUNC" | c -> "RC" ^ string_of_int c)
  else verr e
let out_with (ef : n -> string) (f : 'a -> string) (o : 'a outcome) = match o with
  | Ok a -> f a | Err e -> "Err " ^ ef e | Panic _ -> "Panic" | OutOfFuel -> "OutOfFuel"
(* K = alg secret name min sign *)
let with_key a s nm mn sg (f : key -> string) : string =
  match c11_key_new (alg_of a) (bytes_of_hex s) (labels_of_wire (bytes_of_hex nm)) (opt mn) (opt sg) with
  | Ok k -> f k
  | Err e -> (match int_of_n e with 1 -> "KeyErr BadMinMacLen" | _ -> "KeyErr BadSigningLen")
  | _ -> "KeyErr ?"
let srv_txn k wire now : (n list, string) result =
  match c11_server_request k (bytes_of_hex wire) (num now) with
  | Ok (SrvOk (c, _)) -> Result.Ok c
  | Ok SrvNone -> Result.Error "NoTxn None"
  | Ok (SrvBadTime (_, _)) -> Result.Error "NoTxn BadTime"
  | Err e -> Result.Error ("NoTxn " ^ serr e)
  | _ -> Result.Error "NoTxn Panic"
let handle = function
  | ["newkey"; a; mn; sg] ->
      with_key a "-" "00" mn sg (fun k -> Printf.sprintf "Ok %d %d" (int_of_n k.k_min) (int_of_n k.k_sign))
  | ["genkey"; a; mn; sg; sec] ->
      (* the generator's stream: the octets the implementation returned, then filler the model must not take *)
      let rnd = bytes_of_hex sec @ List.init 80 (fun _ -> n_of_int 255) in
      (match c11_key_generate (alg_of a) rnd [] (opt mn) (opt sg) with
       | Ok (k, bits) -> Printf.sprintf "Ok %d %d %d" (int_of_n k.k_min) (int_of_n k.k_sign) (List.length bits)
       | Err e -> (match int_of_n e with 1 -> "KeyErr BadMinMacLen" | _ -> "KeyErr BadSigningLen")
       | _ -> "KeyErr ?")
  | ["time"; s; o; f] -> if c11_eq_fudged (num s) (num o) (num f) then "true" else "false"
  | ["hmac"; a; k; m] -> hex_of_bytes (c11_hmac (alg_of a) (bytes_of_hex k) (bytes_of_hex m))
  | ["creq"; a; s; nm; mn; sg; msg; now; fudge] ->
      with_key a s nm mn sg (fun k ->
        out_with verr (fun (_, w) -> "Ok " ^ hex_of_bytes w) (c11_client_request k (bytes_of_hex msg) (num now) (num fudge)))
  | ["sreq"; a; s; nm; mn; sg; wire; now] ->
      with_key a s nm mn sg (fun k ->
        out_with serr (function SrvNone -> "None" | SrvOk (_, m) -> "Ok " ^ hex_of_bytes m
                              | SrvBadTime (_, _) -> "Err BADTIME signed")
          (c11_server_request k (bytes_of_hex wire) (num now)))
  | ["serr"; a; s; nm; mn; sg; wire; now] ->
      with_key a s nm mn sg (fun k ->
        match c11_server_request k (bytes_of_hex wire) (num now) with
        | Err e when int_of_n e >= 100 ->
            (match c11_unsigned_error_rcode (bytes_of_hex wire) (n_of_int (int_of_n e - 100)) with
             | Ok rc -> "rcode " ^ string_of_int (int_of_n rc) | Panic _ -> "Panic" | _ -> "?")
        | _ -> "NotUnsignedError")
  (* wrap single|multi K pre treq fudge now resp... : the client wrapper on the responses an upstream delivered;
     multi ends with the end of the stream *)
  | "wrap" :: kind :: a :: s :: nm :: mn :: sg :: pre :: treq :: fudge :: now :: resps ->
      with_key a s nm mn sg (fun k ->
        match c11_client_request k (bytes_of_hex pre) (num treq) (num fudge) with
        | Ok (c, _) ->
            let cl = ref (if kind = "single" then WTransaction c else WSequence { cs_ctx = c; cs_first = true; cs_unsigned = N0 }) in
            let show r = out_with verr (function Some m -> "ok:" ^ hex_of_bytes m | None -> "end") r in
            let res = List.map (fun w ->
              let (cl', r) = c11_wrapper_validate k !cl (Some (bytes_of_hex w)) (num now) in
              cl := cl'; show r) resps in
            let res = if kind = "multi" then res @ [show (snd (c11_wrapper_validate k !cl None (num now)))] else res in
            String.concat "," res
        | _ -> "NoRequest")
  | ["fm"; wire] ->
      (match c11_from_message (bytes_of_hex wire) with
       | Ok _ -> "Found"
       | Err e -> (match int_of_n e with 3 -> "None" | _ -> "FORMERR")
       | Panic _ -> "Panic" | OutOfFuel -> "OutOfFuel")
  | "cseqt" :: a :: s :: nm :: mn :: sg :: req :: treq :: fudge :: rest ->
      with_key a s nm mn sg (fun k ->
        match c11_client_request k (bytes_of_hex req) (num treq) (num fudge) with
        | Ok (c, _) ->
            let st = ref { cs_ctx = c; cs_first = true; cs_unsigned = N0 } in
            let rec go l acc = match l with
              | w :: now :: tl ->
                  let (st', r) = c11_cseq_answer k !st (bytes_of_hex w) (num now) in
                  st := st'; go tl (out_with verr (fun _ -> "ok") r :: acc)
              | _ -> List.rev acc in
            String.concat "," (go rest [])
        | _ -> "NoRequest")
  | ["serrw"; a; s; nm; mn; sg; wire; now; resp] ->
      with_key a s nm mn sg (fun k ->
        match c11_server_request k (bytes_of_hex wire) (num now) with
        | Err e when int_of_n e >= 100 ->
            out_with verr (fun w -> "Ok " ^ hex_of_bytes w)
              (c11_unsigned_error_response (bytes_of_hex wire) (bytes_of_hex resp) (n_of_int (int_of_n e - 100)))
        | _ -> "NotUnsignedError")
  | ["sans"; a; s; nm; mn; sg; wire; nowreq; ans; now; fudge] ->
      with_key a s nm mn sg (fun k ->
        match srv_txn k wire nowreq with
        | Result.Error e -> e
        | Result.Ok c -> out_with verr (fun w -> "Ok " ^ hex_of_bytes w) (c11_server_answer k c (bytes_of_hex ans) (num now) (num fudge)))
  | ["sbad"; a; s; nm; mn; sg; wire; now; resp] ->
      with_key a s nm mn sg (fun k ->
        match c11_server_request k (bytes_of_hex wire) (num now) with
        | Ok (SrvBadTime (c, v)) -> out_with verr (fun w -> "Ok " ^ hex_of_bytes w) (c11_server_answer_vars k c (bytes_of_hex resp) v)
        | _ -> "NotBadTime")
  | ["cans"; a; s; nm; mn; sg; req; treq; fudge; wire; now] ->
      with_key a s nm mn sg (fun k ->
        match c11_client_request k (bytes_of_hex req) (num treq) (num fudge) with
        | Ok (c, _) -> out_with verr (fun m -> "Ok " ^ hex_of_bytes m) (c11_client_answer k c (bytes_of_hex wire) (num now))
        | _ -> "NoRequest")
  | "cseq" :: a :: s :: nm :: mn :: sg :: req :: treq :: fudge :: now :: wires ->
      with_key a s nm mn sg (fun k ->
        match c11_client_request k (bytes_of_hex req) (num treq) (num fudge) with
        | Ok (c, _) ->
            let st = ref { cs_ctx = c; cs_first = true; cs_unsigned = N0 } in
            let res = List.map (fun w ->
              let (st', r) = c11_cseq_answer k !st (bytes_of_hex w) (num now) in
              st := st';
              out_with verr (fun _ -> "ok") r) wires in
            String.concat "," res ^ " done=" ^ out_with verr (fun _ -> "ok") (c11_cseq_done !st)
        | _ -> "NoRequest")
  | "sseq" :: a :: s :: nm :: mn :: sg :: wire :: nowreq :: fudge :: rest ->
      with_key a s nm mn sg (fun k ->
        match srv_txn k wire nowreq with
        | Result.Error e -> e
        | Result.Ok c ->
            let rec go c first l acc = match l with
              | msg :: t :: tl ->
                  (match c11_server_seq_answer k c first (bytes_of_hex msg) (num t) (num fudge) with
                   | Ok (c', w) -> go c' false tl (hex_of_bytes w :: acc)
                   | _ -> List.rev ("Err" :: acc))
              | _ -> List.rev acc in
            String.concat "," (go c true rest []))
  | _ -> failwith "bad case line"
let () = main handle
