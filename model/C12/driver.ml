(* C12 driver: see harness/src/bin/c12.rs for the case syntax *)
let num s = n_of_int (int_of_string s)
let name_of s =
  match c12_name_of_wire (bytes_of_hex s) with
  | Some n -> n
  | None -> failwith ("bad name " ^ s)
let hex_of_name n = hex_of_bytes (c12_wire_of_name n)

(* records: owner type class ttl crdata, five words each *)
let rec recs_of k ws =
  if k = 0 then (match ws with [] -> [] | _ -> failwith "trailing words")
  else match ws with
    | o :: t :: c :: ttl :: d :: rest ->
        { r_owner = name_of o; r_type = num t; r_class = num c; r_ttl = num ttl; r_rdata = bytes_of_hex d }
        :: recs_of (k - 1) rest
    | _ -> failwith "short record list"

let show_sig s =
  Printf.sprintf "%d %d %d %d %d %d %d %s" (int_of_n s.s_tc) (int_of_n s.s_alg) (int_of_n s.s_labels)
    (int_of_n s.s_ottl) (int_of_n s.s_exp) (int_of_n s.s_inc) (int_of_n s.s_kt) (hex_of_name s.s_signer)

let show_sign = function
  | Ok (s, scratch) -> "Ok " ^ show_sig s ^ " " ^ hex_of_bytes scratch
  | Err e -> (match int_of_n e with 1 -> "Err rrsig" | 2 -> "Err period" | 3 -> "Err empty" | _ -> "Err other")
  | Panic _ -> "Panic"
  | OutOfFuel -> "OutOfFuel"

let handle = function
  | "sd" :: tc :: alg :: labels :: ottl :: exp :: inc :: kt :: signer :: n :: rest ->
      let s = { s_tc = num tc; s_alg = num alg; s_labels = num labels; s_ottl = num ottl;
                s_exp = num exp; s_inc = num inc; s_kt = num kt; s_signer = name_of signer } in
      hex_of_bytes (c12_signed_data s (recs_of (int_of_string n) rest))
  | op :: kalg :: ktag :: kowner :: inc :: exp :: n :: rest when op = "sr" || op = "ss" ->
      let k = { k_alg = num kalg; k_tag = num ktag; k_owner = name_of kowner } in
      let rs = recs_of (int_of_string n) rest in
      show_sign ((if op = "sr" then c12_sign_rrset else c12_sign_sorted) k rs (num inc) (num exp))
  | ["kt"; flags; proto; alg; pk] ->
      (match c12_key_tag (num flags) (num proto) (num alg) (bytes_of_hex pk) with
       | Ok t -> "Ok " ^ string_of_int (int_of_n t)
       | Err _ -> "Err"
       | Panic _ -> "Panic"
       | OutOfFuel -> "OutOfFuel")
  | ["ds"; dalg; owner; flags; proto; alg; pk] ->
      (match c12_ds_digest (num dalg) (name_of owner) (num flags) (num proto) (num alg) (bytes_of_hex pk) with
       | Ok d -> "Ok " ^ hex_of_bytes d
       | Err _ -> "Err unsupported"
       | Panic _ -> "Panic"
       | OutOfFuel -> "OutOfFuel")
  | ["rsa"; min_len; pk] ->
      (match c12_rsa_parse (bytes_of_hex pk) (num min_len) with
       | Ok (e, n) -> "Ok " ^ hex_of_bytes e ^ " " ^ hex_of_bytes n
       | Err e -> if int_of_n e = 1 then "Err invalid" else "Err unsupported"
       | Panic _ -> "Panic" | OutOfFuel -> "OutOfFuel")
  | ["renc"; e; n] ->
      (match c12_rsa_encode (bytes_of_hex e) (bytes_of_hex n) with
       | Ok k -> "Ok " ^ hex_of_bytes k | Err _ -> "Err" | Panic _ -> "Panic" | OutOfFuel -> "OutOfFuel")
  | ["ksz"; alg; pk] ->
      (match c12_key_size (num alg) (bytes_of_hex pk) with
       | Ok k -> "Ok " ^ string_of_int (int_of_n k)
       | Err e -> if int_of_n e = 1 then "Err invalid" else "Err unsupported"
       | Panic _ -> "Panic" | OutOfFuel -> "OutOfFuel")
  | "zs" :: apex :: nkeys :: n :: rest ->
      let rec zr k ws = if k = 0 then [] else (match ws with o :: t :: tl -> (name_of o, num t) :: zr (k - 1) tl | _ -> failwith "short zone") in
      let out = c12_sign_zone (name_of apex) (nat_of_int (int_of_string nkeys)) (zr (int_of_string n) rest) in
      if out = [] then "-" else String.concat " " (List.map (fun (o, t) -> hex_of_name o ^ ":" ^ string_of_int (int_of_n t)) out)
  | "zu" :: apex :: nkeys :: n :: rest ->
      let rec zr k ws = if k = 0 then [] else (match ws with o :: t :: u :: d :: tl -> ((name_of o, num t), (u = "1", bytes_of_hex d)) :: zr (k - 1) tl | _ -> failwith "short zone") in
      let out = c12_sign_zone_unsorted (name_of apex) (nat_of_int (int_of_string nkeys)) (zr (int_of_string n) rest) in
      if out = [] then "-" else String.concat " " (List.map (fun (o, t) -> hex_of_name o ^ ":" ^ string_of_int (int_of_n t)) out)
  | "so" :: nops :: rest ->
      let sr ws = (match ws with o :: t :: u :: d :: tl -> (((name_of o, num t), (u = "1", bytes_of_hex d)), tl) | _ -> failwith "short record") in
      let rec srs k ws = if k = 0 then ([], ws) else (let (r, tl) = sr ws in let (l, tl') = srs (k - 1) tl in (r :: l, tl')) in
      let rec ops k ws = if k = 0 then [] else (match ws with
        | "I" :: tl -> let (r, tl') = sr tl in OInsert r :: ops (k - 1) tl'
        | "E" :: n :: tl -> let (l, tl') = srs (int_of_string n) tl in OExtend l :: ops (k - 1) tl'
        | _ -> failwith "bad op") in
      let (fin, oks) = c12_sorted_ops (ops (int_of_string nops) rest) in
      (if oks = [] then "-" else String.concat "" (List.map (fun b -> if b then "1" else "0") oks)) ^ " " ^
      (if fin = [] then "-" else String.concat " " (List.map (fun ((o, t), (_, d)) -> hex_of_name o ^ ":" ^ string_of_int (int_of_n t) ^ ":" ^ hex_of_bytes d) fin))
  | ["va"; sa; ka] -> if c12_alg_mismatch (num sa) (num ka) then "Err invalid" else "-"
  | ["lc"; owner] -> string_of_int (int_of_n (c12_label_count (name_of owner)))
  | ["wce"; labels; owner] ->
      (match c12_wce (num labels) (name_of owner) with
       | Some n -> "Some " ^ hex_of_name n
       | None -> "None")
  | _ -> failwith "bad case line"
let () = main handle
