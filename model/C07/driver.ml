(* C07 driver: `read <hex>` -> entries and ending, `items <hex>` -> token stream *)
let err_word (e : int) : string = match e with
  | 1 -> "bad_symbol" | 2 -> "bad_charstr" | 3 -> "bad_name" | 4 -> "unbalanced_parens"
  | 5 -> "missing_last_owner" | 6 -> "missing_last_class" | 7 -> "missing_origin"
  | 8 -> "expected_rtype" | 9 -> "unknown_control" | 10 -> "different_class"
  | 11 -> "unexpected_end_of_entry" | 12 -> "short_buffer" | 13 -> "trailing_tokens"
  | 14 -> "decimal_number_overflow" | 15 -> "expected_decimal_number"
  | 17 -> "expected_IPv4_address" | 18 -> "expected_hex_digits" | 19 -> "uneven_number_of_hex_digits"
  | 20 -> "expected_SshfpAlgorithm" | 21 -> "expected_SshfpType" | 22 -> "expected_TlsaCertificateUsage"
  | 23 -> "expected_TlsaSelector" | 24 -> "expected_TlsaMatchingType"
  | 25 -> "trailing_Base_64_data" | 26 -> "illegal_Base_64_data" | 27 -> "incomplete_Base_64_data"
  | 28 -> "generic_data_has_incorrect_length"
  | 29 -> "illegal_NSEC3_salt" | 30 -> "NSEC3_salt_too_long" | 31 -> "illegal_Base_32_data"
  | 32 -> "short_Base_32_input" | 33 -> "NSEC3_owner_hash_too_long" | 34 -> "expected_Nsec3HashAlgorithm" | 35 -> "expected_Rtype" | 99 -> "UNSUPPORTED" | n -> "E" ^ string_of_int n
let show_entry = function
  | ERecord (o, c, t, r, d) ->
    Printf.sprintf "R:%s:%d:%d:%d:%s" (hex_of_bytes o) (int_of_n c) (int_of_n t) (int_of_n r) (hex_of_bytes d)
  | EInclude (p, o) ->
    Printf.sprintf "I:%s:%s" (hex_of_bytes p) (match o with Some n -> hex_of_bytes n | None -> "-")
let show_sym = function
  | SChar c -> Printf.sprintf "c%x" (int_of_n c)
  | SSimple b -> Printf.sprintf "s%x" (int_of_n b)
  | SDec b -> Printf.sprintf "d%x" (int_of_n b)
let show_item = function
  | ILF -> "LF"
  | ITok (q, sp, syms) ->
    Printf.sprintf "T%s%s:%s" (if q then "q" else "u") (if sp then "s" else "n")
      (if syms = [] then "-" else String.concat "," (List.map show_sym syms))
let show_end pre = function
  | EEof -> pre ^ "EOF"
  | EErr e -> pre ^ "ERR:" ^ err_word (int_of_n e)
  | EPanic _ -> "PANIC"
  | EFuel -> "OutOfFuel"
let handle = function
  | ["read"; h] ->
    let (es, e) = c07_read (bytes_of_hex h) in
    show_end (String.concat "" (List.map (fun x -> show_entry x ^ " ") es)) e
  | ["items"; h] ->
    let (is, e) = c07_items (bytes_of_hex h) in
    show_end (String.concat "" (List.map (fun x -> show_item x ^ " ") is)) e
  | ["sym"; h] ->
    let on f x = match f x with Some v -> Printf.sprintf "%x" (int_of_n v) | None -> "-" in
    (match c07_sym (bytes_of_hex h) with
     | SymEnd -> "End"
     | SymErr -> "Err"
     | SymOk (sy, n) ->
       Printf.sprintf "Ok %s %d w%d o%s a%s c%s g%s" (show_sym sy) (int_of_nat n)
         (if is_word_char sy then 1 else 0) (on into_octet sy) (on into_ascii sy) (on into_char sy) (on into_digit sy))
  | _ -> failwith "bad case line"
let () = main handle
