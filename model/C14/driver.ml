(* C14 driver.  Names travel as lowercase hex of the absolute wire form
   (root = "00"), octet strings as hex ("-" = empty), type lists as comma
   separated decimals ("-" = empty), optional names as "-" for None. *)
let n_of_s s = n_of_int (int_of_string s)
let name_of_hex (h : string) : n list list =
  let b = List.map int_of_n (bytes_of_hex h) in
  let rec go b acc =
    match b with
    | [] -> failwith "name without root label"
    | 0 :: [] -> List.rev acc
    | 0 :: _ -> failwith "octets after root label"
    | l :: r ->
        let rec take k r lab =
          if k = 0 then (List.rev lab, r)
          else match r with [] -> failwith "short label" | x :: r' -> take (k - 1) r' (n_of_int x :: lab) in
        let (lab, r') = take l r [] in
        go r' (lab :: acc) in
  go b []
let hex_of_name (nm : n list list) : string =
  String.concat "" (List.map (fun l -> Printf.sprintf "%02x" (List.length l) ^ (if l = [] then "" else hex_of_bytes l)) nm) ^ "00"
let oname_of_hex h = if h = "-" then None else Some (name_of_hex h)
let types_of s = if s = "-" then [] else List.map n_of_s (String.split_on_char ',' s)
let b_of s = (s = "1")
let sb b = if b then "true" else "false"

let rec sgroups = function
  | [] -> []
  | rt :: nrr :: isn :: owner :: next :: types :: state :: signer :: ce :: rest ->
      (c14_mkG (n_of_s rt) (n_of_s nrr) (b_of isn) (name_of_hex owner) (name_of_hex next) (types_of types)
        (state = "Secure") (name_of_hex signer) (oname_of_hex ce),
       (match state with "Secure" -> Secure | "Insecure" -> Insecure | "Bogus" -> Bogus | "Indeterminate" -> Indeterminate | _ -> failwith "bad state")) :: sgroups rest
  | _ -> failwith "bad group words"
let rec groups = function
  | [] -> []
  | rt :: nrr :: isn :: owner :: next :: types :: secure :: signer :: ce :: rest ->
      c14_mkG (n_of_s rt) (n_of_s nrr) (b_of isn) (name_of_hex owner) (name_of_hex next) (types_of types)
        (b_of secure) (name_of_hex signer) (oname_of_hex ce) :: groups rest
  | _ -> failwith "bad group words"

let vstate_of = function
  | "Secure" -> Secure | "Insecure" -> Insecure | "Bogus" -> Bogus | "Indeterminate" -> Indeterminate
  | _ -> failwith "bad state"
let str_vstate = function Secure -> "Secure" | Insecure -> "Insecure" | Bogus -> "Bogus" | Indeterminate -> "Indeterminate"
let rec agroups = function
  | [] -> []
  | cls :: rt :: nrr :: owner :: cname :: st :: wild :: rest ->
      { a_class_ok = b_of cls; a_rtype = n_of_s rt; a_nrr = n_of_s nrr; a_owner = name_of_hex owner;
        a_cname = oname_of_hex cname; a_state = vstate_of st; a_wild = b_of wild } :: agroups rest
  | _ -> failwith "bad answer group words"

let show_o f o = match o with
  | Ok a -> f a
  | Err e -> "Err " ^ string_of_int (int_of_n e)
  | Panic _ -> "Panic"
  | OutOfFuel -> "OutOfFuel"
let show_n (st, ede) = (match st with NoData -> "NoData" | NNothing -> "Nothing") ^ " " ^ string_of_int (int_of_n ede)
let show_nx (st, ede) =
  (match st with NxExists -> "Exists" | NxNothing -> "Nothing" | NxDoesNotExist ce -> "DoesNotExist " ^ hex_of_name ce)
  ^ " " ^ string_of_int (int_of_n ede)

let handle = function
  | ["inr"; t; o; n] -> sb (c14_nsec_in_range (name_of_hex t) (name_of_hex o) (name_of_hex n))
  | ["inr3"; t; o; n] -> sb (c14_nsec3_in_range (bytes_of_hex t) (bytes_of_hex o) (bytes_of_hex n))
  | ["sup3"; h] -> sb (c14_supported_nsec3_hash (n_of_s h))
  | ["l2h"; l] ->
      (* the two error kinds (not UTF-8 / not Base32hex) are one word: the code may merge them *)
      (match c14_label_to_hash (bytes_of_hex l) with Err _ -> "Err" | o -> show_o (fun h -> "Ok " ^ hex_of_bytes h) o)
  | "nodata" :: t :: rt :: signer :: gs -> show_o show_n (c14_nodata (name_of_hex t) (groups gs) (n_of_s rt) (name_of_hex signer))
  | "ndwild" :: t :: rt :: signer :: gs -> show_o show_n (c14_nodata_wildcard (name_of_hex t) (groups gs) (n_of_s rt) (name_of_hex signer))
  | "notex" :: t :: signer :: gs -> show_o show_nx (c14_not_exists (name_of_hex t) (groups gs) (name_of_hex signer))
  | "nxdom" :: t :: signer :: gs -> show_o show_nx (c14_nxdomain (name_of_hex t) (groups gs) (name_of_hex signer))
  | "negmsg" :: nx :: t :: qt :: signer :: gs ->
      show_o (fun (s, e) -> (match s with Secure -> "Secure" | Insecure -> "Insecure" | Bogus -> "Bogus" | Indeterminate -> "Indeterminate") ^ " " ^ string_of_int (int_of_n e))
        (negative_msg_state (b_of nx) (name_of_hex t) (n_of_s qt) (name_of_hex signer) (sgroups gs))
  | ["sigtime"; now; inc; exp] -> sb (c14_sig_time_ok (n_of_s now) (n_of_s inc) (n_of_s exp))
  | ["wce"; owner; labels] -> (match c14_wildcard_ce (name_of_hex owner) (n_of_s labels) with None -> "-" | Some ce -> hex_of_name ce)
  | "answer" :: q :: qt :: maxc :: gs ->
      show_o str_vstate (answer_msg_state (name_of_hex q) (n_of_s qt) (n_of_s maxc) (agroups gs))
  | _ -> failwith "bad case line"
let () = main handle
