(* C14 driver.  Names travel as lowercase hex of the absolute wire form
   (root = "00"), octet strings as hex ("-" = empty), type lists as comma
   separated decimals ("-" = empty), optional names as "-" for None. *)
let n_of_s s = n_of_int (int_of_string s)
let name_of_hex (h : string) : n list list =
  let b = List.map int_of_n (bytes_of_hex h) in
  let rec go b acc =
    match b with
    | [] -> failwith "name without root label"
    | 0 :: [] -> List.rev acc
    | 0 :: _ -> failwith "octets after root label"
    | l :: r ->
        let rec take k r lab =
          if k = 0 then (List.rev lab, r)
          else match r with [] -> failwith "short label" | x :: r' -> take (k - 1) r' (n_of_int x :: lab) in
        let (lab, r') = take l r [] in
        go r' (lab :: acc) in
  go b []
let hex_of_name (nm : n list list) : string =
  String.concat "" (List.map (fun l -> Printf.sprintf "%02x" (List.length l) ^ (if l = [] then "" else hex_of_bytes l)) nm) ^ "00"
let oname_of_hex h = if h = "-" then None else Some (name_of_hex h)
let types_of s = if s = "-" then [] else List.map n_of_s (String.split_on_char ',' s)
let b_of s = (s = "1")
let sb b = if b then "true" else "false"

let rec sgroups = function
  | [] -> []
  | rt :: nrr :: isn :: owner :: next :: types :: state :: signer :: ce :: rest ->
      (c14_mkG (n_of_s rt) (n_of_s nrr) (b_of isn) (name_of_hex owner) (name_of_hex next) (types_of types)
        (state = "Secure") (name_of_hex signer) (oname_of_hex ce),
       (match state with "Secure" -> Secure | "Insecure" -> Insecure | "Bogus" -> Bogus | "Indeterminate" -> Indeterminate | _ -> failwith "bad state")) :: sgroups rest
  | _ -> failwith "bad group words"
let rec groups = function
  | [] -> []
  | rt :: nrr :: isn :: owner :: next :: types :: secure :: signer :: ce :: rest ->
      c14_mkG (n_of_s rt) (n_of_s nrr) (b_of isn) (name_of_hex owner) (name_of_hex next) (types_of types)
        (b_of secure) (name_of_hex signer) (oname_of_hex ce) :: groups rest
  | _ -> failwith "bad group words"

let vstate_of = function
  | "Secure" -> Secure | "Insecure" -> Insecure | "Bogus" -> Bogus | "Indeterminate" -> Indeterminate
  | _ -> failwith "bad state"
let str_vstate = function Secure -> "Secure" | Insecure -> "Insecure" | Bogus -> "Bogus" | Indeterminate -> "Indeterminate"
let rec agroups = function
  | [] -> []
  | cls :: rt :: nrr :: owner :: cname :: st :: wild :: dname :: signed :: rest ->
      { a_class_ok = b_of cls; a_rtype = n_of_s rt; a_nrr = n_of_s nrr; a_owner = name_of_hex owner;
        a_cname = oname_of_hex cname; a_state = vstate_of st; a_wild = b_of wild; a_dname = oname_of_hex dname; a_signed = b_of signed } :: agroups rest
  | _ -> failwith "bad answer group words"

let show_o f o = match o with
  | Ok a -> f a
  | Err e -> "Err " ^ string_of_int (int_of_n e)
  | Panic _ -> "Panic"
  | OutOfFuel -> "OutOfFuel"
let show_n (st, ede) = (match st with NoData -> "NoData" | NNothing -> "Nothing") ^ " " ^ string_of_int (int_of_n ede)
let show_nx (st, ede) =
  (match st with NxExists -> "Exists" | NxNothing -> "Nothing" | NxDoesNotExist ce -> "DoesNotExist " ^ hex_of_name ce)
  ^ " " ^ string_of_int (int_of_n ede)

(* NSEC3 cases: the hash function is a table computed by the harness with the library's nsec3_hash *)
let htable (w : string) : (int * string * string * string) list =
  if w = "-" then [] else
  List.map (fun e -> match String.split_on_char ':' e with
    | [i; s; n; h] -> (int_of_string i, s, n, h) | _ -> failwith "bad hash table entry") (String.split_on_char ',' w)
let hfun tbl (it : n) (salt : n list) (nm : n list list) : n list =
  let key = (int_of_n it, hex_of_bytes salt, hex_of_name nm) in
  let rec go = function
    | [] -> failwith ("hash table has no entry for " ^ hex_of_name nm)
    | (i, s, n, h) :: r -> if (i, s, n) = key then bytes_of_hex h else go r in
  go tbl
let rec n3groups = function
  | [] -> []
  | nrr :: isn3 :: secure :: signer :: alg :: oo :: iter :: salt :: label :: next :: types :: rest ->
      { h_nrr = n_of_s nrr; h_is_nsec3 = b_of isn3; h_secure = b_of secure; h_signer = name_of_hex signer; h_alg = n_of_s alg;
        h_optout = b_of oo; h_iter = n_of_s iter; h_salt = bytes_of_hex salt; h_label = bytes_of_hex label; h_next = bytes_of_hex next;
        h_types = types_of types } :: n3groups rest
  | _ -> failwith "bad nsec3 group words"
let si e = string_of_int (int_of_n e)
let show_n3nx (st, e) = (match st with N3DNE ce -> "DNE " ^ hex_of_name ce | N3DNEInsecure ce -> "DNEI " ^ hex_of_name ce
  | N3Bogus -> "Bogus" | N3Insecure -> "Insecure" | N3Nothing -> "Nothing") ^ " " ^ si e
let show_noce (st, e) = (match st with NcDNE -> "DNE" | NcDNEInsecure -> "DNEI" | NcNothing -> "Nothing" | NcBogus -> "Bogus") ^ " " ^ si e
let show_n3st (st, e) = (match st with S3NoData -> "NoData" | S3NoDataInsecure -> "NoDataInsecure" | S3Bogus -> "Bogus" | S3Nothing -> "Nothing") ^ " " ^ si e

(* child <maxbad> <nds> <nkeys> <nsigs> ds:(alg tag dt digest)* key:(alg tag d1 d2 d4)* sig:(tag validkeys)* *)
(* anchor <maxbad> <nta> <nkeys> <nsigs> ta:(K id - - - | D alg tag dt digest | O - - - -)* key:(alg tag d1 d2 d4)* sig:(tag validkeys)* *)
let anchor_case maxbad nta nkeys nsigs ws =
  let rec take k l acc = if k = 0 then (List.rev acc, l) else match l with [] -> failwith "short anchor case" | x :: r -> take (k - 1) r (x :: acc) in
  let (taw, r1) = take (5 * nta) ws [] in
  let (kw, r2) = take (5 * nkeys) r1 [] in
  let (sw, r3) = take (2 * nsigs) r2 [] in
  if r3 <> [] then failwith "long anchor case";
  let rec tas = function [] -> []
    | "K" :: id :: _ :: _ :: _ :: r -> TaKey (n_of_s id) :: tas r
    | "D" :: a :: t :: dt :: d :: r -> TaDs { d_alg = n_of_s a; d_tag = n_of_s t; d_dt = n_of_s dt; d_digest = bytes_of_hex d } :: tas r
    | "O" :: _ :: _ :: _ :: _ :: r -> TaOther :: tas r
    | _ -> failwith "ta" in
  let rec keys i = function [] -> [] | a :: t :: d1 :: d2 :: d4 :: r -> ({ k_alg = n_of_s a; k_tag = n_of_s t; k_id = n_of_int i }, (d1, d2, d4)) :: keys (i + 1) r | _ -> failwith "key" in
  let rec sigs i = function [] -> [] | t :: v :: r -> ({ sg_tag = n_of_s t; sg_id = n_of_int i }, (if v = "-" then [] else List.map int_of_string (String.split_on_char ',' v))) :: sigs (i + 1) r | _ -> failwith "sig" in
  let ks = keys 0 kw and ss = sigs 0 sw in
  let dg k dt = let (_, (d1, d2, d4)) = List.find (fun (k', _) -> k'.k_id = k.k_id) ks in
    bytes_of_hex (match int_of_n dt with 1 -> d1 | 2 -> d2 | 4 -> d4 | _ -> "-") in
  let vf k s = let (_, v) = List.find (fun (s', _) -> s'.sg_id = s.sg_id) ss in List.mem (int_of_n k.k_id) v in
  str_vstate (trust_anchor_state dg vf (tas taw) (List.map fst ks) (List.map fst ss) (n_of_s maxbad))
let child_case maxbad nds nkeys nsigs ws =
  let rec take k l acc = if k = 0 then (List.rev acc, l) else match l with [] -> failwith "short child case" | x :: r -> take (k - 1) r (x :: acc) in
  let (dsw, r1) = take (4 * nds) ws [] in
  let (kw, r2) = take (5 * nkeys) r1 [] in
  let (sw, r3) = take (2 * nsigs) r2 [] in
  if r3 <> [] then failwith "long child case";
  let rec dss = function [] -> [] | a :: t :: dt :: d :: r -> { d_alg = n_of_s a; d_tag = n_of_s t; d_dt = n_of_s dt; d_digest = bytes_of_hex d } :: dss r | _ -> failwith "ds" in
  let rec keys i = function [] -> [] | a :: t :: d1 :: d2 :: d4 :: r -> ({ k_alg = n_of_s a; k_tag = n_of_s t; k_id = n_of_int i }, (d1, d2, d4)) :: keys (i + 1) r | _ -> failwith "key" in
  let rec sigs i = function [] -> [] | t :: v :: r -> ({ sg_tag = n_of_s t; sg_id = n_of_int i }, (if v = "-" then [] else List.map int_of_string (String.split_on_char ',' v))) :: sigs (i + 1) r | _ -> failwith "sig" in
  let ks = keys 0 kw and ss = sigs 0 sw in
  let dg k dt = let (_, (d1, d2, d4)) = List.find (fun (k', _) -> k'.k_id = k.k_id) ks in
    bytes_of_hex (match int_of_n dt with 1 -> d1 | 2 -> d2 | 4 -> d4 | _ -> "-") in
  let vf k s = let (_, v) = List.find (fun (s', _) -> s'.sg_id = s.sg_id) ss in List.mem (int_of_n k.k_id) v in
  str_vstate (child_node_state dg vf (dss dsw) (List.map fst ks) (List.map fst ss) (n_of_s maxbad))

let rec dgroups = function
  | [] -> []
  | rt :: owner :: valid :: ce :: next :: types :: alg :: oo :: iter :: salt :: nexth :: rest ->
      { dg_rtype = n_of_s rt; dg_owner = name_of_hex owner; dg_valid = b_of valid; dg_ce = oname_of_hex ce; dg_next = name_of_hex next;
        dg_types = types_of types; dg_alg = n_of_s alg; dg_optout = b_of oo; dg_iter = n_of_s iter; dg_salt = bytes_of_hex salt;
        dg_nexth = bytes_of_hex nexth } :: dgroups rest
  | _ -> failwith "bad ds-proof group words"

let handle = function
  | "dsproof" :: t :: ci :: cb :: tbl :: cn :: gs ->
      show_o (function InsecureDelegation -> "Insecure" | _ -> "Bogus")
        (ds_reply_decision (hfun (htable tbl)) (n_of_s ci) (n_of_s cb) (name_of_hex t)
           (match cn with "C0" -> NoCname | "C1" -> CnameValid | "C2" -> CnameInvalid | _ -> failwith "bad cname word") (dgroups gs))
  | "wild" :: sname :: stw :: signer :: ce :: tbl :: nn :: gs ->
      let rec split k l acc = if k = 0 then (List.rev acc, l) else match l with [] -> failwith "short wild case" | x :: r -> split (k - 1) r (x :: acc) in
      let (nw, n3w) = split (9 * int_of_string nn) gs [] in
      let rec n3s = function
        | [] -> []
        | nrr :: isn3 :: stt :: signer :: alg :: oo :: iter :: salt :: label :: next :: types :: rest ->
            ({ h_nrr = n_of_s nrr; h_is_nsec3 = b_of isn3; h_secure = (stt = "Secure"); h_signer = name_of_hex signer; h_alg = n_of_s alg;
               h_optout = b_of oo; h_iter = n_of_s iter; h_salt = bytes_of_hex salt; h_label = bytes_of_hex label; h_next = bytes_of_hex next;
               h_types = types_of types }, vstate_of stt) :: n3s rest
        | _ -> failwith "bad nsec3 group words" in
      show_o str_vstate (wildcard_msg_state (hfun (htable tbl)) (n_of_int 100) (n_of_int 500) (name_of_hex sname) (vstate_of stw) (name_of_hex signer) (oname_of_hex ce) (sgroups nw) (n3s n3w))
  | "anchor" :: maxbad :: nta :: nkeys :: nsigs :: ws -> anchor_case maxbad (int_of_string nta) (int_of_string nkeys) (int_of_string nsigs) ws
  | "child" :: maxbad :: nds :: nkeys :: nsigs :: ws -> child_case maxbad (int_of_string nds) (int_of_string nkeys) (int_of_string nsigs) ws
  | "n3" :: f :: t :: qt :: signer :: ci :: cb :: tbl :: gs ->
      let h = hfun (htable tbl) and t = name_of_hex t and s = name_of_hex signer and g = n3groups gs in
      let ci = n_of_s ci and cb = n_of_s cb and qt = n_of_s qt in
      (match f with
       | "notex" -> show_o show_n3nx (nsec3_for_not_exists h ci cb t g s)
       | "noce" -> show_o show_noce (nsec3_for_not_exists_no_ce h ci cb t g s)
       | "nodata" -> show_o show_n3st (nsec3_for_nodata h ci cb t g qt s)
       | "nxdom" -> show_o show_n3nx (nsec3_for_nxdomain h ci cb t g s)
       | "ndwild" -> show_o show_n3st (nsec3_for_nodata_wildcard h ci cb t g qt s)
       | _ -> failwith "bad nsec3 function")
  | ["inr"; t; o; n] -> sb (c14_nsec_in_range (name_of_hex t) (name_of_hex o) (name_of_hex n))
  | ["inr3"; t; o; n] -> sb (c14_nsec3_in_range (bytes_of_hex t) (bytes_of_hex o) (bytes_of_hex n))
  | ["sup3"; h] -> sb (c14_supported_nsec3_hash (n_of_s h))
  | ["l2h"; l] ->
      (* the two error kinds (not UTF-8 / not Base32hex) are one word: the code may merge them *)
      (match c14_label_to_hash (bytes_of_hex l) with Err _ -> "Err" | o -> show_o (fun h -> "Ok " ^ hex_of_bytes h) o)
  | "nodata" :: t :: rt :: signer :: gs -> show_o show_n (c14_nodata (name_of_hex t) (groups gs) (n_of_s rt) (name_of_hex signer))
  | "ndwild" :: t :: rt :: signer :: gs -> show_o show_n (c14_nodata_wildcard (name_of_hex t) (groups gs) (n_of_s rt) (name_of_hex signer))
  | "notex" :: t :: signer :: gs -> show_o show_nx (c14_not_exists (name_of_hex t) (groups gs) (name_of_hex signer))
  | "nxdom" :: t :: signer :: gs -> show_o show_nx (c14_nxdomain (name_of_hex t) (groups gs) (name_of_hex signer))
  | "negmsg" :: nx :: t :: qt :: signer :: gs ->
      show_o (fun (s, e) -> (match s with Secure -> "Secure" | Insecure -> "Insecure" | Bogus -> "Bogus" | Indeterminate -> "Indeterminate") ^ " " ^ string_of_int (int_of_n e))
        (negative_msg_state (b_of nx) (name_of_hex t) (n_of_s qt) (name_of_hex signer) (sgroups gs))
  | ["conn"; rcd; rdo; rad; uad; ucd; stw] ->
      let o = connection (b_of rcd) (b_of rdo) (b_of rad) (b_of uad) (b_of ucd) (vstate_of stw) in
      Printf.sprintf "ad=%d cd=%d servfail=%d stripped=%d" (if o.o_ad then 1 else 0) (if o.o_cd then 1 else 0) (if o.o_servfail then 1 else 0) (if o.o_stripped then 1 else 0)
  | "groups" :: ws ->
      let rec recs = function [] -> []
        | o :: c :: sg :: t :: id :: r -> { r_owner = name_of_hex o; r_class = n_of_s c; r_is_sig = b_of sg; r_type = n_of_s t; r_id = n_of_s id } :: recs r
        | _ -> failwith "bad record words" in
      let show g =
        let (hd, rt) = match g.m_rrs, g.m_sigs with f :: _, _ -> (f, int_of_n f.r_type) | [], f :: _ -> (f, 46) | [], [] -> failwith "empty group" in
        Printf.sprintf "%s/%d/%d/%d/%d" (hex_of_name hd.r_owner) (int_of_n hd.r_class) rt (List.length g.m_rrs) (List.length g.m_sigs) in
      String.concat ";" (List.map show (groupset_of (recs ws)))
  | "getnode" :: tbl :: steps ->
      (* tbl: name:kind,...  kind S secure delegation, I insecure delegation, M secure intermediate, B bogus *)
      let table = List.map (fun e -> match String.split_on_char ':' e with [n; k] -> (n, k) | _ -> failwith "bad table") (String.split_on_char ',' tbl) in
      let zero = n_of_int 0 and ttl = n_of_int 300 in
      let node st im = { cn_state = st; cn_intermediate = im; cn_created = zero; cn_valid_for = ttl } in
      let mk nm signer =
        if signer.cn_intermediate then node Bogus false
        else match List.assoc_opt (hex_of_name nm) table with
          | Some "S" -> node Secure false | Some "I" -> node Insecure false | Some "M" -> node Secure true
          | Some "B" -> node Bogus false | _ -> failwith ("no class for " ^ hex_of_name nm) in
      let step cache nmh =
        match get_node zero [] (node Secure false) mk cache (name_of_hex nmh) with
        | Ok r -> (r.l_cache, (if r.l_calls = [] then "-" else String.concat "," (List.map (fun (nm, _) -> hex_of_name nm) r.l_calls))
                              ^ " " ^ (match r.l_node.cn_state with Insecure -> "Insecure" | _ -> "Bogus"))
        | _ -> (cache, "Panic") in
      let (_, last) = List.fold_left (fun (c, _) s -> step c s) ([], "-") steps in last
  | ["anchorttl"; n1; n2; maxv; dttl; rt; ot; exp] ->
      show_o sb (anchor_still_trusts (n_of_s n1) (n_of_s n2) (n_of_s maxv) (n_of_s dttl) { st_rr_ttl = n_of_s rt; st_orig_ttl = n_of_s ot; st_expiration = n_of_s exp })
  | ["childttl"; n1; n2; pl; dsttl; drt; dot; dexp; kttl; krt; kot; kexp] ->
      show_o sb (child_still_trusts (n_of_s n1) (n_of_s n2) (n_of_s pl) (n_of_s dsttl) { st_rr_ttl = n_of_s drt; st_orig_ttl = n_of_s dot; st_expiration = n_of_s dexp }
                   (n_of_s kttl) { st_rr_ttl = n_of_s krt; st_orig_ttl = n_of_s kot; st_expiration = n_of_s kexp })
  | ["reval"; n1; n2; inc; exp] -> show_o sb (revalidate (n_of_s n1) (n_of_s n2) (n_of_s inc) (n_of_s exp))
  | ["sigtime"; now; inc; exp] -> sb (c14_sig_time_ok (n_of_s now) (n_of_s inc) (n_of_s exp))
  | ["wce"; owner; labels] -> (match c14_wildcard_ce (name_of_hex owner) (n_of_s labels) with None -> "-" | Some ce -> hex_of_name ce)
  | "answer" :: q :: qt :: maxc :: gs ->
      show_o str_vstate (answer_msg_state (name_of_hex q) (n_of_s qt) (n_of_s maxc) (agroups gs))
  | _ -> failwith "bad case line"
let () = main handle
