(* C04 driver: see harness/src/bin/c04.rs for the case syntax *)
let b = bytes_of_hex
let nn s = n_of_int (int_of_string s)
let sb x = if x then "true" else "false"
let ob = show_outcome sb
let oc = show_outcome str_cmp
let oh = show_outcome hex_of_bytes
(* labels of an uncompressed absolute name in wire form, without the root *)
let rec labels_of_wire (w : n list) : n list list =
  match w with
  | [] -> []
  | h :: t ->
      let k = int_of_n h in
      if k = 0 then [] else
      let rec take i l = if i = 0 then ([], l) else
        (match l with [] -> failwith "short name" | x :: r -> let (a, c) = take (i - 1) r in (x :: a, c)) in
      let (lab, rest) = take k t in
      lab :: labels_of_wire rest
let crec o c t r d = { r_owner = labels_of_wire (b o); r_class = nn c; r_ttl = nn t; r_rtype = nn r; r_rdata = b d }
let fval_of kind (v : string) : fval =
  match int_of_n kind with
  | 1 -> VU8 (nn v) | 2 -> VU16 (nn v) | 3 -> VU32 (nn v)
  | 4 -> VNameLc (labels_of_wire (b v)) | 5 -> VNameRaw (labels_of_wire (b v))
  | 6 -> VStr (b v) | 7 -> VOcts (b v) | 8 -> VPfx (b v) | 9 -> VBitmap (b v)
  | 10 -> VAddr4 (b v) | 11 -> VAddr16 (b v) | 12 -> VU48 (nn v) | 13 -> VOcts16 (b v)
  | _ -> failwith "bad kind"
let show_tok = function
  | TB v -> Printf.sprintf "b%02x" (int_of_n v)
  | TW v -> Printf.sprintf "w%04x" (int_of_n v)
  | TD v -> Printf.sprintf "d%08x" (int_of_n v)
  | TQ v -> Printf.sprintf "q%016x" (int_of_n v)
  | TN v -> Printf.sprintf "n%d" (int_of_n v)
  | TR l -> "r" ^ hex_of_bytes l
let rec split_bar acc = function
  | [] -> (List.rev acc, [])
  | "|" :: rest -> (List.rev acc, rest)
  | x :: rest -> split_bar (x :: acc) rest
let rdx code rest =
  let kinds = c04_rd_kinds (nn code) in
  let (va, vb) = split_bar [] rest in
  if List.length va <> List.length kinds || List.length vb <> List.length kinds then "BAD-ARITY" else
  let a = List.map2 fval_of kinds va and bb = List.map2 fval_of kinds vb in
  let e = (match c04_rd_eq (nn code) a bb with Some x -> sb x | None -> "?") in
  let c = (match c04_rd_ccmp (nn code) a bb with Ok c -> str_cmp c | _ -> "Panic") in
  let h = c04_rd_hash (nn code) a in
  let oc = function Some c -> str_cmp c | None -> "None" in
  e ^ " " ^ c ^ " " ^ oc (c04_rd_cmp (nn code) a bb) ^ " " ^ oc (c04_rd_partial (nn code) a bb) ^ " " ^ oc (c04_rd_ccmp_steps (nn code) a bb)
    ^ " " ^ (if h = [] then "-" else String.concat "," (List.map show_tok h))
let mkh o t c l r = { h_owner = labels_of_wire (b o); h_rtype = nn t; h_class = nn c; h_ttl = nn l; h_rdlen = nn r }
(* self-describing values: <letter>:<value> *)
let fval_tagged (t : string) : fval =
  let v = String.sub t 2 (String.length t - 2) in
  match t.[0] with
  | 'b' -> VU8 (nn v) | 'w' -> VU16 (nn v) | 'd' -> VU32 (nn v) | 'q' -> VU48 (nn v)
  | 'n' -> VNameRaw (labels_of_wire (b v)) | 's' -> VStr (b v) | 'o' -> VOcts (b v)
  | '4' -> VAddr4 (b v) | '6' -> VAddr16 (b v) | 'l' -> VOcts16 (b v)
  | _ -> failwith "bad value tag"
let un k w = if k = "abs" then UAbs (b w) else URel (b w)
let reco code rest =
  let kinds = c04_rd_kinds (nn code) in
  let (va, vb) = split_bar [] rest in
  (match va, vb with
   | oa :: ca :: va', ob :: cb :: vb' when List.length va' = List.length kinds && List.length vb' = List.length kinds ->
       let a = List.map2 fval_of kinds va' and bb = List.map2 fval_of kinds vb' in
       let oc = function Some c -> str_cmp c | None -> "None" in
       let (na, nb) = (labels_of_wire (b oa), labels_of_wire (b ob)) in
       sb (c04_record_eq (nn code) na (nn ca) a nb (nn cb) bb) ^ " " ^ oc (c04_record_cmp (nn code) na (nn ca) a nb (nn cb) bb)
         ^ " " ^ oc (c04_record_partial (nn code) na (nn ca) a nb (nn cb) bb)
         ^ " " ^ String.concat "," (List.map show_tok (c04_record_hash (nn code) na (nn ca) a))
   | _ -> "BAD-ARITY")
let handle = function
  | "rdx" :: code :: rest -> rdx code rest
  | "reco" :: code :: rest -> reco code rest
  | ["stdlower"; x] -> string_of_int (int_of_n (c04_std_lower (nn x)))
  | "rdh" :: code :: rest ->
      let h = c04_rdh (nn code) (List.map fval_tagged rest) in String.concat "," (List.map show_tok h)
  | ["nacc"; x] -> sb (c04_accepts (b x))
  | ["nord"; x; y] -> oc (c04_name_ord (b x) (b y))
  | ["req"; x; y] -> ob (c04_relname_eq (b x) (b y))
  | ["rord"; x; y] -> oc (c04_relname_ord (b x) (b y))
  | ["rhash"; x] -> oh (c04_name_hash (b x))
  | ["ueq"; k1; w1; k2; w2] -> ob (c04_uncertain_eq (un k1 w1) (un k2 w2))
  | ["uhash"; k1; w1] -> oh (c04_uncertain_hash (un k1 w1))
  | [("psuf" | "ssuf") as w; m; p; k; y] ->
      (match (if w = "psuf" then c04_parsed_suffix else c04_parsed_suffix_split) (b m) (nn p) (nat_of_int (int_of_string k)) (b y) with
       | Ok ((((e, c), cc), lc), h) -> "Ok " ^ sb e ^ " " ^ str_cmp c ^ " " ^ str_cmp cc ^ " " ^ str_cmp lc ^ " " ^ hex_of_bytes h
       | _ -> "Panic")
  | ["pzone"; x; y] -> str_ocmp (c04_zonemd_partial (nn x) (nn y))
  | ["prrsig"; x; y] -> str_ocmp (c04_rrsig_partial (nn x) (nn y))
  | ["pnsec3"; x; y] -> str_ocmp (c04_nsec3_partial (b x) (b y))
  | ["hdr"; o1; t1; c1; l1; r1; o2; t2; c2; l2; r2] ->
      let (x, y) = (mkh o1 t1 c1 l1 r1, mkh o2 t2 c2 l2 r2) in
      sb (c04_header_eq x y) ^ " " ^ str_cmp (c04_header_cmp x y) ^ " " ^ String.concat "," (List.map show_tok (c04_header_hash x))
  | ["preq"; o1; t1; c1; l1; r1; d1; o2; t2; c2; l2; r2; d2] ->
      sb (c04_parsed_record_eq (mkh o1 t1 c1 l1 r1) (b d1) (mkh o2 t2 c2 l2 r2) (b d2))
  | ["lower"; x] -> string_of_int (int_of_n (c04_lower (nn x)))
  | ["leq"; x; y] -> sb (c04_label_eq (b x) (b y))
  | ["lcmp"; x; y] -> str_cmp (c04_label_cmp (b x) (b y))
  | ["lcomp"; x; y] -> str_cmp (c04_label_composed (b x) (b y))
  | ["llc"; x; y] -> str_cmp (c04_label_lc_composed (b x) (b y))
  | ["lhash"; x] -> hex_of_bytes (c04_label_hash (b x))
  | ["neq"; x; y] -> ob (c04_name_eq (b x) (b y))
  | ["neqi"; x; y] -> ob (c04_name_eq_iter (b x) (b y))
  | ["ncmp"; x; y] -> oc (c04_name_cmp (b x) (b y))
  | ["ccmp"; x; y] -> oc (c04_composed (b x) (b y))
  | ["ccmpi"; x; y] -> oc (c04_composed_iter (b x) (b y))
  | ["lccmp"; x; y] -> oc (c04_lc_composed (b x) (b y))
  | ["nhash"; x] -> oh (c04_name_hash (b x))
  | ["peq"; m; p; y] -> ob (c04_parsed_eq (b m) (nn p) (b y))
  | ["pcmp"; m; p; y] -> oc (c04_parsed_cmp (b m) (nn p) (b y))
  | ["phash"; m; p] -> oh (c04_parsed_hash (b m) (nn p))
  | ["cheq"; l; r; y] -> ob (c04_chain_eq (b l) (b r) (b y))
  | ["chcmp"; l; r; y] -> oc (c04_chain_cmp (b l) (b r) (b y))
  | ["chlc"; l; r; y] -> oc (c04_chain_lc (b l) (b r) (b y))
  | ["cseq"; x; y] -> sb (c04_charstr_eq (b x) (b y))
  | ["cscmp"; x; y] -> str_cmp (c04_charstr_cmp (b x) (b y))
  | ["csccmp"; x; y] -> str_cmp (c04_charstr_ccmp (b x) (b y))
  | ["cshash"; x] -> hex_of_bytes (c04_charstr_hash (b x))
  | ["nsec"; n1; t1; n2; t2] -> oc (c04_nsec_ccmp (labels_of_wire (b n1)) (b t1) (labels_of_wire (b n2)) (b t2))
  | ["rec"; o1; c1; t1; r1; d1; o2; c2; t2; r2; d2] -> str_cmp (c04_record_ccmp (crec o1 c1 t1 r1 d1) (crec o2 c2 t2 r2 d2))
  | ["svcb"; p1; t1; q1; p2; t2; q2] -> oc (c04_svcb_ccmp (nn p1) (labels_of_wire (b t1)) (b q1) (nn p2) (labels_of_wire (b t2)) (b q2))
  | ["unkeq"; r1; d1; r2; d2] -> sb (c04_unknown_eq (nn r1) (b d1) (nn r2) (b d2))
  | ["unkccmp"; r1; d1; r2; d2] -> str_cmp (c04_unknown_ccmp (nn r1) (b d1) (nn r2) (b d2))
  | ["ipsec"; p1; a1; g1; k1; p2; a2; g2; k2] ->
      oc (c04_ipseckey_ccmp (nn p1) (nn a1) (labels_of_wire (b g1)) (b k1) (nn p2) (nn a2) (labels_of_wire (b g2)) (b k2))
  | ["ipsechash"; _; _] -> (match c04_ipseckey_none_hash with Ok _ -> "Ok" | Panic _ -> "Panic" | _ -> "?")
  | ["alleq"; r1; d1; r2; d2] -> sb (c04_all_unknown_eq (nn r1) (b d1) (nn r2) (b d2))
  | ["alleqopt"; d1; d2] -> sb (c04_all_opt_eq (b d1) (b d2))
  | _ -> failwith "bad case line"
let () = main handle
