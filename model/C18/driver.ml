(* C18 driver.  Text arguments are comma separated hexadecimal code points
   (`-` = empty), octets are lowercase hex (`-` = empty).  Besides printing the
   model's observation each enc/dec case also evaluates the extracted RFC 4648
   specification (spec_enc / spec_dec) and appends SPEC-DIFFERS when the model
   and the specification disagree, so T2 exercises the specification too. *)
let text_of_arg (s : string) : n list =
  if s = "-" then [] else
  List.map (fun w -> n_of_int (int_of_string ("0x" ^ w))) (String.split_on_char ',' s)
let arg_of_text (l : n list) : string =
  if l = [] then "-" else String.concat "," (List.map (fun c -> Printf.sprintf "%x" (int_of_n c)) l)
let kind (e : n) : string =
  match int_of_n e with
  | 1 -> "TrailingInput" | 2 -> "ShortInput" | 3 -> "ShortBuf" | 4 -> "ConvIllegal"
  | k when k >= 16 -> Printf.sprintf "IllegalChar:%x" (k - 16)
  | k -> "E" ^ string_of_int k
let letter (e : n) : string =
  match int_of_n e with 1 -> "T" | 2 -> "S" | 3 -> "B" | k when k >= 16 -> "I" | _ -> "?"
let conv_kind (e : n) : string =
  match int_of_n e with 1 -> "Trailing" | 2 -> "Short" | 4 -> "Illegal" | 5 -> "BadEscape" | 6 -> "TooLong" | _ -> "Other"
let scan2_kind (e : n) : string =
  match int_of_n e with 3 -> "ShortBuf" | 7 -> "BadSymbol" | 8 -> "NonAscii" | _ -> conv_kind e
let sym_obs = function
  | SChar c -> Printf.sprintf "c%x" (int_of_n c)
  | SSimple c -> Printf.sprintf "s%x" (int_of_n c)
  | SDecimal c -> Printf.sprintf "d%x" (int_of_n c)
let join l = if l = [] then "-" else String.concat "," l
let encw f room arg =
  match f (n_of_int (int_of_string room)) (bytes_of_hex arg) with
  | Ok ((held, _), ok) -> (if ok then "Ok " else "Err ") ^ arg_of_text held
  | Err _ -> "Err?" | Panic _ -> "Panic" | OutOfFuel -> "OutOfFuel"
let nokind (_ : n) : string = ""
let str_kind (e : n) : string =
  match int_of_n e with 6 -> "TooLong" | _ -> kind e
let show_res errk f (o : 'a outcome) : string =
  match o with
  | Ok a -> "Ok " ^ f a
  | Err e -> String.trim ("Err " ^ errk e)
  | Panic _ -> "Panic"
  | OutOfFuel -> "OutOfFuel"
let enc f spec arg =
  let bs = bytes_of_hex arg in
  let r = f bs in
  let s = show_res kind arg_of_text r in
  (match r with Ok t when t = spec bs -> s | _ -> s ^ " SPEC-DIFFERS")
let dec f spec arg =
  let t = text_of_arg arg in
  let r = f t in
  let s = show_res kind hex_of_bytes r in
  (match r, spec t with
   | Ok b, Some b' when b = b' -> s
   | Err _, None -> s
   | _ -> s ^ " SPEC-DIFFERS")
let push f arg =
  let (tr, fin) = f (text_of_arg arg) in
  let t = String.concat "" (List.map (function None -> "." | Some e -> letter e) tr) in
  let t = (match fin with Panic _ -> t ^ "P" | _ -> t) in
  let t = if t = "" then "-" else t in
  t ^ " " ^ show_res kind hex_of_bytes fin
let cap_of (a : string) = Some (n_of_int (int_of_string a))
let deccap f cap arg = show_res kind hex_of_bytes (f (cap_of cap) (text_of_arg arg))
let pushcap f cap arg = push (f (cap_of cap)) arg
let conv f args = show_res conv_kind hex_of_bytes (f (List.map text_of_arg args))
let handle = function
  | ["encd64"; a] -> enc c18_enc64 c18_spec_enc64 a
  | ["encd32"; a] -> enc c18_enc32 c18_spec_enc32 a
  | ["encd16"; a] -> enc c18_enc16 c18_spec_enc16 a
  | ["enc64"; a] -> enc c18_enc64 c18_spec_enc64 a
  | ["enc32"; a] -> enc c18_enc32 c18_spec_enc32 a
  | ["enc16"; a] -> enc c18_enc16 c18_spec_enc16 a
  | ["dec64"; a] -> dec c18_dec64 c18_spec_dec64 a
  | ["dec32"; a] -> dec c18_dec32 c18_spec_dec32 a
  | ["dec16"; a] -> dec c18_dec16 c18_spec_dec16 a
  | ["decv16"; a] -> dec c18_dec16 c18_spec_dec16 a
  | ["push64"; a] -> push c18_push64 a
  | ["push32"; a] -> push c18_push32 a
  | ["push16"; a] -> push c18_push16 a
  | ["deccap64"; c; a] -> deccap c18_deccap64 c a
  | ["deccap32"; c; a] -> deccap c18_deccap32 c a
  | ["deccap16"; c; a] -> deccap c18_deccap16 c a
  | ["pushcap64"; c; a] -> pushcap c18_pushcap64 c a
  | ["pushcap32"; c; a] -> pushcap c18_pushcap32 c a
  | ["pushcap16"; c; a] -> pushcap c18_pushcap16 c a
  | ["tok64"; a] -> show_res conv_kind hex_of_bytes (c18_tok64 (text_of_arg a))
  | ["tok32"; a] -> show_res conv_kind hex_of_bytes (c18_tok32 (text_of_arg a))
  | ["tok16"; a] -> show_res conv_kind hex_of_bytes (c18_tok16 (text_of_arg a))
  | "ent64" :: l -> conv c18_ent64 l
  | "ent32" :: l -> conv c18_ent32 l
  | "ent16" :: l -> conv c18_ent16 l
  | ["saltstr"; a] -> show_res str_kind hex_of_bytes (c18_saltstr (text_of_arg a))
  | ["saltscan"; a] -> show_res conv_kind hex_of_bytes (c18_saltscan (text_of_arg a))
  | ["saltdisp"; a] -> let b = bytes_of_hex a in
      if List.length b > 255 then "Err TooLong" else show_res kind arg_of_text (c18_saltdisp b)
  | ["hashstr"; a] -> show_res str_kind hex_of_bytes (c18_hashstr (text_of_arg a))
  | ["hashscan"; a] -> show_res conv_kind hex_of_bytes (c18_hashscan (text_of_arg a))
  | ["hashdisp"; a] -> let b = bytes_of_hex a in
      if List.length b > 255 then "Err TooLong" else show_res kind arg_of_text (c18_hashdisp b)
  | ["encw64"; r; a] -> encw c18_encw64 r a
  | ["encw16"; r; a] -> encw c18_encw16 r a
  | ["encw32"; r; a] -> encw c18_encw32 r a
  | ["soct"; a] -> show_res scan2_kind hex_of_bytes (c18_soct (text_of_arg a))
  | ["scstr"; a] -> show_res scan2_kind hex_of_bytes (c18_scstr (text_of_arg a))
  | ["sstr"; a] -> show_res scan2_kind hex_of_bytes (c18_sstr (text_of_arg a))
  | ["sascii"; a] -> show_res scan2_kind hex_of_bytes (c18_sascii (text_of_arg a))
  | ["ssym"; a] -> show_res scan2_kind (fun l -> join (List.map sym_obs l)) (c18_ssym (text_of_arg a))
  | ["smark"; a] -> "Ok " ^ string_of_bool (c18_smark (text_of_arg a))
  | "scent" :: l -> show_res scan2_kind hex_of_bytes (c18_scent (List.map text_of_arg l))
  | "sesym" :: l -> show_res scan2_kind (fun l -> join (List.map (function Some y -> sym_obs y | None -> "E") l)) (c18_sesym (List.map text_of_arg l))
  | ["encf64"; a] -> enc c18_enc64 c18_spec_enc64 a
  | ["encf32"; a] -> enc c18_enc32 c18_spec_enc32 a
  | ["encf16"; a] -> enc c18_enc16 c18_spec_enc16 a
  | ["serj64"; a] -> show_res nokind arg_of_text (c18_enc64 (bytes_of_hex a))
  | ["serj32"; a] -> show_res nokind arg_of_text (c18_enc32 (bytes_of_hex a))
  | ["serj16"; a] -> show_res nokind arg_of_text (c18_enc16 (bytes_of_hex a))
  | ["serjd64"; a] -> show_res nokind hex_of_bytes (c18_dec64 (text_of_arg a))
  | ["serjd32"; a] -> show_res nokind hex_of_bytes (c18_dec32 (text_of_arg a))
  | ["serjd16"; a] -> show_res nokind hex_of_bytes (c18_dec16 (text_of_arg a))
  | [("serc64" | "serc32" | "serc16" | "sercd64" | "sercd32" | "sercd16" | "saltc" | "hashc"); a] ->
      show_res nokind hex_of_bytes (c18_serc (bytes_of_hex a))
  | ["saltcd"; a] -> show_res nokind hex_of_bytes (c18_saltcd (bytes_of_hex a))
  | ["hashcd"; a] -> show_res nokind hex_of_bytes (c18_hashcd (bytes_of_hex a))
  | ["saltj"; a] -> show_res nokind arg_of_text (c18_saltdisp (bytes_of_hex a))
  | ["hashj"; a] -> show_res nokind arg_of_text (c18_hashdisp (bytes_of_hex a))
  | ["saltjd"; a] -> show_res nokind hex_of_bytes (c18_saltstr (text_of_arg a))
  | ["hashjd"; a] -> show_res nokind hex_of_bytes (c18_hashstr (text_of_arg a))
  | ["sname"; a] -> show_res nokind hex_of_bytes (c18_sname (text_of_arg a))
  | "conv64" :: l -> conv c18_conv64 l
  | "conv32" :: l -> conv c18_conv32 l
  | "conv16" :: l -> conv c18_conv16 l
  | _ -> failwith "bad case line"
let () = main handle
