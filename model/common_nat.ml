let rec nat_of_int (i : int) : nat = if i <= 0 then O else S (nat_of_int (i - 1))
let rec int_of_nat (x : nat) : int = match x with O -> 0 | S y -> 1 + int_of_nat y
