let handle = function
  | ["cmp"; a; b] -> show_outcome str_ocmp (c17_cmp (n_of_int (int_of_string a)) (n_of_int (int_of_string b)))
  | ["ccmp"; a; b] -> str_cmp (c17_ccmp (n_of_int (int_of_string a)) (n_of_int (int_of_string b)))
  | ["add"; a; b] -> show_outcome (fun x -> string_of_int (int_of_n x)) (c17_add (n_of_int (int_of_string a)) (n_of_int (int_of_string b)))
  | ["next"; a] -> show_outcome (fun x -> string_of_int (int_of_n x)) (c17_next (n_of_int (int_of_string a)))
  | ["sigtime"; n; i; e] -> string_of_bool (c17_sigtime (n_of_int (int_of_string n)) (n_of_int (int_of_string i)) (n_of_int (int_of_string e)))
  | ["uptodate"; q; z] -> string_of_bool (c17_uptodate (n_of_int (int_of_string q)) (n_of_int (int_of_string z)))
  | ["diffrange"; a; b] -> string_of_bool (c17_diffrange (n_of_int (int_of_string a)) (n_of_int (int_of_string b)))
  | ["date"; y; mo; d; h; mi; se] -> string_of_int (int_of_n (c17_date (n_of_int (int_of_string y)) (n_of_int (int_of_string mo)) (n_of_int (int_of_string d)) (n_of_int (int_of_string h)) (n_of_int (int_of_string mi)) (n_of_int (int_of_string se))))
  | ["fromtime"; sg; m] -> string_of_int (int_of_n (c17_fromtime (sg = "-") (n_of_int (int_of_string m))))
  | ["commit"; o; w; z] -> show_outcome (fun x -> string_of_int (int_of_n x)) (c17_commit (n_of_int (int_of_string o)) (w = "1") (n_of_int (int_of_string z)))
  | _ -> failwith "bad case line"
let () = main handle
