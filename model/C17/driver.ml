let handle = function
  | ["cmp"; a; b] -> show_outcome str_ocmp (c17_cmp (n_of_int (int_of_string a)) (n_of_int (int_of_string b)))
  | ["ccmp"; a; b] -> str_cmp (c17_ccmp (n_of_int (int_of_string a)) (n_of_int (int_of_string b)))
  | ["add"; a; b] -> show_outcome (fun x -> string_of_int (int_of_n x)) (c17_add (n_of_int (int_of_string a)) (n_of_int (int_of_string b)))
  | ["next"; a] -> show_outcome (fun x -> string_of_int (int_of_n x)) (c17_next (n_of_int (int_of_string a)))
  | _ -> failwith "bad case line"
let () = main handle
