(* C09 driver.  Case lines:
     cell p:<v>,<v>,.. <op>..       op = u:<v>:<x> | r:<v> | b:<v>
     zt <init>.. ; <event>..        init = i:<n>:<t>:<rr> | ic:<n>:<id>
   see harness/src/bin/c09.rs for the event words. *)
let ni s = n_of_int (int_of_string s)
let si x = string_of_int (int_of_n x)
let split c s = String.split_on_char c s
let opt f = function Some x -> f x | None -> "-"
(* names: "0" is the apex, otherwise label numbers from the apex downwards joined by '.' *)
let path s = if s = "0" then [] else List.map ni (split '.' s)
let show_path = function [] -> "0" | p -> String.concat "." (List.map si p)
let nopt s = if s = "-" then None else Some (ni s)

let show_entries (d : (n * n option) list) =
  (* model lists are newest first; print in Vec order *)
  match List.rev d with
  | [] -> "."
  | l -> String.concat "," (List.map (fun (v, x) -> si v ^ ":" ^ opt si x) l)

let cell_case probes ops =
  let probes = List.map ni (split ',' probes) in
  let ops = List.map (fun w -> match split ':' w with
    | ["u"; v; x] -> CUpd (ni v, ni x)
    | ["r"; v] -> CRem (ni v)
    | ["b"; v] -> CRb (ni v)
    | _ -> failwith "bad cell op") ops in
  let res = c09_cell ops probes in
  String.concat " | " (List.map (fun (d, gs) ->
    show_entries d ^ "/" ^ String.concat "," (List.map (opt si) gs)) res)

let show_answer = function
  | ANx soa -> "X(" ^ opt si soa ^ ")"
  | ANoData soa -> "N(" ^ opt si soa ^ ")"
  | AData rr -> "D" ^ si rr
  | AAny -> "Y"
  | ACname id -> "C" ^ si id
  | ARefer (ns, ds, glue) -> "R" ^ si ns ^ "(" ^ opt si ds ^ ")(" ^ opt si glue ^ ")"

let show_obs = function
  | OAnswer a -> show_answer a
  | OWalk l ->
      let l = List.map (fun ((a, b), c) -> (show_path a, int_of_n b, int_of_n c)) l in
      let l = List.sort compare l in
      "W[" ^ String.concat "," (List.map (fun (a, b, c) -> Printf.sprintf "%s/%d/%d" a b c) l) ^ "]"
  | ONoReader -> "noreader"
  | OGranted -> "granted"
  | OPending -> "pending"
  | OStaleDone -> "sdone"
  | OStaleRejected -> "srej"
  | OStaleNoHandle -> "snone"
  | ODump vs ->
      let l = List.sort compare (List.map int_of_n vs) in
      "V[" ^ String.concat "," (List.map string_of_int l) ^ "]"

let rec split_at_semi acc = function
  | [] -> (List.rev acc, [])
  | ";" :: tl -> (List.rev acc, tl)
  | x :: tl -> split_at_semi (x :: acc) tl

let trace_case ws =
  let (is, evs) = split_at_semi [] ws in
  let is = List.map (fun w -> match split ':' w with
    | ["i"; n; t; rr] -> IRrset (path n, ni t, ni rr)
    | ["ic"; n; id] -> ICname (path n, ni id)
    | ["iz"; n; ns; ds; glue] -> ICut (path n, ni ns, nopt ds, nopt glue)
    | _ -> failwith "bad init") is in
  let rec ev = function
    | ["A"; r] -> EAcquire (ni r)
    | ["Q"; r; n; t] -> EQuery (ni r, path n, ni t)
    | ["W"; r] -> EWalk (ni r)
    | ["R"; r] -> ERelease (ni r)
    | ["wa"] -> EWAcquire
    | ["wo"] -> EWOpen
    | ["u"; n; t; rr] -> EUpdate (path n, ni t, ni rr)
    | ["r"; n; t] -> ERemove (path n, ni t)
    | ["t"; n] -> ETouch (path n)
    | ["ra"] -> ERemoveAll
    | ["rn"; n] -> ERemoveAllAt (path n)
    | ["cn"; n; id] -> ECname (path n, ni id)
    | ["ct"; n; ns; ds; glue] -> ECut (path n, ni ns, nopt ds, nopt glue)
    | ["rg"; n] -> ERegular (path n)
    | ["c"] -> ECommit
    | ["cb"] -> ECommitBump
    | ["dump"] -> EDump
    | ["d"] -> EDrop
    | "s" :: rest -> EStale (ev rest)
    | _ -> failwith "bad event" in
  let evs = List.map (fun w -> ev (split ':' w)) evs in
  match c09_trace is evs with
  | [] -> "-"
  | l -> String.concat " " (List.map show_obs l)

let versions_case ws =
  let ops = List.map (fun w -> match split ':' w with
    | ["c"] -> VCommit
    | ["a"; s] -> VAcquire (ni s)
    | ["r"; s] -> VRelease (ni s)
    | ["k"] -> VClean
    | _ -> failwith "bad versions op") ws in
  String.concat " | " (List.map (fun (all, res) ->
    (match all with [] -> "." | l -> String.concat "," (List.map si l)) ^
    (match res with None -> "" | Some r -> "=>" ^ opt si r)) (c09_versions ops))

let handle = function
  | "zv" :: ws -> versions_case ws
  | "cell" :: probes :: ops when String.length probes > 2 && String.sub probes 0 2 = "p:" ->
      cell_case (String.sub probes 2 (String.length probes - 2)) ops
  | "zt" :: ws -> trace_case ws
  | _ -> failwith "bad case line"
let () = main handle
