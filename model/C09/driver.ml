(* C09 driver.  Case lines:
     cell p:<v>,<v>,.. <op>..       op = u:<v>:<x> | r:<v> | b:<v>
     zt <init>.. ; <event>..        init = i:<n>:<t>:<rr> | ic:<n>:<id>
   see harness/src/bin/c09.rs for the event words. *)
let ni s = n_of_int (int_of_string s)
let si x = string_of_int (int_of_n x)
let split c s = String.split_on_char c s
let opt f = function Some x -> f x | None -> "-"
(* names: "0" is the apex, otherwise label numbers from the apex downwards joined by '.' *)
let path s = if s = "0" then [] else List.map ni (split '.' s)
let show_path = function [] -> "0" | p -> String.concat "." (List.map si p)
let nopt s = if s = "-" then None else Some (ni s)
(* RRset number n of type t, the convention of harness/src/bin/c09.rs (mk_rrset):
   0 is the empty RRset; an SOA / CNAME RRset is one record n with TTL 3600; any other
   RRset has the records 4n .. 4n + n mod 3 and the TTL 3600 + n mod 7 *)
let rr_of (t : int) (n : int) : n * n list =
  if n = 0 then (n_of_int 3600, [])
  else if t = 6 || t = 5 then (n_of_int 3600, [n_of_int n])
  else (n_of_int (3600 + n mod 7), List.init (1 + n mod 3) (fun j -> n_of_int (4 * n + j)))
let rr_opt t s = if s = "-" then None else Some (rr_of t (int_of_string s))
let show_rr ((ttl, recs) : n * n list) =
  si ttl ^ "[" ^ String.concat "," (List.map string_of_int (List.sort compare (List.map int_of_n recs))) ^ "]"
let show_soa = function Some (ttl, ser) -> si ttl ^ ":" ^ si ser | None -> "-"

let show_entries (d : (n * n option) list) =
  (* model lists are newest first; print in Vec order *)
  match List.rev d with
  | [] -> "."
  | l -> String.concat "," (List.map (fun (v, x) -> si v ^ ":" ^ opt si x) l)

let cell_case probes ops =
  let probes = List.map ni (split ',' probes) in
  let ops = List.map (fun w -> match split ':' w with
    | ["u"; v; x] -> CUpd (ni v, ni x)
    | ["r"; v] -> CRem (ni v)
    | ["b"; v] -> CRb (ni v)
    | _ -> failwith "bad cell op") ops in
  let res = c09_cell ops probes in
  String.concat " | " (List.map (fun (d, gs) ->
    show_entries d ^ "/" ^ String.concat "," (List.map (opt si) gs)) res)

let show_answer = function
  | ANx soa -> "X(" ^ show_soa soa ^ ")"
  | ANoData soa -> "N(" ^ show_soa soa ^ ")"
  | AData rr -> "D" ^ show_rr rr
  | AAny -> "Y"
  | ACname c -> "C" ^ show_rr c
  | ARefer (ns, ds, glue) -> "R" ^ show_rr ns ^ "(" ^ opt show_rr ds ^ ")(" ^ opt show_rr glue ^ ")"

let show_obs = function
  | OAnswer a -> show_answer a
  | OWalk l ->
      let l = List.map (fun ((a, b), c) -> (show_path a, int_of_n b, show_rr c)) l in
      let l = List.sort compare l in
      "W[" ^ String.concat " " (List.map (fun (a, b, c) -> Printf.sprintf "%s/%d/%s" a b c) l) ^ "]"
  | ONoReader -> "noreader"
  | OGranted -> "granted"
  | OPending -> "pending"
  | OStaleDone -> "sdone"
  | OStaleRejected -> "srej"
  | OStaleNoHandle -> "snone"
  | ODump vs ->
      let l = List.sort compare (List.map int_of_n vs) in
      "V[" ^ String.concat "," (List.map string_of_int l) ^ "]"

let rec split_at_semi acc = function
  | [] -> (List.rev acc, [])
  | ";" :: tl -> (List.rev acc, tl)
  | x :: tl -> split_at_semi (x :: acc) tl

let trace_case ws =
  let (is, evs) = split_at_semi [] ws in
  let is = List.map (fun w -> match split ':' w with
    | ["i"; n; t; rr] -> IRrset (path n, ni t, rr_of (int_of_string t) (int_of_string rr))
    | ["ic"; n; id] -> ICname (path n, rr_of 5 (int_of_string id))
    | ["iz"; n; ns; ds; glue] -> ICut (path n, rr_of 2 (int_of_string ns), rr_opt 43 ds, rr_opt 1 glue)
    | _ -> failwith "bad init") is in
  let rec ev = function
    | ["A"; r] -> EAcquire (ni r)
    | ["Q"; r; n; t] -> EQuery (ni r, path n, ni t)
    | ["W"; r] -> EWalk (ni r)
    | ["R"; r] -> ERelease (ni r)
    | ["wa"] -> EWAcquire
    | ["wo"] -> EWOpen
    | ["u"; n; t; rr] -> EUpdate (path n, ni t, rr_of (int_of_string t) (int_of_string rr))
    | ["r"; n; t] -> ERemove (path n, ni t)
    | ["t"; n] -> ETouch (path n)
    | ["ra"] -> ERemoveAll
    | ["rn"; n] -> ERemoveAllAt (path n)
    | ["cn"; n; id] -> ECname (path n, rr_of 5 (int_of_string id))
    | ["ct"; n; ns; ds; glue] -> ECut (path n, rr_of 2 (int_of_string ns), rr_opt 43 ds, rr_opt 1 glue)
    | ["rg"; n] -> ERegular (path n)
    | ["c"] -> ECommit
    | ["cb"] -> ECommitBump
    | ["dump"] -> EDump
    | ["d"] -> EDrop
    | "s" :: rest -> EStale (ev rest)
    | _ -> failwith "bad event" in
  let evs = List.map (fun w -> ev (split ':' w)) evs in
  match c09_trace is evs with
  | [] -> "-"
  | l -> String.concat " " (List.map show_obs l)

let versions_case ws =
  let ops = List.map (fun w -> match split ':' w with
    | ["c"] -> VCommit
    | ["a"; s] -> VAcquire (ni s)
    | ["r"; s] -> VRelease (ni s)
    | ["k"] -> VClean
    | _ -> failwith "bad versions op") ws in
  String.concat " | " (List.map (fun (all, res) ->
    (match all with [] -> "." | l -> String.concat "," (List.map si l)) ^
    (match res with None -> "" | Some r -> "=>" ^ opt si r)) (c09_versions ops))

let handle = function
  | "zv" :: ws -> versions_case ws
  | "cell" :: probes :: ops when String.length probes > 2 && String.sub probes 0 2 = "p:" ->
      cell_case (String.sub probes 2 (String.length probes - 2)) ops
  | "zt" :: ws -> trace_case ws
  | _ -> failwith "bad case line"
let () = main handle
