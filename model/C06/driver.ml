(* C06 correspondence driver *)
let hx (l : n list) : string = hex_of_bytes l
let show_o (f : 'a -> string) (o : 'a outcome) : string =
  match o with Ok a -> "Ok " ^ f a | Err _ -> "Err" | Panic _ -> "Panic" | OutOfFuel -> "OutOfFuel"
let rec labels_of_wire (w : n list) : n list list =
  match w with
  | [] -> []
  | l :: r ->
    let k = int_of_n l in
    if k = 0 then [] else
    let rec take i acc r = if i = 0 then (List.rev acc, r) else (match r with x :: r' -> take (i-1) (x :: acc) r' | [] -> failwith "bad wire") in
    let (lab, rest) = take k [] r in
    lab :: labels_of_wire rest
let wire_of_labels (n : n list list) : n list =
  List.concat (List.map (fun l -> n_of_int (List.length l) :: l) n) @ [n_of_int 0]
let txt (s : string) : n list = List.init (String.length s) (fun i -> n_of_int (Char.code s.[i]))
let op_of (w : string) : op =
  match w.[0] with
  | 'B' -> OBegin
  | 'E' -> OEnd
  | 'T' -> OTok (bytes_of_hex (String.sub w 1 (String.length w - 1)))
  | 'C' -> OComment (bytes_of_hex (String.sub w 1 (String.length w - 1)))
  | _ -> failwith "bad op"
let kind_n (k : string) : n = n_of_int (match k with "s" -> 0 | "t" -> 1 | _ -> 2)
(* SVCB parameter <-> wire value *)
let rec u16s = function a :: b :: r -> n_of_int (int_of_n a * 256 + int_of_n b) :: u16s r | _ -> []
let rec chunks k l = if l = [] then [] else
  let rec take i acc r = if i = 0 then (List.rev acc, r) else (match r with x :: r' -> take (i-1) (x :: acc) r' | [] -> (List.rev acc, [])) in
  let (c, r) = take k [] l in c :: chunks k r
let rec alpn_ids = function [] -> [] | l :: r ->
  let rec take i acc r = if i = 0 then (List.rev acc, r) else (match r with x :: r' -> take (i-1) (x :: acc) r' | [] -> (List.rev acc, [])) in
  let (c, r') = take (int_of_n l) [] r in c :: alpn_ids r'
let param_of_wire (k : int) (v : n list) : svcparam =
  match k with
  | 0 -> PMandatory (u16s v) | 1 -> PAlpn (alpn_ids v) | 2 -> PNoDefaultAlpn | 3 -> PPort (List.hd (u16s v))
  | 4 -> PIp4hint (chunks 4 v) | 5 -> PEch v | 6 -> PIp6hint (List.map u16s (chunks 16 v)) | 7 -> PDohpath v
  | 8 -> POhttp | 9 -> PGroups (u16s v) | _ -> PUnknown (n_of_int k, v)
let be16 (x : n) = [n_of_int (int_of_n x / 256); n_of_int (int_of_n x mod 256)]
let wire_of_param (p : svcparam) : int * n list =
  match p with
  | PMandatory ks -> (0, List.concat (List.map be16 ks))
  | PAlpn ids -> (1, List.concat (List.map (fun i -> n_of_int (List.length i) :: i) ids))
  | PNoDefaultAlpn -> (2, []) | PPort x -> (3, be16 x) | PIp4hint l -> (4, List.concat l) | PEch b -> (5, b)
  | PIp6hint l -> (6, List.concat (List.map (fun g -> List.concat (List.map be16 g)) l)) | PDohpath b -> (7, b)
  | POhttp -> (8, []) | PGroups l -> (9, List.concat (List.map be16 l)) | PUnknown (k, b) -> (int_of_n k, b)
let handle = function
  | ["n3len"; w; h] -> show_o (fun x -> string_of_int (int_of_n x)) (c06_n3len (n_of_int (int_of_string w)) (bytes_of_hex h))
  | ["svcshow"; k; h] -> hx (c06_svcshow (param_of_wire (int_of_string k) (bytes_of_hex h)))
  | ["svcread"; h] -> show_o (fun p -> let (k, v) = wire_of_param p in string_of_int k ^ " " ^ hx v) (c06_svcread (bytes_of_hex h))
  | ["label"; h] -> hx (c06_show_label (bytes_of_hex h))
  | ["cstr"; m; h] -> hx (c06_show_cstr (n_of_int (match m with "q" -> 0 | "u" -> 1 | _ -> 2)) (bytes_of_hex h))
  | ["rdname"; w] ->
    let t = c06_show_name (labels_of_wire (bytes_of_hex w)) in
    hx t ^ " " ^ show_o (fun n -> hx (wire_of_labels n)) (c06_rdname (txt ". 0 IN NS " @ t @ [n_of_int 10]))
  | ["owner"; w] ->
    let t = c06_show_name (labels_of_wire (bytes_of_hex w)) in
    hx t ^ " " ^ show_o (fun n -> hx (wire_of_labels n)) (c06_owner (t @ txt " 0 IN NS .\n"))
  | "wr" :: k :: ops ->
    (match c06_render (kind_n k) (List.map op_of ops) with Ok t -> hx t | Err _ -> "Err" | Panic _ -> "Panic" | OutOfFuel -> "OutOfFuel")
  | ["txt"; h] ->
    show_o (fun l -> String.concat "," (List.map hx l)) (c06_txt (txt ". 0 IN TXT x" @ bytes_of_hex h @ [n_of_int 10]))
  | ["hinfo"; q; h] -> show_o hx (c06_hinfo (n_of_int 0) (q = "q") (bytes_of_hex h))
  | ["txt1"; q; h] -> show_o hx (c06_hinfo (n_of_int 1) (q = "q") (bytes_of_hex h))
  | ["uint"; w; h] -> show_o (fun x -> string_of_int (int_of_n x)) (c06_uint (n_of_int (int_of_string w)) (bytes_of_hex h))
  | ["ts"; h] -> show_o (fun x -> string_of_int (int_of_n x)) (c06_ts (bytes_of_hex h))
  | ["ip6show"; h] -> let b = bytes_of_hex h in
    let rec grp = function a :: b :: r -> n_of_int (int_of_n a * 256 + int_of_n b) :: grp r | _ -> [] in
    hx (c06_ip6show (grp b))
  | ["ip6read"; h] -> show_o (fun g -> String.concat "" (List.map (fun x -> Printf.sprintf "%04x" (int_of_n x)) g)) (c06_ip6read (bytes_of_hex h))
  | ["nstext"; h] -> show_o (fun n -> hx (wire_of_labels n)) (c06_nstext (bytes_of_hex h))
  | "rec" :: k :: code :: cl :: ttl :: ow :: fs ->
    let fld (w : string) : fval =
      let a = String.sub w 1 (String.length w - 1) in
      match w.[0] with
      | 'u' -> VUint (n_of_int (int_of_string a))
      | 'n' -> VName (labels_of_wire (bytes_of_hex a))
      | 'q' -> VCharstr (bytes_of_hex a)
      | 'w' -> VWord (bytes_of_hex a)
      | 'r' -> VRest (bytes_of_hex a)
      | 'x' -> (match b16_display (bytes_of_hex a) with Ok t -> VRest t | _ -> failwith "b16")
      | 'y' -> (match b64_display (bytes_of_hex a) with Ok t -> VRest t | _ -> failwith "b64")
      | 't' -> VTypes (if a = "" then [] else List.map (fun x -> n_of_int (int_of_string x)) (String.split_on_char ',' a))
      | 'm' -> VRtype (n_of_int (int_of_string a))
      | 's' -> (match b16_display (bytes_of_hex a) with Ok t -> VSalt t | _ -> failwith "b16")
      | 'z' -> VB32 (bytes_of_hex a)
      | 'o' -> VQuoted (bytes_of_hex a)
      | 'i' -> VIp4 (bytes_of_hex a)
      | 'd' -> VDot
      | 'j' -> let rec grp = function x :: y :: r -> n_of_int (int_of_n x * 256 + int_of_n y) :: grp r | _ -> [] in VWord (c06_ip6show (grp (bytes_of_hex a)))
      | 'l' -> VCharstrs (if a = "" then [] else List.map bytes_of_hex (String.split_on_char ',' a))
      | _ -> failwith "bad field" in
    let vs = List.map fld fs in
    let owner = labels_of_wire (bytes_of_hex ow) in
    let n s = n_of_int (int_of_string s) in
    (match c06_rec (kind_n k) (n code) owner (n ttl) (n cl) vs with
     | Ok (t, rb) -> hx t ^ " " ^ (if rb = Ok ((((owner, n ttl), n cl), n code), vs) then "Ok" else "Err")
     | Err _ -> "SCHEMA-MISMATCH" | Panic _ -> "Panic" | OutOfFuel -> "OutOfFuel")
  | _ -> failwith "bad case line"
let () = main handle
