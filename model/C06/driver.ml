(* C06 correspondence driver *)
let hx (l : n list) : string = hex_of_bytes l
let show_o (f : 'a -> string) (o : 'a outcome) : string =
  match o with Ok a -> "Ok " ^ f a | Err _ -> "Err" | Panic _ -> "Panic" | OutOfFuel -> "OutOfFuel"
let rec labels_of_wire (w : n list) : n list list =
  match w with
  | [] -> []
  | l :: r ->
    let k = int_of_n l in
    if k = 0 then [] else
    let rec take i acc r = if i = 0 then (List.rev acc, r) else (match r with x :: r' -> take (i-1) (x :: acc) r' | [] -> failwith "bad wire") in
    let (lab, rest) = take k [] r in
    lab :: labels_of_wire rest
let wire_of_labels (n : n list list) : n list =
  List.concat (List.map (fun l -> n_of_int (List.length l) :: l) n) @ [n_of_int 0]
let txt (s : string) : n list = List.init (String.length s) (fun i -> n_of_int (Char.code s.[i]))
let op_of (w : string) : op =
  match w.[0] with
  | 'B' -> OBegin
  | 'E' -> OEnd
  | 'T' -> OTok (bytes_of_hex (String.sub w 1 (String.length w - 1)))
  | 'C' -> OComment (bytes_of_hex (String.sub w 1 (String.length w - 1)))
  | _ -> failwith "bad op"
let kind_n (k : string) : n = n_of_int (match k with "s" -> 0 | "t" -> 1 | _ -> 2)
let handle = function
  | ["label"; h] -> hx (c06_show_label (bytes_of_hex h))
  | ["cstr"; m; h] -> hx (c06_show_cstr (n_of_int (match m with "q" -> 0 | "u" -> 1 | _ -> 2)) (bytes_of_hex h))
  | ["rdname"; w] ->
    let t = c06_show_name (labels_of_wire (bytes_of_hex w)) in
    hx t ^ " " ^ show_o (fun n -> hx (wire_of_labels n)) (c06_rdname (txt ". 0 IN NS " @ t @ [n_of_int 10]))
  | ["owner"; w] ->
    let t = c06_show_name (labels_of_wire (bytes_of_hex w)) in
    hx t ^ " " ^ show_o (fun n -> hx (wire_of_labels n)) (c06_owner (t @ txt " 0 IN NS .\n"))
  | "wr" :: k :: ops ->
    (match c06_render (kind_n k) (List.map op_of ops) with Ok t -> hx t | Err _ -> "Err" | Panic _ -> "Panic" | OutOfFuel -> "OutOfFuel")
  | ["txt"; h] ->
    show_o (fun l -> String.concat "," (List.map hx l)) (c06_txt (txt ". 0 IN TXT x" @ bytes_of_hex h @ [n_of_int 10]))
  | _ -> failwith "bad case line"
let () = main handle
