(* C13 driver.  Case syntax (names are the hex of the uncompressed absolute
   wire form, `00` is the root):
     bm <t,t,..|-> <p,p,..|->                    => <bitmap hex> <one of 1 0 P per probe>
     nsec <apex> <dnskey 0|1> <name>/<rtype> ..  => Ok <owner>/<next>/<bitmap> .. | Err n | Panic
     nsec3 <apex> <dnskey> <alg> <flags> <iters> <salt> <excl 0|1> <name>/<rtype> ..
                                                 => Ok <hash>/<next>/<bitmap> .. | Err n | Panic
     hash <name> <iters> <salt>                  => <hash hex>
     dedup <name>/<rtype>/<u|k>/<rdata> ..       => <name>/<rtype> .. *)
let rec labels_of_wire (b : n list) : n list list =
  match b with
  | [] -> failwith "name: no root label"
  | h :: t ->
      let k = int_of_n h in
      if k = 0 then (if t = [] then [] else failwith "name: trailing octets")
      else begin
        let rec split i acc l =
          if i = 0 then (List.rev acc, l)
          else match l with [] -> failwith "name: short" | x :: r -> split (i - 1) (x :: acc) r in
        let (lab, rest) = split k [] t in
        lab :: labels_of_wire rest
      end
let name_of_hex s = labels_of_wire (bytes_of_hex s)
let hex_of_name (nm : n list list) : string =
  String.concat "" (List.map (fun l -> Printf.sprintf "%02x" (List.length l) ^
     String.concat "" (List.map (fun b -> Printf.sprintf "%02x" (int_of_n b)) l)) nm) ^ "00"
let nlist s = if s = "-" then [] else List.map (fun x -> n_of_int (int_of_string x)) (String.split_on_char ',' s)
let rec_of s =
  match String.split_on_char '/' s with
  | [nm; t] -> (name_of_hex nm, n_of_int (int_of_string t))
  | _ -> failwith "bad record"
let flag s = (s = "1")
let show_list f l = if l = [] then "-" else String.concat " " (List.map f l)
let handle = function
  | ["bm"; ts; ps] ->
      let (w, rs) = c13_bitmap (nlist ts) (nlist ps) in
      hex_of_bytes w ^ " " ^
      (if rs = [] then "-" else String.concat "" (List.map (fun r ->
         match r with Ok true -> "1" | Ok false -> "0" | _ -> "P") rs))
  | "nsec" :: apex :: dk :: recs ->
      show_outcome (show_list (fun r ->
          hex_of_name r.n_owner ^ "/" ^ hex_of_name r.n_next ^ "/" ^ hex_of_bytes r.n_types))
        (c13_nsec (name_of_hex apex) (flag dk) (List.map rec_of recs))
  | "nsec3" :: apex :: dk :: alg :: flags :: iters :: salt :: excl :: recs ->
      let c = { c_dnskey = flag dk; c_alg = n_of_int (int_of_string alg);
                c_flags = n_of_int (int_of_string flags); c_iters = n_of_int (int_of_string iters);
                c_salt = bytes_of_hex salt; c_excl = flag excl } in
      show_outcome (show_list (fun r ->
          hex_of_bytes r.h_owner ^ "/" ^ hex_of_bytes r.h_next ^ "/" ^ hex_of_bytes r.h_types))
        (c13_nsec3 (name_of_hex apex) c (List.map rec_of recs))
  | ["hash"; nm; iters; salt] ->
      hex_of_bytes (c13_hash (name_of_hex nm) (n_of_int (int_of_string iters)) (bytes_of_hex salt))
  | "dedup" :: recs ->
      let srec_of s = match String.split_on_char '/' s with
        | [nm; t; k; d] -> ((name_of_hex nm, n_of_int (int_of_string t)), (k = "u", bytes_of_hex d))
        | _ -> failwith "bad srec" in
      show_list (fun (nm, t) -> hex_of_name nm ^ "/" ^ string_of_int (int_of_n t))
        (c13_dedup (List.map srec_of recs))
  | _ -> failwith "bad case line"
let () = main handle
