(* C13 driver.  Case syntax (names are the hex of the uncompressed absolute
   wire form, `00` is the root):
     bm <t,t,..|-> <p,p,..|-> [<ctor>]  (ctor: which constructor made the builder; all start empty)
     bm <t,t,..|-> <p,p,..|->                    => <bitmap hex> <one of 1 0 P per probe> <iterated types>
     nsec <apex> <dnskey 0|1> <name>/<rtype>/<class>/<ttl>/<soa minimum> ..
                                                 => Ok <owner>/<next>/<bitmap>/<ttl>/<class> .. | Err n | Panic
     nsec3 <apex> <dnskey> <alg> <flags> <iters> <salt> <excl 0|1> <s|m|f<ttl>> <name>/<rtype>/<class>/<ttl>/<min> ..
                                                 => Ok <alg>/<flags>/<iters>/<salt> <param owner>/<class>/<ttl>/<alg>/<flags>/<iters>/<salt> <class> <hash>/<next>/<bitmap>/<ttl> .. | Err n | Panic
     hash <name> <iters> <salt> [<repr>]         => <hash hex>   (repr: how the harness held the name; the model does not care)
     dedup <name>/<rtype>/<u|k>/<rdata> ..       => <name>/<rtype> ..
     srt <class>/<name>/<rtype>/<u|k>/<rdata> .. => <class>/<name>/<rtype>/<rdata> ..   (sort + dedup)
     label <hash> <apex>                         => Ok <owner name> <decoded first label>
     sro (V|E|I <name>/<rtype>/<u|k>/<rdata> ..) ..   => <name>/<rtype>/<rdata> ..   (a sequence of From<Vec> / extend / insert)
     parse <octets>                              => Ok | Err 10 (short) | Err 11 (bad bitmap)   (RtypeBitmap::from_octets) *)
let rec labels_of_wire (b : n list) : n list list =
  match b with
  | [] -> failwith "name: no root label"
  | h :: t ->
      let k = int_of_n h in
      if k = 0 then (if t = [] then [] else failwith "name: trailing octets")
      else begin
        let rec split i acc l =
          if i = 0 then (List.rev acc, l)
          else match l with [] -> failwith "name: short" | x :: r -> split (i - 1) (x :: acc) r in
        let (lab, rest) = split k [] t in
        lab :: labels_of_wire rest
      end
let name_of_hex s = labels_of_wire (bytes_of_hex s)
let hex_of_name (nm : n list list) : string =
  String.concat "" (List.map (fun l -> Printf.sprintf "%02x" (List.length l) ^
     String.concat "" (List.map (fun b -> Printf.sprintf "%02x" (int_of_n b)) l)) nm) ^ "00"
let nlist s = if s = "-" then [] else List.map (fun x -> n_of_int (int_of_string x)) (String.split_on_char ',' s)
let rec_of s =
  match String.split_on_char '/' s with
  | [nm; t] -> (name_of_hex nm, n_of_int (int_of_string t))
  | _ -> failwith "bad record"
let trec_of s = match String.split_on_char '/' s with
  | [nm; t; c; ttl; mn] -> { t_name = name_of_hex nm; t_type = n_of_int (int_of_string t);
                             t_class = n_of_int (int_of_string c); t_ttl = n_of_int (int_of_string ttl);
                             t_min = n_of_int (int_of_string mn) }
  | _ -> failwith "bad trec"
let flag s = (s = "1")
let show_list f l = if l = [] then "-" else String.concat " " (List.map f l)
let handle = function
  | "bm" :: ts :: ps :: ([] | [_]) ->
      let (w, rs) = c13_bitmap (nlist ts) (nlist ps) in
      hex_of_bytes w ^ " " ^
      (if rs = [] then "-" else String.concat "" (List.map (fun r ->
         match r with Ok true -> "1" | Ok false -> "0" | _ -> "P") rs)) ^ " " ^
      (match c13_bm_iter (nlist ts) with
       | Ok l -> if l = [] then "-" else String.concat "," (List.map (fun t -> string_of_int (int_of_n t)) l)
       | _ -> "Panic")
  | "nsec" :: apex :: dk :: recs ->
      let trec_of s = match String.split_on_char '/' s with
        | [nm; t; c; ttl; mn] -> { t_name = name_of_hex nm; t_type = n_of_int (int_of_string t);
                                   t_class = n_of_int (int_of_string c); t_ttl = n_of_int (int_of_string ttl);
                                   t_min = n_of_int (int_of_string mn) }
        | _ -> failwith "bad trec" in
      show_outcome (show_list (fun x -> let r = x.tn_rec in
          hex_of_name r.n_owner ^ "/" ^ hex_of_name r.n_next ^ "/" ^ hex_of_bytes r.n_types ^ "/" ^
          string_of_int (int_of_n x.tn_ttl) ^ "/" ^ string_of_int (int_of_n x.tn_class)))
        (c13_nsec_t (name_of_hex apex) (flag dk) (List.map trec_of recs))
  | "nsec3" :: apex :: dk :: alg :: flags :: iters :: salt :: excl :: pm :: recs ->
      let c = { c_dnskey = flag dk; c_alg = n_of_int (int_of_string alg);
                c_flags = n_of_int (int_of_string flags); c_iters = n_of_int (int_of_string iters);
                c_salt = bytes_of_hex salt; c_excl = flag excl } in
      let m = if pm = "s" then PSoa else if pm = "m" then PSoaMin
              else PFixed (n_of_int (int_of_string (String.sub pm 1 (String.length pm - 1)))) in
      let ps (((a, f), i), sl) = string_of_int (int_of_n a) ^ "/" ^ string_of_int (int_of_n f) ^ "/" ^
                                 string_of_int (int_of_n i) ^ "/" ^ hex_of_bytes sl in
      show_outcome (fun ((o, rp), (((po, pc), pt), pp)) ->
          ps rp ^ " " ^ hex_of_name po ^ "/" ^ string_of_int (int_of_n pc) ^ "/" ^ string_of_int (int_of_n pt) ^ "/" ^ ps pp ^ " " ^
          string_of_int (int_of_n o.o_class) ^ " " ^
          show_list (fun (r, ttl) ->
            hex_of_bytes r.h_owner ^ "/" ^ hex_of_bytes r.h_next ^ "/" ^ hex_of_bytes r.h_types ^ "/" ^
            string_of_int (int_of_n ttl)) o.o_recs)
        (c13_nsec3_t (name_of_hex apex) c m (List.map trec_of recs))
  | "hash" :: nm :: iters :: salt :: ([] | [_]) ->
      hex_of_bytes (c13_hash (name_of_hex nm) (n_of_int (int_of_string iters)) (bytes_of_hex salt))
  | "dedup" :: recs ->
      let srec_of s = match String.split_on_char '/' s with
        | [nm; t; k; d] -> ((name_of_hex nm, n_of_int (int_of_string t)), (k = "u", bytes_of_hex d))
        | _ -> failwith "bad srec" in
      show_list (fun (nm, t) -> hex_of_name nm ^ "/" ^ string_of_int (int_of_n t))
        (c13_dedup (List.map srec_of recs))
  | "srt" :: recs ->
      let crec_of s = match String.split_on_char '/' s with
        | [c; nm; t; k; d] -> (n_of_int (int_of_string c), ((name_of_hex nm, n_of_int (int_of_string t)), (k = "u", bytes_of_hex d)))
        | _ -> failwith "bad crec" in
      show_list (fun (c, ((nm, t), (_, d))) -> string_of_int (int_of_n c) ^ "/" ^ hex_of_name nm ^ "/" ^ string_of_int (int_of_n t) ^ "/" ^ hex_of_bytes d)
        (c13_sorted_records (List.map crec_of recs))
  | "sro" :: ws ->
      let srec_of s = match String.split_on_char '/' s with
        | [nm; t; k; d] -> ((name_of_hex nm, n_of_int (int_of_string t)), (k = "u", bytes_of_hex d))
        | _ -> failwith "bad srec" in
      let rec ops acc cur = function
        | [] -> List.rev (match cur with None -> acc | Some o -> o :: acc)
        | ("V" | "E" | "I" as tag) :: r -> ops (match cur with None -> acc | Some o -> o :: acc) (Some (tag, [])) r
        | w :: r -> (match cur with Some (tag, l) -> ops acc (Some (tag, l @ [srec_of w])) r | None -> failwith "sro: record before op") in
      let mk (tag, l) = match tag with
        | "V" -> [OpVec l] | "E" -> [OpExtend l] | _ -> List.map (fun x -> OpInsert x) l in
      show_list (fun ((nm, t), (_, d)) -> hex_of_name nm ^ "/" ^ string_of_int (int_of_n t) ^ "/" ^ hex_of_bytes d)
        (c13_sr_run (List.concat (List.map mk (ops [] None ws))))
  | ["label"; h; apex] ->
      show_outcome (fun (o, d) -> hex_of_name o ^ " " ^ hex_of_bytes d) (c13_label (bytes_of_hex h) (name_of_hex apex))
  | ["parse"; d] -> (match c13_bm_parse (bytes_of_hex d) with Ok _ -> "Ok" | Err e -> "Err " ^ string_of_int (int_of_n e) | _ -> "Panic")
  | _ -> failwith "bad case line"
let () = main handle
