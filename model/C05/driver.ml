(* C05 driver.
     compose <rtype> <field>...        -> Reject | <wire> <rdlen> <rdlen_compress> <canonical>
     txtlim <op>...                     -> Reject | Ok <RDATA octets> <strings> <length of the last>   (ops s:<len> u:<len> c:<len>, fill 0x61; with the 65535 limit)
     txtbuild <op>...                   -> <TXT RDATA built by TxtBuilder>   (ops s:<hex> u:<hex> c:<hex>, `.` = none)
     lenrdata <rtype> <field>...        -> <len+wire> <len+canonical>   (provided methods through `&T`)
     viamsg <target> <rtype> <field>... -> rdlenc=<n|None> back=<decompressed rdata> rdlength=ok wire=<plain|any>
     parse <rtype> <msg> <pos> <lim>   -> Ok <field>... | Err short | Err form | Panic
     equnk <t1> <octets> <t2> <octets> -> all=<bool> zone=<bool>   (== inside AllRecordData / ZoneRecordData)
     optdata <code> <option data>      -> Ok <field>... | Err short | Err form   (one option through Opt::iter::<AllOptData>)
     stdcookie <server cookie octets>  -> Some <version> <reserved> <timestamp> <hash> | None   (ServerCookie::try_to_standard)
     svcvalue <key> <value octets>     -> Ok <field>... | Err short | Err form   (one SVCB parameter through SvcParams::iter_all)
     svcbuild <key>=<data>,...         -> Reject | <parameter octets>   (SvcParams::from_values pushing in this order)
     optframe <code>=<data>,...        -> Reject | <OPT data>        (Opt::push of every option in turn)
     optparse <OPT data>               -> Ok <code>=<data>,... | Err short | Err form   (Opt::from_octets + iter)
   Field tokens: numbers in decimal; octets in hex (`-` = empty); names as the
   hex of their uncompressed wire form (root = 00); a TXT sequence as
   [s1,s2,...] with each s in hex (`-` = empty string, [] = no strings). *)
let rec name_of_wire (b : n list) : n list list =
  match b with
  | [] -> failwith "name token without root"
  | h :: t ->
      let k = int_of_n h in
      if k = 0 then (if t = [] then [] else failwith "data after root label")
      else begin
        let rec split i acc l =
          if i = 0 then (List.rev acc, l)
          else match l with [] -> failwith "short label" | x :: r -> split (i - 1) (x :: acc) r in
        let (lab, rest) = split k [] t in
        lab :: name_of_wire rest
      end
let wire_of_name (nm : n list list) : n list =
  List.concat (List.map (fun l -> n_of_int (List.length l) :: l) nm) @ [n_of_int 0]
let strs_of_tok (s : string) : n list list =
  let k = String.length s in
  if k < 2 || s.[0] <> '[' || s.[k - 1] <> ']' then failwith "bad strs token";
  let inner = String.sub s 1 (k - 2) in
  if inner = "" then [] else List.map bytes_of_hex (String.split_on_char ',' inner)
let tok_of_strs (l : n list list) : string =
  "[" ^ String.concat "," (List.map hex_of_bytes l) ^ "]"
let fval_of_tok (f : field) (tok : string) : fval =
  match f with
  | FNum _ -> VNum (n_of_int (int_of_string tok))
  | FFix _ | FCharStr _ | FLen16 | FRest _ | FChecked _ -> VBytes (bytes_of_hex tok)
  | FName (_, _) -> VName (name_of_wire (bytes_of_hex tok))
  | FCharStrs -> VStrs (strs_of_tok tok)
let tok_of_fval (x : fval) : string =
  match x with
  | VNum k -> string_of_int (int_of_n k)
  | VBytes b -> hex_of_bytes b
  | VName nm -> hex_of_bytes (wire_of_name nm)
  | VStrs l -> tok_of_strs l
(* option lists: code=hexdata,code=hexdata,...  (`.` = no options) *)
let opts_of_tok (s : string) : (n * n list) list =
  if s = "." then [] else
  List.map (fun w -> match String.split_on_char '=' w with
                     | [c; d] -> (n_of_int (int_of_string c), bytes_of_hex d)
                     | _ -> failwith "bad option token") (String.split_on_char ',' s)
let tok_of_opts (l : (n * n list) list) : string =
  if l = [] then "." else
  String.concat "," (List.map (fun (c, d) -> string_of_int (int_of_n c) ^ "=" ^ hex_of_bytes d) l)
let show_rdlen (o : n option outcome) : string =
  match o with
  | Ok (Some k) -> string_of_int (int_of_n k)
  | Ok None -> "None"
  | Err _ -> "Err"
  | Panic _ -> "Panic"
  | OutOfFuel -> "OutOfFuel"
let handle = function
  | "compose" :: t :: toks ->
      let t = n_of_int (int_of_string t) in
      (* IPSECKEY: the second field (gateway type) selects the row *)
      let hint = (match toks with _ :: g :: _ when int_of_n t = 45 -> n_of_int (int_of_string g) | _ -> n_of_int 0) in
      (match c05_fields t hint with
       | None -> "NoSchema"
       | Some fields ->
           if List.length fields <> List.length toks then failwith "field count";
           let v = List.map2 fval_of_tok fields toks in
           (match c05_compose t v with
            | None -> "NoSchema"
            | Some None -> "Reject"
            | Some (Some c) ->
                hex_of_bytes c.c_wire ^ " " ^ show_rdlen c.c_rdlen ^ " " ^ show_rdlen c.c_rdlen_c
                ^ " " ^ hex_of_bytes c.c_canon))
  | "txtbuild" :: ops ->
      (* s:<hex> append_slice, u:<hex> append_u8 per octet, c:<hex> append_charstr; then finish *)
      let op w = (let k = String.length w in
                  let d = bytes_of_hex (String.sub w 2 (k - 2)) in
                  match w.[0] with 's' -> TSlice d | 'u' -> TOctets d | 'c' -> TCharStr d | _ -> failwith "bad txt op") in
      hex_of_bytes (c05_txtbuild (List.map op (List.filter (fun w -> w <> ".") ops)))
  | "txtlim" :: ops ->
      let fill k = List.init k (fun _ -> n_of_int 0x61) in
      let op w = (let k = String.length w in
                  let d = fill (int_of_string (String.sub w 2 (k - 2))) in
                  match w.[0] with 's' -> TSlice d | 'u' -> TOctets d | 'c' -> TCharStr d | _ -> failwith "bad txt op") in
      (match c05_txtlim (List.map op ops) with
       | None -> "Reject"
       | Some ((a, b), c) -> Printf.sprintf "Ok %d %d %d" (int_of_n a) (int_of_n b) (int_of_n c))
  | "lenrdata" :: t :: toks ->
      (* compose_len_rdata / compose_canonical_len_rdata through a reference: u16 length + RDATA *)
      let t = n_of_int (int_of_string t) in
      let hint = (match toks with _ :: g :: _ when int_of_n t = 45 -> n_of_int (int_of_string g) | _ -> n_of_int 0) in
      (match c05_fields t hint with
       | None -> "NoSchema"
       | Some fields ->
           let v = List.map2 fval_of_tok fields toks in
           (match c05_compose t v with
            | Some (Some c) ->
                let pre b = (let k = List.length b in n_of_int (k / 256) :: n_of_int (k mod 256) :: b) in
                hex_of_bytes (pre c.c_wire) ^ " " ^ hex_of_bytes (pre c.c_canon)
            | _ -> "Reject"))
  | "viamsg" :: _target :: t :: toks ->
      (* a record pushed twice into a message on one of the targets (0 Vec, 1 Static, 2 Tree,
         3 Hash): the model's answer does not depend on the target *)
      let t = n_of_int (int_of_string t) in
      let hint = (match toks with _ :: g :: _ when int_of_n t = 45 -> n_of_int (int_of_string g) | _ -> n_of_int 0) in
      (match c05_fields t hint with
       | None -> "NoSchema"
       | Some fields ->
           let v = List.map2 fval_of_tok fields toks in
           (* name compression is case-insensitive: a compressed name reads back in the spelling of
              the earlier occurrence, so the read-back RDATA is compared with all names lower-cased *)
           let lower_b b = let k = int_of_n b in if k >= 65 && k <= 90 then n_of_int (k + 32) else b in
           let fold x = (match x with VName nm -> VName (List.map (List.map lower_b) nm) | y -> y) in
           (match c05_compose t v, c05_compose t (List.map fold v) with
            | Some (Some c), Some (Some cf) ->
                let plain = (match c.c_rdlen_c with Ok (Some _) -> "plain" | _ -> "any") in
                "rdlenc=" ^ show_rdlen c.c_rdlen_c ^ " back=" ^ hex_of_bytes cf.c_wire ^ " rdlength=ok wire=" ^ plain
            | _ -> "Reject"))
  | ["parse"; t; msg; pos; lim] ->
      let t = n_of_int (int_of_string t) in
      (match c05_parse t (bytes_of_hex msg) (n_of_int (int_of_string pos)) (n_of_int (int_of_string lim)) with
       | None -> "NoSchema"
       | Some (Ok v) -> String.concat " " ("Ok" :: List.map tok_of_fval v)
       | Some (Err e) -> if int_of_n e = 1 then "Err short" else "Err form"
       | Some (Panic _) -> "Panic"
       | Some OutOfFuel -> "OutOfFuel")
  | ["equnk"; t1; b1; t2; b2] ->
      let (a, z) = c05_eq_unknown (n_of_int (int_of_string t1)) (bytes_of_hex b1)
                                  (n_of_int (int_of_string t2)) (bytes_of_hex b2) in
      Printf.sprintf "all=%b zone=%b" a z
  | ["optdata"; code; d] ->
      (match c05_optdata (n_of_int (int_of_string code)) (bytes_of_hex d) with
       | Ok v -> String.concat " " ("Ok" :: List.map tok_of_fval v)
       | Err e -> if int_of_n e = 1 then "Err short" else "Err form"
       | Panic _ -> "Panic"
       | OutOfFuel -> "OutOfFuel")
  | ["stdcookie"; d] ->
      (match c05_stdcookie (bytes_of_hex d) with
       | Some v -> String.concat " " ("Some" :: List.map tok_of_fval v)
       | None -> "None")
  | ["svcvalue"; key; d] ->
      (match c05_svcvalue (n_of_int (int_of_string key)) (bytes_of_hex d) with
       | Ok v -> String.concat " " ("Ok" :: List.map tok_of_fval v)
       | Err e -> if int_of_n e = 1 then "Err short" else "Err form"
       | Panic _ -> "Panic"
       | OutOfFuel -> "OutOfFuel")
  | ["svcbuild"; l] ->
      (* the in-buffer model of SvcParamsBuilder answers; the sorted-list model must agree *)
      let pushes = opts_of_tok l in
      let a = (match c05_svcbuild_inbuf pushes with
               | None -> "Reject"
               | Some (Ok b) -> hex_of_bytes b
               | Some _ -> "Panic") in
      let b = (match c05_svcbuild pushes with None -> "Reject" | Some b -> hex_of_bytes b) in
      if a = b then a else a ^ " MODELS-DIFFER " ^ b
  | ["optframe"; l] ->
      (match c05_optframe (opts_of_tok l) with
       | None -> "Reject"
       | Some b -> hex_of_bytes b)
  | ["optparse"; m] ->
      (match c05_optparse (bytes_of_hex m) with
       | Ok l -> "Ok " ^ tok_of_opts l
       | Err e -> if int_of_n e = 1 then "Err short" else "Err form"
       | Panic _ -> "Panic"
       | OutOfFuel -> "OutOfFuel")
  | _ -> failwith "bad case line"
let () = main handle
