let split_on c s = if s = "-" then [] else String.split_on_char c s
let num s = n_of_int (int_of_string s)
let parse_rr w =
  let v = num (String.sub w 1 (String.length w - 1)) in
  match w.[0] with 'S' -> Soa v | 'O' -> Other v | _ -> failwith "rr"
let parse_item w = if w = "B" then Bad else Rec (parse_rr w)
let parse_hdr w =
  match String.split_on_char ':' w with
  | [qr; op; rc; tc; qd; an; ns; qt] ->
    { h_qr = (qr = "1"); h_opcode = num op; h_rcode = num rc; h_tc = (tc = "1");
      h_qd = num qd; h_an = num an; h_ns = num ns;
      h_qtype = (if qt = "n" then None else Some (num qt)) }
  | _ -> failwith "hdr"
let rec parse_msgs = function
  | [] -> []
  | h :: i :: rest -> { m_hdr = parse_hdr h; m_items = List.map parse_item (split_on '.' i) } :: parse_msgs rest
  | _ -> failwith "msgs"
let show_rr = function Soa s -> "S" ^ string_of_int (int_of_n s) | Other k -> "O" ^ string_of_int (int_of_n k)
let show_upd = function
  | UDeleteAll -> "DA" | UDelete r -> "D." ^ show_rr r | UAdd r -> "A." ^ show_rr r
  | UBeginDel s -> "BD." ^ string_of_int (int_of_n s)
  | UBeginAdd s -> "BA." ^ string_of_int (int_of_n s)
  | UFinished s -> "F." ^ string_of_int (int_of_n s)
let show_upds us = if us = [] then "-" else String.concat "," (List.map show_upd us)
let parse_upd w =
  match String.split_on_char '.' w with
  | ["DA"] -> UDeleteAll
  | ["D"; r] -> UDelete (parse_rr r)
  | ["A"; r] -> UAdd (parse_rr r)
  | ["BD"; s] -> UBeginDel (num s)
  | ["BA"; s] -> UBeginAdd (num s)
  | ["F"; s] -> UFinished (num s)
  | _ -> failwith "upd"
let show_status = function
  | SDone -> "Done" | SIncomplete -> "Incomplete"
  | SErr e -> "Err" ^ string_of_int (int_of_n e) | SPanic _ -> "Panic"
let key = function Soa s -> (0, int_of_n s) | Other k -> (1, int_of_n k)
let show_zone z =
  let l = List.sort compare (List.map key z) in
  if l = [] then "-" else
  String.concat "." (List.map (fun (t, v) -> (if t = 0 then "S" else "O") ^ string_of_int v) l)
let parse_kdt w = match String.split_on_char '.' w with
  | [k; d; t] -> (num k, num d, num t) | _ -> failwith "kdt"
let build_pub ws =
  (* data in listed order per key *)
  List.fold_left (fun st w -> let (k, d, t) = parse_kdt w in
    let old = match s_get k st with Some (_, ds) -> ds | None -> [] in
    s_set k (t, old @ [d]) st) [] ws
let parse_dop w =
  match String.split_on_char ':' w with
  | ["DA"] -> DDeleteAll | ["BD"] -> DBatch
  | ["A"; r] -> let (k, d, t) = parse_kdt r in DAdd (k, d, t)
  | ["D"; r] -> let (k, d, t) = parse_kdt r in DDel (k, d, t)
  | ["BA"; r] -> let (_, d, t) = parse_kdt r in DSoa (d, t)
  | ["F"; r] -> let (_, d, t) = parse_kdt r in DFinish (d, t)
  | _ -> failwith "dop"
let show_side (st : (n * (n * n list)) list) =
  let l = List.sort compare (List.map (fun (k, (t, ds)) ->
    (int_of_n k, int_of_n t, List.sort compare (List.map int_of_n ds))) st) in
  String.concat "," (List.map (fun (k, t, ds) ->
    Printf.sprintf "%d:%d:%s" k t (String.concat "." (List.map string_of_int ds))) l)
let show_diff = function
  | None -> "none"
  | Some (r, a) -> "R[" ^ show_side r ^ "]A[" ^ show_side a ^ "]"
let handle = function
  | ["df"; pub; ops] ->
    let p = build_pub (split_on ',' pub) and o = List.map parse_dop (split_on ',' ops) in
    let ds = c10_diff p o in
    String.concat " " (List.map show_diff ds)
    ^ (if c10_diff_good p o then " good=1 applies=" ^ (if c10_diff_applies_all p o then "1" else "0") else " good=0")
  | "x" :: ms -> let (us, s) = c10_run (parse_msgs ms) in show_upds us ^ " " ^ show_status s
  | ["ap"; z0; us] ->
    (match c10_apply (List.map parse_rr (split_on '.' z0)) (List.map parse_upd (split_on ',' us)) with
     | Ok st -> "Ok " ^ show_zone st.u_visible ^ " " ^ (if st.u_fin then "1" else "0")
     | Err e -> "Err" ^ string_of_int (int_of_n e)
     | Panic _ -> "Panic" | OutOfFuel -> "OutOfFuel")
  | "apm" :: z0 :: uss ->
    (match c10_transfers (List.map parse_rr (split_on '.' z0))
             (List.map (fun us -> List.map parse_upd (split_on ',' us)) uss) with
     | Ok zs -> "Ok " ^ String.concat " " (List.map show_zone zs)
     | Err e -> "Err" ^ string_of_int (int_of_n e)
     | Panic _ -> "Panic" | OutOfFuel -> "OutOfFuel")
  | ["sq"; kind; vs] ->
    (* versions  soa:k.k.k;soa:k.k  -> the record sequence, runs of non-SOA records sorted *)
    let parse_v w = match String.split_on_char ':' w with
      | [s; ks] -> (num s, List.map num (split_on '.' ks)) | _ -> failwith "version" in
    let vl = List.map parse_v (String.split_on_char ';' vs) in
    let seq = if kind = "a" then (match c10_sender_axfr (List.hd vl) with Some l -> l | None -> []) else c10_sender_ixfr vl in
    let canon l =
      let rec go out cur = function
        | [] -> List.rev (List.rev_append (List.sort compare cur) out)
        | Soa s :: rest -> go (("S" ^ string_of_int (int_of_n s)) :: List.rev_append (List.sort compare cur) out) [] rest
        | Other k :: rest -> go out (("O" ^ Printf.sprintf "%06d" (int_of_n k)) :: cur) rest in
      go [] [] l in
    String.concat "." (canon seq)
  | "cl" :: q :: ms ->
    let (l, e) = c10_client (num q) (parse_msgs ms) in
    String.concat "" (List.map (fun b -> if b then "m" else "w") l) ^ (if e then "E" else "C")
  | ["xl"; q; total; per] ->
    (* a large AXFR-style stream: S14, O100000 .. O(100000+total-1), S14, [per] records per message *)
    let total = int_of_string total and per = int_of_string per in
    let recs = Rec (Soa (n_of_int 14)) :: List.init total (fun i -> Rec (Other (n_of_int (100000 + i)))) @ [Rec (Soa (n_of_int 14))] in
    let rec chunk l = if l = [] then [] else
      let rec take n acc l = if n = 0 || l = [] then (List.rev acc, l) else take (n - 1) (List.hd l :: acc) (List.tl l) in
      let (c, rest) = take per [] l in c :: chunk rest in
    let ms = List.map (fun c -> { m_hdr = { h_qr = true; h_opcode = n_of_int 0; h_rcode = n_of_int 0; h_tc = false;
        h_qd = n_of_int 1; h_an = n_of_int (List.length c); h_ns = n_of_int 0; h_qtype = Some (num q) }; m_items = c }) (chunk recs) in
    let (us, st) = c10_run ms in
    let da = ref 0 and ad = ref 0 and fi = ref 0 and ot = ref 0 and inorder = ref true and next = ref 100000 in
    List.iter (function
      | UDeleteAll -> incr da
      | UAdd (Other k) -> if int_of_n k <> !next then inorder := false; incr next; incr ad
      | UFinished _ -> incr fi
      | _ -> incr ot) us;
    Printf.sprintf "DA=%d A=%d inorder=%d F=%d other=%d %s" !da !ad (if !inorder then 1 else 0) !fi !ot (show_status st)
  | ["dc"; rel; q; ser; udp; pr; zs] ->
    (* relevant qtype query-serial|n udp provider zone-serial|n *)
    let opt w = if w = "n" then None else Some (num w) in
    let p = match String.split_on_char ':' pr with
      | ["ok"; n; c] -> PData (num n, c = "1")
      | ["parse"] -> PParse | ["unknown"] -> PUnknown | ["unavail"] -> PUnavailable | ["refused"] -> PRefused
      | _ -> failwith "prov" in
    (match c10_decide { rq_relevant = (rel = "1"); rq_qtype = num q; rq_serial = opt ser; rq_udp = (udp = "1") } p (opt zs) with
     | DContinue -> "continue" | DErr rc -> "err" ^ string_of_int (int_of_n rc) | DNotimp -> "notimp"
     | DAxfr c -> if c then "axfr1" else "axfr0" | DSingleSoa -> "single" | DIxfr -> "ixfr" | DPanic -> "panic")
  | ["ck"; first; h] -> if c10_check (first = "1") (parse_hdr h) then "reject" else "pass"
  | _ -> failwith "bad case line"
let () = main handle
