let show_outcome (f : 'a -> string) (o : 'a outcome) : string =
  match o with
  | Ok a -> "Ok " ^ f a
  | Err e -> "Err " ^ string_of_int (int_of_n e)
  | Panic _ -> "Panic"
  | OutOfFuel -> "OutOfFuel"
