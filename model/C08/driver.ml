(* C08 driver: `<ops...> ? <qname> <qtype>` -> canonical answer line *)
let enc_label (s : string) : n =
  let s = String.lowercase_ascii s in
  let v = ref 1 in
  String.iter (fun c -> v := !v * 256 + Char.code c) s;
  n_of_int !v
let dec_label (x : n) : string =
  let v = ref (int_of_n x) in
  let b = Buffer.create 8 in
  while !v > 1 do Buffer.add_char b (Char.chr (!v land 255)); v := !v lsr 8 done;
  let s = Buffer.contents b in
  String.init (String.length s) (fun i -> s.[String.length s - 1 - i])
let parse_name (s : string) : n list =
  if s = "@" then [] else List.rev_map enc_label (String.split_on_char '.' s)
let show_name (p : n list) : string =
  if p = [] then "@" else String.concat "." (List.rev_map dec_label p)
let parse_rd (s : string) : rdata =
  if String.length s > 0 && s.[0] = '@' then { rd_tok = N0; rd_tgt = Some (parse_name (String.sub s 1 (String.length s - 1))) }
  else { rd_tok = n_of_int (int_of_string s); rd_tgt = None }
let show_rd (d : rdata) : string =
  match d.rd_tgt with Some t -> "@" ^ show_name t | None -> string_of_int (int_of_n d.rd_tok)
let num s = n_of_int (int_of_string s)
let parse_rds sep (s : string) : rdata list =
  if s = "-" then [] else List.map parse_rd (String.split_on_char sep s)
let parse_grec (s : string) : grec =
  match String.split_on_char '/' s with
  | [o; t; ttl; rd] -> { g_owner = parse_name o; g_type = num t; g_ttl = num ttl; g_data = parse_rd rd }
  | _ -> failwith "bad glue record"
let parse_cut (f : string list) : zcut =
  match f with
  | [nm; nsttl; nsrds; ds; glue] ->
      let ds = if ds = "-" then None else
        (match String.split_on_char '+' ds with
         | ttl :: rds -> Some { rs_type = num "43"; rs_ttl = num ttl; rs_data = List.map parse_rd rds }
         | [] -> failwith "bad ds") in
      let glue = if glue = "-" then [] else List.map parse_grec (String.split_on_char ',' glue) in
      { c_name = parse_name nm; c_ns = { rs_type = num "2"; rs_ttl = num nsttl; rs_data = parse_rds ',' nsrds }; c_ds = ds; c_glue = glue }
  | _ -> failwith "bad cut"
let soa_ttl = num "60"
let parse_op (w : string) : op =
  match String.split_on_char ':' w with
  | ["b"; nm; t; ttl; rds] -> OBRr (parse_name nm, { rs_type = num t; rs_ttl = num ttl; rs_data = parse_rds ',' rds })
  | "c" :: rest -> OBCut (parse_cut rest)
  | ["n"; nm; ttl; rd] -> OBCname (parse_name nm, { rr_ttl = num ttl; rr_data = parse_rd rd })
  | ["z"; nm; t; ttl; rd] -> OZRec { g_owner = parse_name nm; g_type = num t; g_ttl = num ttl; g_data = parse_rd rd }
  | ["un"] -> OUNew
  | ["u+"; nm; t; ttl; rd] -> OUAdd { g_owner = parse_name nm; g_type = num t; g_ttl = num ttl; g_data = parse_rd rd }
  | ["u-"; nm; t; ttl; rd] -> OUDel { g_owner = parse_name nm; g_type = num t; g_ttl = num ttl; g_data = parse_rd rd }
  | ["ux"] -> OUDelAll
  | ["ub"; tok] -> OUBatchDel (parse_rd tok)
  | ["ua"; tok] -> OUBatchAdd (soa_ttl, parse_rd tok)
  | ["uf"; tok] -> OUFin (soa_ttl, parse_rd tok)
  | ["ud"] -> OUDrop
  | ["wo"] -> OWOpen
  | ["wr"; nm; t; ttl; rds] -> OWRr (parse_name nm, { rs_type = num t; rs_ttl = num ttl; rs_data = parse_rds ',' rds })
  | ["wm"; nm; t] -> OWRm (parse_name nm, num t)
  | "wc" :: nm :: rest -> OWCut (parse_name nm, parse_cut rest)
  | ["wn"; nm; ttl; rd] -> OWCname (parse_name nm, { rr_ttl = num ttl; rr_data = parse_rd rd })
  | ["wg"; nm] -> OWRegular (parse_name nm)
  | ["wx"; nm] -> OWRemoveAll (parse_name nm)
  | ["wk"] -> OWCommit
  | ["wd"] -> OWDrop
  | _ -> failwith ("bad op " ^ w)
let err_word e = match int_of_n e with
  | 1 -> "CutAtApex" | 2 -> "CnameAtApex" | 3 -> "Finished" | 4 -> "NotAllowed" | 5 -> "IllegalZoneCut"
  | 6 -> "IllegalRecord" | 7 -> "IllegalCname" | 8 -> "MultipleCnames" | 9 -> "ZoneErrors" | 10 -> "SoaMismatch" | _ -> "?"
let set_show (l : string list) : string =
  let l = List.sort_uniq compare l in
  if l = [] then "-" else String.concat "," l
let show_rrset owner (r : rrset) : string list =
  List.map (fun d -> owner ^ string_of_int (int_of_n r.rs_type) ^ "/" ^ string_of_int (int_of_n r.rs_ttl) ^ "/" ^ show_rd d) r.rs_data
let cache : (string * (node * (n * n) list)) option ref = ref None
let rec split_q acc = function
  | "?" :: rest -> (List.rev acc, rest)
  | w :: rest -> split_q (w :: acc) rest
  | [] -> failwith "no query"
(* ---- ZoneTree cases: `tree <ti:name:id | tr:name>... ? f|g <name>` or `? l` *)
let parse_abs (s : string) : n list =
  (* absolute name, root label first *)
  let labs = List.filter (fun x -> x <> "") (String.split_on_char '.' s) in
  enc_label "" :: List.rev_map enc_label labs
let tcache : (string * (zroots * (n * n) list)) option ref = ref None
let handle_tree (ws : string list) : string =
  let (opw, q) = split_q [] ws in
  let key = String.concat " " opw in
  let (t, errs) =
    match !tcache with
    | Some (k, v) when k = key -> v
    | _ ->
      let ops = List.map (fun w -> match String.split_on_char ':' w with
        | ["ti"; nm; id] -> ZIns (num "1", parse_abs nm, num id)
        | ["tr"; nm] -> ZRem (num "1", parse_abs nm)
        | ["ti"; nm; id; cls] -> ZIns (num cls, parse_abs nm, num id)
        | ["tr"; nm; cls] -> ZRem (num cls, parse_abs nm)
        | _ -> failwith ("bad tree op " ^ w)) opw in
      let v = c08_tree_run ops in tcache := Some (key, v); v in
  let es = if errs = [] then "-" else String.concat "," (List.map (fun (i, e) ->
    string_of_int (int_of_n i) ^ ":" ^ (match int_of_n e with 11 -> "ZoneExists" | 12 -> "ZoneDoesNotExist" | _ -> "?")) errs) in
  let sh = function Some z -> string_of_int (int_of_n z) | None -> "-" in
  match q with
  | ["f"; nm] -> Printf.sprintf "F=%s E=%s" (sh (c08_tree_find (num "1") (parse_abs nm) t)) es
  | ["g"; nm] -> Printf.sprintf "G=%s E=%s" (sh (c08_tree_get (num "1") (parse_abs nm) t)) es
  | ["f"; nm; cls] -> Printf.sprintf "F=%s E=%s" (sh (c08_tree_find (num cls) (parse_abs nm) t)) es
  | ["g"; nm; cls] -> Printf.sprintf "G=%s E=%s" (sh (c08_tree_get (num cls) (parse_abs nm) t)) es
  | ["l"] -> let l = List.sort compare (List.map int_of_n (c08_tree_list t)) in
             Printf.sprintf "L=%s E=%s" (if l = [] then "-" else String.concat "," (List.map string_of_int l)) es
  | _ -> failwith "bad tree query"
let handle_tomsg (ws : string list) : string =
  match ws with
  | [limit; stream; qn; ty; n; rdlen] ->
      let lim = if limit = "-" then None else Some (num limit) in
      let labs = List.filter (fun x -> x <> "") (String.split_on_char '.' qn) in
      let qname = List.map (fun l -> List.init (String.length l) (fun i -> n_of_int (Char.code l.[i]))) labs in
      (match c08_tomsg lim (stream = "1") qname (num ty) (num n) (num rdlen) with
       | None -> "Panic"
       | Some (an, tc) -> Printf.sprintf "an=%d tc=%d" (int_of_n an) (if tc then 1 else 0))
  | _ -> failwith "bad tomsg case"
let handle (ws : string list) : string =
  match ws with "tree" :: rest -> handle_tree rest | "tomsg" :: rest -> handle_tomsg rest | _ ->
  let (opw, q) = split_q [] ws in
  let key = String.concat " " opw in
  let (z, errs) =
    match !cache with
    | Some (k, v) when k = key -> v
    | _ ->
      (* `sp:<n>` only changes how names are spelled towards the implementation *)
      let opw' = List.filter (fun w -> not (String.length w > 3 && String.sub w 0 3 = "sp:")) opw in
      let (z0, e0) = c08_run (List.map parse_op opw') in
      let shift = List.length opw - List.length opw' in
      let v = (z0, List.map (fun (i, e) -> (n_of_int (int_of_n i + shift), e)) e0) in cache := Some (key, v); v in
  let q = match q with [qn; qt; _variant] -> [qn; qt] | _ -> q in
  match q with
  | [qn; qt] ->
      let qt = int_of_string qt in
      let a = c08_query z (parse_name qn) (n_of_int qt) in
      let rc = int_of_n a.a_rcode in
      let an = match a.a_content with
        | AData r -> show_rrset "" r
        | ACname c -> ["5/" ^ string_of_int (int_of_n c.rr_ttl) ^ "/" ^ show_rd c.rr_data]
        | ANoData -> [] in
      let an_s = if qt = 255 && a.a_aa && rc = 0 && an <> [] then "ANY" else set_show an in
      let au = match a.a_auth with
        | None -> []
        | Some au ->
            let o = show_name au.au_owner ^ "/" in
            (match au.au_soa with Some s -> [o ^ "6/" ^ string_of_int (int_of_n s.rr_ttl) ^ "/" ^ show_rd s.rr_data] | None -> [])
            @ (match au.au_ns with Some r -> show_rrset o r | None -> [])
            @ (match au.au_ds with Some r -> show_rrset o r | None -> []) in
      let ad = List.map (fun g -> show_name g.g_owner ^ "/" ^ string_of_int (int_of_n g.g_type) ^ "/" ^ string_of_int (int_of_n g.g_ttl) ^ "/" ^ show_rd g.g_data) a.a_addl in
      let es = if errs = [] then "-" else String.concat "," (List.map (fun (i, e) -> string_of_int (int_of_n i) ^ ":" ^ err_word e) errs) in
      let seq l = if l = [] then "-" else String.concat ";" l in
      let ans = if an_s = "ANY" then "ANY" else seq an in
      Printf.sprintf "%d %d AN=%s AU=%s AD=%s ANS=%s AUS=%s E=%s" rc (if a.a_aa then 1 else 0) an_s (set_show au) (set_show ad) ans (seq au) es
  | ["walk"] ->
      let recs = List.concat_map (fun ((o, r), cut) ->
        List.map (fun d -> show_name o ^ "/" ^ string_of_int (int_of_n r.rs_type) ^ "/" ^ string_of_int (int_of_n r.rs_ttl) ^ "/" ^ show_rd d ^ "/" ^ (if cut then "1" else "0")) r.rs_data) (c08_walk z) in
      let recs = List.sort compare recs in
      let es = if errs = [] then "-" else String.concat "," (List.map (fun (i, e) -> string_of_int (int_of_n i) ^ ":" ^ err_word e) errs) in
      Printf.sprintf "W=%s E=%s" (if recs = [] then "-" else String.concat "," recs) es
  | _ -> failwith "bad query"
let () = main handle
