(* C16 driver.  Case syntax (numbers decimal, `-` = None / empty):
   neg <client|-> <hint|->                      => Ok <n|-> | Panic
   cfg <v|->                                    => <n|->
   push <limit|-> <pos> <a,b,c|->               => <o<pos>|L|S>,... fin=<pos>
   udp <id> <b2> <l1.l2..|-> <qtype> <client|-> <cfg|-> <rb2> <rb3> <n_an> <an_len> <n_ar> <ar_len> <size:dlen|->
                                                => Ok len= tc= id= cnt=q,a,n,r opt= b2=
   srv <id> <b2> <qd> <nq> <labels> <qtype> <-|one:size:ver|dup:size|bad> <cfg|-> <none|err:rc|ok:rb2:rb3:n_an:an_len:n_ar:ar_len:(-|size/dlen)>
                                                => Ok None | Ok len= tc= id= cnt= opt= b2= b3= ottl=   (one datagram through the whole DgramServer)
   recfg <id> <b2> <labels> <client|-> <cfg1|-> <cfg2|-> <rb2> <n_an> <an_len> <size:dlen|->   => Ok <obs> | <obs>   (the same request before and after DgramServer::reconfigure from cfg1 to cfg2)
   accept <c|f|e<kind>,...>                     => s/- per attempt (c: a connection, f: accepted but the stream future fails, p: ... never completes, e<kind>: poll_accept error)
   idle <timeout_ms> <wait_ms>                  => open | closed   (a fresh connection left alone for wait_ms, then probed)
   limit <max> <k>                              => s/d per connection (k connections opened in turn and kept: served or dropped)
   ck <id> <b2> <labels> <qtype> <client|-> <cfg|-> <mal|deny>   => as srv: the cookies middleware's own FORMERR (malformed COOKIE) / REFUSED+TC (denied address, no cookie)
   pad <hexdatagram> <cfg|->                    => as srv: a raw datagram (no records, no compression) as the 1024-octet zero-padded receive buffer presents it
   tcp <id> <b2> <qd> <nq> <labels> <qtype> <-|one:size:ver|ka:size:0/1|dup:size|bad> <idle_ms|-> <svc as srv>
                                                => Ok None | Ok len= ... ottl= odl=   (one request on a StreamServer connection, the response before framing)
   frame <hex>                                  => Ok <hex> | Err 1
   conn <hexchunk> ...                          => open|closed D:id:len.. F:id:len.. X   (dispatches, then direct FORMERRs (only on a connection that stays open:
        after DisconnectWithoutFlush queued responses are not written), then the disconnect) *)
let n_of s = n_of_int (int_of_string s)
let opt_n s = if s = "-" then None else Some (n_of s)
let show_n x = string_of_int (int_of_n x)
let show_opt_n = function None -> "-" | Some x -> show_n x
let split_on c s = if s = "-" then [] else String.split_on_char c s
let b01 b = if b then "1" else "0"
let ev_str = function
  | EvDispatch m -> (match m with a :: b :: _ -> Printf.sprintf "D:%d:%d" (int_of_n a * 256 + int_of_n b) (List.length m) | _ -> "D:?")
  | EvFormErr m -> (match m with a :: b :: _ -> Printf.sprintf "F:%d:%d" (int_of_n a * 256 + int_of_n b) (List.length m) | _ -> "F:?")
  | EvDisconnect -> "X"
let opt_of opt = (match String.split_on_char ':' opt with
  | ["-"] -> OptNone | ["one"; sz; v] -> OptOne (n_of sz, n_of v) | ["ka"; sz; t] -> OptKa (n_of sz, t = "1")
  | ["dup"; sz] -> OptDup (n_of sz) | ["bad"] -> OptBad
  | _ -> failwith "opt")
let svc_of svc = (match String.split_on_char ':' svc with
  | ["none"] -> None
  | ["err"; rc] -> Some (Inr (n_of rc))
  | ["ok"; rb2; rb3; n_an; an_len; n_ar; ar_len; os] ->
      let ro = if os = "-" then None else (match String.split_on_char '/' os with [a; b] -> Some (n_of a, n_of b) | _ -> failwith "ropt") in
      Some (Inl ((((((n_of rb2, n_of rb3), n_of n_an), n_of an_len), n_of n_ar), n_of ar_len), ro))
  | _ -> failwith "svc")
let handle = function
  | ["neg"; c; h] -> show_outcome show_opt_n (c16_hint (opt_n c) (opt_n h))
  | ["cfg"; v] -> show_opt_n (c16_cfg (opt_n v))
  | ["push"; l; pos; adds] ->
      let (tr, fin) = c16_push (opt_n l) (n_of pos) (List.map n_of (split_on ',' adds)) in
      let one = function Ok p -> "o" ^ show_n p | Err e -> if int_of_n e = 2 then "L" else "S" | Panic _ -> "P" | OutOfFuel -> "F" in
      (if tr = [] then "-" else String.concat "," (List.map one tr)) ^ " fin=" ^ show_n fin
  | ["udp"; id; b2; labels; qtype; client; cfg; rb2; rb3; n_an; an_len; n_ar; ar_len; opt] ->
      let o = if opt = "-" then None else
          (match String.split_on_char ':' opt with [a; b] -> Some (n_of a, n_of b) | _ -> failwith "opt") in
      let r = c16_udp (n_of id) (n_of b2) (List.map n_of (split_on '.' labels)) (n_of qtype) (opt_n client) (opt_n cfg)
                (n_of rb2) (n_of rb3) (n_of n_an) (n_of an_len) (n_of n_ar) (n_of ar_len) o in
      show_outcome (fun (((((l, tc), i), (((q, a), n), r)), ho), b2) ->
        Printf.sprintf "len=%s tc=%s id=%s cnt=%s,%s,%s,%s opt=%s b2=%s" (show_n l) (b01 tc) (show_n i)
          (show_n q) (show_n a) (show_n n) (show_n r) (b01 ho) (show_n b2)) r
  | ["recfg"; id; b2; labels; client; cfg1; cfg2; rb2; n_an; an_len; opt] ->
      let o = if opt = "-" then None else (match String.split_on_char ':' opt with [a; b] -> Some (n_of a, n_of b) | _ -> failwith "opt") in
      let sh (((((l, tc), i), (((q, a), n), r)), ho), b2) =
        Printf.sprintf "len=%s tc=%s id=%s cnt=%s,%s,%s,%s opt=%s b2=%s" (show_n l) (b01 tc) (show_n i) (show_n q) (show_n a) (show_n n) (show_n r) (b01 ho) (show_n b2) in
      show_outcome (fun (x, y) -> sh x ^ " ; " ^ sh y)
        (c16_recfg (n_of id) (n_of b2) (List.map n_of (split_on '.' labels)) (opt_n client) (opt_n cfg1) (opt_n cfg2) (n_of rb2) (n_of n_an) (n_of an_len) o)
  | ["accept"; evs] ->
      let ev e = if e = "c" then n_of_int 0 else if e = "f" then n_of_int 1 else if e = "p" then n_of_int 2
                 else n_of_int (100 + int_of_string (String.sub e 1 (String.length e - 1))) in
      String.concat "" (List.map (fun b -> if b then "s" else "-") (c16_accept (List.map ev (split_on ',' evs))))
  | ["idle"; t; w] -> if c16_idle (n_of t) (n_of w) then "open" else "closed"
  | ["limit"; mx; k] -> String.concat "" (List.map (fun b -> if b then "s" else "d") (c16_limit (n_of mx) (n_of k)))
  | ["ck"; id; b2; labels; qtype; client; cfg; kind] ->
      show_outcome (function
        | None -> "None"
        | Some (((((((l, tc), i), (((q, a), n), r)), ho), b2), b3), ottl) ->
            Printf.sprintf "len=%s tc=%s id=%s cnt=%s,%s,%s,%s opt=%s b2=%s b3=%s ottl=%s" (show_n l) (b01 tc) (show_n i)
              (show_n q) (show_n a) (show_n n) (show_n r) (b01 ho) (show_n b2) (show_n b3) (show_n ottl))
        (c16_ck (n_of id) (n_of b2) (List.map n_of (split_on '.' labels)) (n_of qtype) (opt_n client) (opt_n cfg) (kind = "deny"))
  | ["pad"; d; cfg] ->
      show_outcome (function
        | None -> "None"
        | Some (((((((l, tc), i), (((q, a), n), r)), ho), b2), b3), ottl) ->
            Printf.sprintf "len=%s tc=%s id=%s cnt=%s,%s,%s,%s opt=%s b2=%s b3=%s ottl=%s" (show_n l) (b01 tc) (show_n i)
              (show_n q) (show_n a) (show_n n) (show_n r) (b01 ho) (show_n b2) (show_n b3) (show_n ottl))
        (c16_pad (bytes_of_hex d) (opt_n cfg))
  | ["tcp"; id; b2; qd; nq; labels; qtype; opt; idle; svc] ->
      let r = c16_tcp (n_of id) (n_of b2) (n_of qd) (n_of nq) (List.map n_of (split_on '.' labels)) (n_of qtype) (opt_of opt) (opt_n idle) (svc_of svc) in
      show_outcome (function
        | None -> "None"
        | Some ((((((((l, tc), i), (((q, a), n), r)), ho), b2), b3), ottl), odl) ->
            Printf.sprintf "len=%s tc=%s id=%s cnt=%s,%s,%s,%s opt=%s b2=%s b3=%s ottl=%s odl=%s" (show_n l) (b01 tc) (show_n i)
              (show_n q) (show_n a) (show_n n) (show_n r) (b01 ho) (show_n b2) (show_n b3) (show_n ottl) (show_n odl)) r
  | ["srv"; id; b2; qd; nq; labels; qtype; opt; cfg; svc] ->
      let o = opt_of opt in
      let sv = svc_of svc in
      let r = c16_srv (n_of id) (n_of b2) (n_of qd) (n_of nq) (List.map n_of (split_on '.' labels)) (n_of qtype) o (opt_n cfg) sv in
      show_outcome (function
        | None -> "None"
        | Some (((((((l, tc), i), (((q, a), n), r)), ho), b2), b3), ottl) ->
            Printf.sprintf "len=%s tc=%s id=%s cnt=%s,%s,%s,%s opt=%s b2=%s b3=%s ottl=%s" (show_n l) (b01 tc) (show_n i)
              (show_n q) (show_n a) (show_n n) (show_n r) (b01 ho) (show_n b2) (show_n b3) (show_n ottl)) r
  | ["frame"; h] -> show_outcome hex_of_bytes (c16_frame_out (bytes_of_hex h))
  | "conn" :: chunks ->
      let (op, evs) = c16_conn (List.map bytes_of_hex chunks) in
      let is_d = function EvDispatch _ -> true | _ -> false in
      let is_f = function EvFormErr _ -> true | _ -> false in
      let is_x = function EvDisconnect -> true | _ -> false in
      String.concat " " ((if op then "open" else "closed") ::
        List.map ev_str (List.filter is_d evs @ (if op then List.filter is_f evs else []) @ List.filter is_x evs))
  | _ -> failwith "bad case line"
let () = main handle
