(* C02 driver: one builder script per line (all section bookkeeping is in the model: c02_xrun)
     run <T> <K> <CAP> <op> ...
   T: v Vec, b BytesMut, a Array<CAP>, s StreamTarget<Vec>, p heapless::Vec<u8,CAP> (= a), m SmallVec (= v);  K: n none, s static, t tree, h hash
   ops: q:<name>:<type>:<class>   r:<owner>:<type>:<class>:<ttl>:<pfx>:<items>
        o:<udp>:<opts> | o:<udp>:<rc|->:<ver>:<do>:<opts>   h<8 hex>   g<k>   B   w   l<n>   L
   pfx: 0 length known to the type, 1 length patched in afterwards, 2 typed record data of the library (= 0)
   names are uncompressed wire format in hex; items: b<hex> z<count>.<hh> n<name> u<name>
   output: R=<word,..> C=qd,an,ns,ar N=<len> M=<hex | #h1.h2> V=<ok|bad> *)
let split c s = if s = "" then [] else String.split_on_char c s
let ni s = n_of_int (int_of_string s)

let name_of_hex (h : string) : n list list =
  let b = Array.of_list (List.map int_of_n (bytes_of_hex h)) in
  let rec go i acc =
    if i >= Array.length b then failwith "name without root"
    else let l = b.(i) in
      if l = 0 then List.rev acc
      else go (i + 1 + l) (List.init l (fun k -> n_of_int b.(i + 1 + k)) :: acc) in
  go 0 []

let item_of (s : string) : ritem =
  let body = String.sub s 1 (String.length s - 1) in
  match s.[0] with
  | 'b' -> RBytes (bytes_of_hex body)
  | 'z' -> (match split '.' body with
            | [cnt; hh] -> let v = n_of_int (int_of_string ("0x" ^ hh)) in
                           RBytes (List.init (int_of_string cnt) (fun _ -> v))
            | _ -> failwith "bad z item")
  | 'n' -> RName (name_of_hex body)
  | 'u' -> RNameU (name_of_hex body)
  | _ -> failwith "bad item"

let schema_records = ref 0
let schema_fallbacks = ref 0
let schema_options = ref 0
let schema_option_fallbacks = ref 0

let mk_opt ?(clone=false) udp rc ver dok opts : op =
  let one s = match split '.' s with
    | [code; data] ->
        let d = bytes_of_hex data in
        let raw = ((ni code, n_of_int (List.length d)), d) in
        (* the harness pushes the library's typed option when the first data octet is even
           (or there is none): the model then goes through C05's row for the code *)
        let typed = (not clone) && (match d with [] -> true | b :: _ -> int_of_n b land 1 = 0) in
        if typed then begin
          let (o, via) = c02_typed_option raw in
          if via then incr schema_options else incr schema_option_fallbacks; o
        end else raw
    | _ -> failwith "bad option" in
  OpOpt ({ oh_udp = ni udp; oh_rc = (if rc = "-" then None else Some (ni rc)); oh_ver = ni ver;
           oh_flags = (if clone then ni dok else if dok = "1" then n_of_int 32768 else n_of_int 0); oh_hdr = not clone },
         (if opts = "-" then [] else List.map one (split ',' opts)))
(* one harness op = one (composite) model operation *)
let xop_of (w : string) : xop =
  match split ':' w with
  | ["q"; nm; ty; cl] -> XPrim (OpQ { q_name = name_of_hex nm; q_type = ni ty; q_class = ni cl })
  | ["r"; nm; ty; cl; ttl; pfx; items] ->
      let r = { r_owner = name_of_hex nm; r_type = ni ty; r_class = ni cl; r_ttl = ni ttl;
                r_prefixed = (pfx = "1");
                r_data = (if items = "-" then [] else List.map item_of (split ',' items)) } in
      (* typed record data of the library: the items are re-derived from the
         uncompressed octets by the C05 schema of the record type *)
      if pfx = "2" then begin
        let (r', via) = c02_typed_record r in
        if via then incr schema_records else incr schema_fallbacks;
        XPrim (OpR r')
      end else XPrim (OpR r)
  | ["o"; udp; opts] -> XPrim (mk_opt udp "-" "0" "0" opts)
  | ["o"; udp; rc; ver; dok; opts] -> XPrim (mk_opt udp rc ver dok opts)
  (* OptBuilder::clone_from(OptRecord): ext rcode octet, version, 16 flag bits; header RCODE untouched *)
  | ["c"; udp; ext; ver; flags; opts] -> XPrim (mk_opt ~clone:true udp (string_of_int (16 * int_of_string ext)) ver flags opts)
  (* S:<kind>:<id>:<opcode>:<rd>:<rcode>:<questions>  kind 0 start_answer, 1 start_error, 2 request_axfr *)
  | ["S"; kind; id; opcode; rd; rcode; qs] ->
      let q s = match split '.' s with
        | [nm; ty; cl] -> { q_name = name_of_hex nm; q_type = ni ty; q_class = ni cl }
        | _ -> failwith "bad start question" in
      XStart (ni kind, ni id, ni opcode, (rd = "1"), ni rcode, (if qs = "-" then [] else List.map q (split ',' qs)))
  | ["B"] -> XBuilder
  | ["w"] -> XPrim OpRewind
  | ["L"] -> XPrim (OpLimit None)
  | [x] when String.length x >= 2 && x.[0] = 'g' -> XGoto (ni (String.sub x 1 (String.length x - 1)))
  | [x] when String.length x = 9 && x.[0] = 'h' -> XPrim (OpHdr (sets_of_fields (fields_of_octets (bytes_of_hex (String.sub x 1 8)))))
  | [x] when String.length x >= 2 && x.[0] = 'l' -> XPrim (OpLimit (Some (ni (String.sub x 1 (String.length x - 1)))))
  | _ -> failwith ("bad op " ^ w)

let word = function
  | RNone -> "-" | ROk -> "ok"
  | RErr e -> (match int_of_n e with 1 -> "short" | 2 -> "limit" | 3 -> "count" | k -> "err" ^ string_of_int k)
  | RPanic _ -> "panic" | RFuel -> "fuel"

let show_msg (m : n list) : string =
  let len = List.length m in
  if len <= 600 then hex_of_bytes m
  else begin
    let h1 = ref 7 and h2 = ref 11 in
    List.iter (fun b -> let v = int_of_n b in
                h1 := (!h1 * 257 + v + 1) mod 2147483629;
                h2 := (!h2 * 263 + v + 1) mod 2147483587) m;
    Printf.sprintf "#%d.%d" !h1 !h2
  end

let handle = function
  | "run" :: t :: k :: cap :: ops ->
      let cfg = { t_cap = (if t = "a" || t = "p" then Some (ni cap) else None);
                  t_stream = (t = "s");
                  t_kind = (match k with "n" -> KNone | "s" -> KStatic | "t" -> KTree | "h" -> KHash
                                       | _ -> failwith "bad kind") } in
      (match c02_xrun cfg (List.map xop_of ops) with
       | None -> "INIT-ERR"
       | Some (((st, a), ws), lost) ->
           let r = "R=" ^ (if ws = [] then "-" else String.concat "," (List.map word ws)) in
           if lost then r ^ " LOST" else
           let dead = List.exists (function RPanic _ | RFuel -> true | _ -> false) ws in
           if dead then r ^ " DEAD" else
           let m = c02_msg cfg st in
           Printf.sprintf "%s C=%d,%d,%d,%d N=%d M=%s V=%s" r
             (int_of_n st.b_qd) (int_of_n st.b_an) (int_of_n st.b_ns) (int_of_n st.b_ar)
             (List.length m) (show_msg m) (if c02_reread st a then "ok" else "bad"))
  (* cnt <n>: n root questions into a Vec without compressor, by count arithmetic
     (SchemaModel.c02_count, proved equal to the step model in ProofsCount.v) *)
  | ["cnt"; n] ->
      let ((count, len), over) = c02_count (ni n) in
      Printf.sprintf "CNT C=%d N=%d R=%s" (int_of_n count) (int_of_n len) (if over then "count" else "ok")
  | _ -> failwith "bad case line"
let () = at_exit (fun () -> Printf.eprintf "c02-model: schema_records=%d schema_fallbacks=%d schema_options=%d schema_option_fallbacks=%d\n" !schema_records !schema_fallbacks !schema_options !schema_option_fallbacks)
let () = main handle
