let str_cmp (c : comparison) = match c with Eq -> "Eq" | Lt -> "Lt" | Gt -> "Gt"
let str_ocmp = function Some c -> str_cmp c | None -> "None"
