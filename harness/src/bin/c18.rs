//! C18 -- Base16 / Base32hex / Base64 codecs: correspondence cases for the Coq
//! model and the property oracle on the implementation.
//!
//! T2 case syntax (text is a comma separated list of hexadecimal code points,
//! `-` for the empty text; octets are lowercase hex, `-` for empty):
//!   enc64|enc32|enc16 <octets>          => Ok <text>     (encode_string)
//!   encd64|encd32|encd16 <octets>       => Ok <text>     (encode_display through fmt)
//!   dec64|dec32|dec16 <text>            => Ok <octets> | Err <Kind>
//!   push64|push32|push16 <text>         => <trace> <final>
//!        every char is pushed through `Decoder::push`, errors are ignored,
//!        then `finalize`; trace has one letter per push:
//!        `.` Ok, I IllegalChar, T TrailingInput, S ShortInput, B ShortBuf,
//!        P panic (pushing stops, final is `Panic`)
//!   deccap64|32|16 <cap> <text>, pushcap64|32|16 <cap> <text>
//!        the same through a builder that holds at most <cap> octets
//!        (octseq::Array<cap>): ShortBuf paths
//!   tok64|32|16 <token>, ent64|32|16 <token>..   IterScanner::convert_token /
//!        convert_entry with the codec's SymbolConverter (zone-file escapes)
//!   saltstr|saltscan|hashstr|hashscan <text>, saltdisp|hashdisp <octets>
//!        Nsec3Salt / OwnerHash FromStr, scan (IterScanner), Display
//!   encw64|encw16 <room> <octets>    display into a fmt::Write taking <room> chars => Ok|Err <written>
//!   soct|scstr|sstr|sascii|ssym|smark <token>, scent|sesym <token>..   the other
//!        IterScanner methods (scan_octets, scan_charstr, scan_string, scan_ascii_str,
//!        scan_symbols, scan_opt_unknown_marker, scan_charstr_entry, scan_entry_symbols)
//!   encf64|32|16 <octets>   display straight into a String
//!   serj*|serc*|sercd* <octets>, serjd* <text>   the serde helpers: JSON (text) and a compact
//!        non-human-readable format (octets); saltj|saltc|saltcd|hashj|hashc|hashcd <octets>,
//!        saltjd|hashjd <text>   Nsec3Salt / OwnerHash Serialize / Deserialize
//!   conv64|conv32|conv16 <text> <text>..=> Ok <octets> | Err <Illegal|Trailing|Short>
//!        the scanner's SymbolConverter fed with the chars of every chunk
//!        followed by EndOfToken, then process_tail
use domain::base::scan::{ConvertSymbols, EntrySymbol, Symbol};
use domain::utils::base64::DecodeError;
use domain::utils::{base16, base32, base64};
use dv_harness::*;

#[derive(Clone, Copy, PartialEq, Eq, Debug)]
enum Codec { B64, B32, B16 }
use Codec::*;

impl Codec {
    fn tag(self) -> &'static str { match self { B64 => "64", B32 => "32", B16 => "16" } }
    fn pfx(self) -> &'static str { match self { B64 => "b64", B32 => "b32", B16 => "b16" } }
}

// ---------------------------------------------------------------- formatting

fn cps(s: &[char]) -> String {
    if s.is_empty() { return "-".into(); }
    let v: Vec<String> = s.iter().map(|c| format!("{:x}", *c as u32)).collect();
    v.join(",")
}
fn text_of(s: &[char]) -> String { s.iter().collect() }

fn kind(e: &DecodeError) -> String {
    match e {
        DecodeError::IllegalChar(c) => format!("IllegalChar:{:x}", *c as u32),
        DecodeError::TrailingInput => "TrailingInput".into(),
        DecodeError::ShortInput => "ShortInput".into(),
        DecodeError::ShortBuf => "ShortBuf".into(),
    }
}
fn letter(e: &DecodeError) -> char {
    match e { DecodeError::IllegalChar(_) => 'I', DecodeError::TrailingInput => 'T', DecodeError::ShortInput => 'S', DecodeError::ShortBuf => 'B' }
}

// ------------------------------------------------------ implementation runs

fn imp_encode(c: Codec, b: &[u8]) -> Result<String, String> {
    let b = b.to_vec();
    catch(move || match c {
        B64 => base64::encode_string(&b),
        B32 => base32::encode_string_hex(&b),
        B16 => base16::encode_string(&b),
    })
}
fn imp_encode_display(c: Codec, b: &[u8]) -> Result<String, String> {
    let b = b.to_vec();
    catch(move || match c {
        B64 => format!("{}", base64::encode_display(&b)),
        B32 => format!("{}", base32::encode_display_hex(&b)),
        B16 => format!("{}", base16::encode_display(&b)),
    })
}

/// Outer Err = panic.
fn imp_decode(c: Codec, s: &[char]) -> Result<Result<Vec<u8>, DecodeError>, String> {
    let t = text_of(s);
    catch(move || match c {
        B64 => base64::decode::<Vec<u8>>(&t),
        B32 => base32::decode_hex::<Vec<u8>>(&t),
        B16 => base16::decode::<Vec<u8>>(&t),
    })
}

enum Dec { D64(base64::Decoder<Vec<u8>>), D32(base32::Decoder<Vec<u8>>), D16(base16::Decoder<Vec<u8>>) }
impl Dec {
    fn new(c: Codec) -> Dec {
        match c { B64 => Dec::D64(base64::Decoder::new()), B32 => Dec::D32(base32::Decoder::new_hex()), B16 => Dec::D16(base16::Decoder::new()) }
    }
    fn push(&mut self, ch: char) -> Result<(), DecodeError> {
        match self { Dec::D64(d) => d.push(ch), Dec::D32(d) => d.push(ch), Dec::D16(d) => d.push(ch) }
    }
    fn finalize(self) -> Result<Vec<u8>, DecodeError> {
        match self { Dec::D64(d) => d.finalize(), Dec::D32(d) => d.finalize(), Dec::D16(d) => d.finalize() }
    }
}

struct PushRun {
    trace: Vec<Option<DecodeError>>, // per push: None = Ok
    panicked_at: Option<usize>,
    fin: Option<Result<Vec<u8>, DecodeError>>, // None = panic (in push or finalize)
}

/// Push every char, ignore errors, finalize.
fn imp_push_all(c: Codec, s: &[char]) -> PushRun {
    let mut d = Dec::new(c);
    let mut trace = vec![];
    for (i, ch) in s.iter().enumerate() {
        match catch_mut(|| d.push(*ch)) {
            Ok(Ok(())) => trace.push(None),
            Ok(Err(e)) => trace.push(Some(e)),
            Err(_) => return PushRun { trace, panicked_at: Some(i), fin: None },
        }
    }
    let fin = catch_mut(move || d.finalize()).ok();
    PushRun { trace, panicked_at: None, fin }
}

fn obs_push(r: &PushRun) -> String {
    let mut t: String = r.trace.iter().map(|x| match x { None => '.', Some(e) => letter(e) }).collect();
    if r.panicked_at.is_some() { t.push('P'); }
    if t.is_empty() { t.push('-'); }
    let f = match &r.fin { None => "Panic".to_string(), Some(Ok(v)) => format!("Ok {}", hex(v)), Some(Err(e)) => format!("Err {}", kind(e)) };
    format!("{} {}", t, f)
}

fn conv_kind(msg: &str) -> &'static str {
    let m = msg.to_ascii_lowercase();
    if m.contains("trailing") { "Trailing" }
    else if m.contains("illegal") || m.contains("expected hex") { "Illegal" }
    else if m.contains("incomplete") || m.contains("short") || m.contains("uneven") { "Short" }
    else { "Other" }
}

fn conv_loop<C: ConvertSymbols<EntrySymbol, std::io::Error>>(mut c: C, chunks: &[Vec<char>]) -> Result<Vec<u8>, &'static str> {
    let mut res = vec![];
    for ck in chunks {
        for ch in ck {
            match c.process_symbol(EntrySymbol::Symbol(Symbol::Char(*ch))) {
                Ok(Some(o)) => res.extend_from_slice(o),
                Ok(None) => {}
                Err(e) => return Err(conv_kind(&e.to_string())),
            }
        }
        match c.process_symbol(EntrySymbol::EndOfToken) {
            Ok(Some(o)) => res.extend_from_slice(o),
            Ok(None) => {}
            Err(e) => return Err(conv_kind(&e.to_string())),
        }
    }
    match c.process_tail() {
        Ok(Some(o)) => res.extend_from_slice(o),
        Ok(None) => {}
        Err(e) => return Err(conv_kind(&e.to_string())),
    }
    Ok(res)
}

/// Outer Err = panic.
fn imp_conv(c: Codec, chunks: &[Vec<char>]) -> Result<Result<Vec<u8>, &'static str>, String> {
    let chunks = chunks.to_vec();
    catch(move || match c {
        B64 => conv_loop(base64::SymbolConverter::new(), &chunks),
        B32 => conv_loop(base32::SymbolConverter::new(), &chunks),
        B16 => conv_loop(base16::SymbolConverter::new(), &chunks),
    })
}

// ------------------------------------------- bounded builders (ShortBuf)

use octseq::array::Array;
use octseq::builder::{EmptyBuilder, FreezeBuilder, FromBuilder, OctetsBuilder};

pub const MAX_CAP: usize = 12;

fn push_all_b<B>(c: Codec, s: &[char]) -> PushRun
where B: EmptyBuilder + OctetsBuilder + FreezeBuilder, B::Octets: AsRef<[u8]> {
    macro_rules! drive { ($d:expr) => {{
        let mut d = $d;
        let mut trace = vec![];
        for (i, ch) in s.iter().enumerate() {
            match catch_mut(|| d.push(*ch)) {
                Ok(Ok(())) => trace.push(None),
                Ok(Err(e)) => trace.push(Some(e)),
                Err(_) => return PushRun { trace, panicked_at: Some(i), fin: None },
            }
        }
        let fin = catch_mut(move || d.finalize().map(|o| o.as_ref().to_vec())).ok();
        PushRun { trace, panicked_at: None, fin }
    }}; }
    match c {
        B64 => drive!(base64::Decoder::<B>::new()),
        B32 => drive!(base32::Decoder::<B>::new_hex()),
        B16 => drive!(base16::Decoder::<B>::new()),
    }
}

fn decode_b<O>(c: Codec, s: &[char]) -> Result<Result<Vec<u8>, DecodeError>, String>
where O: FromBuilder + AsRef<[u8]>, <O as FromBuilder>::Builder: OctetsBuilder + EmptyBuilder {
    let t = text_of(s);
    catch(move || match c {
        B64 => base64::decode::<O>(&t).map(|o| o.as_ref().to_vec()),
        B32 => base32::decode_hex::<O>(&t).map(|o| o.as_ref().to_vec()),
        B16 => base16::decode::<O>(&t).map(|o| o.as_ref().to_vec()),
    })
}

macro_rules! by_cap {
    ($cap:expr, $f:ident, $($a:expr),*) => { match $cap {
        0 => $f::<Array<0>>($($a),*), 1 => $f::<Array<1>>($($a),*), 2 => $f::<Array<2>>($($a),*),
        3 => $f::<Array<3>>($($a),*), 4 => $f::<Array<4>>($($a),*), 5 => $f::<Array<5>>($($a),*),
        6 => $f::<Array<6>>($($a),*), 7 => $f::<Array<7>>($($a),*), 8 => $f::<Array<8>>($($a),*),
        9 => $f::<Array<9>>($($a),*), 10 => $f::<Array<10>>($($a),*), 11 => $f::<Array<11>>($($a),*),
        _ => $f::<Array<12>>($($a),*),
    } };
}

fn imp_push_all_cap(c: Codec, cap: usize, s: &[char]) -> PushRun { by_cap!(cap, push_all_b, c, s) }
fn imp_decode_cap(c: Codec, cap: usize, s: &[char]) -> Result<Result<Vec<u8>, DecodeError>, String> { by_cap!(cap, decode_b, c, s) }

/// decode / push API into a builder holding at most `cap` octets
fn t2_cap(out: &mut Out, c: Codec, cap: usize, s: &[char]) {
    let cap = cap.min(MAX_CAP);
    let p = c.pfx();
    let want = ref_decode(c, s);
    // decode
    let case = format!("deccap{} {} {}", c.tag(), cap, cps(s));
    out.begin(&case);
    let r = imp_decode_cap(c, cap, s);
    let obs = match &r { Err(_) => "Panic".to_string(), Ok(Ok(v)) => format!("Ok {}", hex(v)), Ok(Err(e)) => format!("Err {}", kind(e)) };
    out.case(&case, &obs, !s.is_empty(), &format!("deccap{}", c.tag()));
    match &r {
        Err(e) => chk(out, false, &format!("{}_cap_decode_panics", p), &case, e),
        Ok(r) => {
            let ok = match (&want, r) {
                (Some(w), Ok(v)) => w == v && w.len() <= cap,
                (Some(w), Err(e)) => w.len() > cap && *e == DecodeError::ShortBuf,
                (None, Err(_)) => true,
                (None, Ok(_)) => false,
            };
            chk(out, ok, &format!("{}_cap_accepts_iff_fits", p), &case, &format!("impl {:?} reference {:?} cap {}", r, want, cap));
        }
    }
    // per-push API
    let case = format!("pushcap{} {} {}", c.tag(), cap, cps(s));
    out.begin(&case);
    let run = imp_push_all_cap(c, cap, s);
    out.case(&case, &obs_push(&run), !s.is_empty(), &format!("pushcap{}", c.tag()));
    if let Some(i) = run.panicked_at {
        chk(out, false, &format!("{}_cap_push_panics", p), &case, &format!("push #{} panicked: {}", i, obs_push(&run)));
        return;
    }
    chk(out, true, &format!("{}_cap_push_panics", p), &case, "");
    let fin = match &run.fin { None => { chk(out, false, &format!("{}_cap_finalize_panics", p), &case, ""); return; } Some(f) => f.clone() };
    match run.trace.iter().position(|x| x.is_some()) {
        Some(i) => {
            let later_ok = run.trace[i + 1..].iter().any(|x| x.is_none());
            chk(out, !later_ok && fin.is_err(), &format!("{}_cap_error_not_sticky", p), &case, &obs_push(&run));
        }
        None => {
            chk(out, matches!(&r, Ok(x) if *x == fin), &format!("{}_cap_push_differs_from_decode", p), &case, &format!("{:?} vs {:?}", r, fin));
        }
    }
}

// ---------------------------- users: IterScanner entry points, NSEC3 salt / owner hash

use domain::base::iana::Nsec3HashAlgorithm;
use domain::base::rdata::ComposeRecordData;
use domain::base::scan::IterScanner;
use domain::rdata::nsec3::{Nsec3Salt, Nsec3SaltFromStrError, Nsec3param, OwnerHash};
use std::str::FromStr;

fn scan_kind(msg: &str) -> &'static str {
    let m = msg.to_ascii_lowercase();
    if m.contains("escape") || m.contains("end of input") { "BadEscape" }
    else if m.contains("too long") { "TooLong" }
    else if m.contains("end of entry") { "EndOfEntry" }
    else { conv_kind(msg) }
}

/// Independent check of the escape syntax of a zone-file token (RFC 1035 5.1):
/// `\DDD` with DDD <= 255, or `\` followed by a printable ASCII character.
fn escapes_ok(s: &[char]) -> bool {
    let mut i = 0;
    while i < s.len() {
        if s[i] != '\\' { i += 1; continue; }
        if i + 1 >= s.len() { return false; }
        let c = s[i + 1];
        if c.is_ascii_digit() {
            if i + 3 >= s.len() || !s[i + 2].is_ascii_digit() || !s[i + 3].is_ascii_digit() { return false; }
            let v = (c as u32 - 48) * 100 + (s[i + 2] as u32 - 48) * 10 + (s[i + 3] as u32 - 48);
            if v > 255 { return false; }
            i += 4;
        } else {
            if (c as u32) < 0x20 || (c as u32) > 0x7e { return false; }
            i += 2;
        }
    }
    true
}

fn imp_scan_token(c: Codec, tokens: &[Vec<char>], entry: bool) -> Result<Result<Vec<u8>, &'static str>, String> {
    let toks: Vec<String> = tokens.iter().map(|t| text_of(t)).collect();
    catch(move || {
        let mut sc = IterScanner::<_, Vec<u8>>::new(toks.iter().map(|x| x.as_str()));
        use domain::base::scan::Scanner;
        let r = match (c, entry) {
            (B64, false) => sc.convert_token(base64::SymbolConverter::new()),
            (B32, false) => sc.convert_token(base32::SymbolConverter::new()),
            (B16, false) => sc.convert_token(base16::SymbolConverter::new()),
            (B64, true) => sc.convert_entry(base64::SymbolConverter::new()),
            (B32, true) => sc.convert_entry(base32::SymbolConverter::new()),
            (B16, true) => sc.convert_entry(base16::SymbolConverter::new()),
        };
        r.map_err(|e| scan_kind(&e.to_string()))
    })
}

fn obs_scan(r: &Result<Result<Vec<u8>, &'static str>, String>) -> String {
    match r { Err(_) => "Panic".to_string(), Ok(Ok(v)) => format!("Ok {}", hex(v)), Ok(Err(k)) => format!("Err {}", k) }
}

/// IterScanner::convert_token (one token) / convert_entry (all tokens)
fn t2_scan(out: &mut Out, c: Codec, tokens: &[Vec<char>], entry: bool) {
    let mut case = format!("{}{}", if entry { "ent" } else { "tok" }, c.tag());
    for t in tokens { case.push(' '); case.push_str(&cps(t)); }
    out.begin(&case);
    let r = imp_scan_token(c, tokens, entry);
    let whole: Vec<char> = tokens.iter().flatten().copied().collect();
    out.case(&case, &obs_scan(&r), !whole.is_empty(), &format!("{}{}", if entry { "ent" } else { "tok" }, c.tag()));
    let p = c.pfx();
    match &r {
        Err(e) => chk(out, false, &format!("{}_scan_panics", p), &case, e),
        Ok(r) => {
            if !tokens.iter().all(|t| escapes_ok(t)) {
                // ill-formed text must not be accepted, whatever precedes the bad escape
                chk(out, r.is_err(), "iter_scanner_bad_escape_truncates", &case, &format!("{:?}", r));
            } else if !whole.contains(&'\\') {
                let d = imp_decode(c, &whole);
                let same = match (r, &d) { (Ok(v), Ok(Ok(w))) => v == w, (Err(_), Ok(Err(_))) => true, _ => false };
                chk(out, same, &format!("{}_scan_differs_from_decode", p), &case, &format!("{:?} vs decode {:?}", r, d));
            } else {
                // valid escapes: \c stands for c, \DDD is never a codec character
                let mut plain: Vec<char> = vec![];
                let mut decimal = false;
                for t in tokens { let mut i = 0; while i < t.len() {
                    if t[i] == '\\' { if t[i + 1].is_ascii_digit() { decimal = true; i += 4; } else { plain.push(t[i + 1]); i += 2; } }
                    else { plain.push(t[i]); i += 1; } } }
                if decimal {
                    chk(out, r.is_err(), &format!("{}_scan_accepts_decimal_escape", p), &case, &format!("{:?}", r));
                } else {
                    let d = imp_decode(c, &plain);
                    let same = match (r, &d) { (Ok(v), Ok(Ok(w))) => v == w, (Err(_), Ok(Err(_))) => true, _ => false };
                    chk(out, same, &format!("{}_scan_simple_escape", p), &case, &format!("{:?} vs decode of unescaped {:?}", r, d));
                }
            }
        }
    }
}

/// Composing an NSEC3PARAM with the salt must not panic.
fn salt_composes(v: &[u8], salt: Nsec3Salt<Vec<u8>>) -> bool {
    let n = v.len();
    catch(move || { let p = Nsec3param::new(Nsec3HashAlgorithm::SHA1, 0, 0, salt); let mut t = Vec::new(); p.compose_rdata(&mut t).map(|_| t.len()) })
        .map(|r| r == Ok(5 + n)).unwrap_or(false)
}

fn t2_salt(out: &mut Out, s: &[char]) {
    let t = text_of(s);
    // FromStr
    let case = format!("saltstr {}", cps(s));
    out.begin(&case);
    let t1 = t.clone();
    let r = catch(move || Nsec3Salt::<Vec<u8>>::from_str(&t1));
    let obs = match &r {
        Err(_) => "Panic".to_string(),
        Ok(Ok(v)) => format!("Ok {}", hex(v.as_slice())),
        Ok(Err(Nsec3SaltFromStrError::DecodeError(e))) => format!("Err {}", kind(e)),
        Ok(Err(Nsec3SaltFromStrError::Nsec3SaltError(_))) => "Err TooLong".to_string(),
    };
    out.case(&case, &obs, !s.is_empty(), "saltstr");
    let want: Option<Vec<u8>> = if t == "-" { Some(vec![]) } else { ref_decode(B16, s).filter(|v| v.len() <= 255) };
    match &r {
        Err(e) => chk(out, false, "nsec3_salt_from_str_panics", &case, e),
        Ok(r) => {
            let got = r.as_ref().ok().map(|x| x.as_slice().to_vec());
            chk(out, got == want, "nsec3_salt_from_str", &case, &format!("{:?} vs reference {:?}", got.as_ref().map(|v| v.len()), want.as_ref().map(|v| v.len())));
        }
    }
    // scan through IterScanner
    let case = format!("saltscan {}", cps(s));
    out.begin(&case);
    let t2 = t.clone();
    let r2 = catch(move || { let mut sc = IterScanner::<_, Vec<u8>>::new([t2.as_str()]); Nsec3Salt::<Vec<u8>>::scan(&mut sc).map_err(|e| scan_kind(&e.to_string())) });
    let obs = match &r2 { Err(_) => "Panic".to_string(), Ok(Ok(v)) => format!("Ok {}", hex(v.as_slice())), Ok(Err(k)) => format!("Err {}", k) };
    out.case(&case, &obs, !s.is_empty(), "saltscan");
    match r2 {
        Err(e) => chk(out, false, "nsec3_salt_scan_panics", &case, &e),
        Ok(r2) => {
            if let Ok(v) = &r2 {
                let bytes = v.as_slice().to_vec();
                chk(out, bytes.len() <= 255 && salt_composes(&bytes, v.clone()), "nsec3_scan_unchecked_length", &case, &format!("scanned salt of {} octets", bytes.len()));
            }
            if !escapes_ok(s) {
                chk(out, r2.is_err(), "iter_scanner_bad_escape_truncates", &case, &format!("{:?}", r2.as_ref().map(|v| v.as_slice().len())));
            } else if !s.contains(&'\\') && r2.as_ref().map_or(true, |v| v.as_slice().len() <= 255) {
                let got = r2.as_ref().ok().map(|x| x.as_slice().to_vec());
                chk(out, got == want, "nsec3_salt_scan_differs_from_str", &case, &format!("{:?} vs from_str reference {:?}", got.as_ref().map(|v| v.len()), want.as_ref().map(|v| v.len())));
            }
        }
    }
}

fn t2_salt_display(out: &mut Out, b: &[u8]) {
    let case = format!("saltdisp {}", hex(b));
    out.begin(&case);
    let salt = match Nsec3Salt::from_octets(b.to_vec()) {
        Ok(s) => s,
        Err(_) => { out.case(&case, "Err TooLong", true, "saltdisp"); chk(out, b.len() > 255, "nsec3_salt_from_octets", &case, "rejected a salt of <= 255 octets"); return; }
    };
    chk(out, b.len() <= 255, "nsec3_salt_from_octets", &case, "accepted a salt of > 255 octets");
    let text = format!("{}", salt);
    let chars: Vec<char> = text.chars().collect();
    out.case(&case, &format!("Ok {}", cps(&chars)), !b.is_empty(), "saltdisp");
    let want = if b.is_empty() { "-".to_string() } else { ref_encode(B16, b) };
    chk(out, text == want, "nsec3_salt_display", &case, &format!("{} vs {}", text, want));
    let back = Nsec3Salt::<Vec<u8>>::from_str(&text);
    chk(out, matches!(&back, Ok(x) if x.as_slice() == b), "nsec3_salt_roundtrip", &case, &format!("{:?}", back.map(|x| x.as_slice().len())));
    let t2 = text.clone();
    let sc = catch(move || { let mut sc = IterScanner::<_, Vec<u8>>::new([t2.as_str()]); Nsec3Salt::<Vec<u8>>::scan(&mut sc).map(|x| x.as_slice().to_vec()).map_err(|e| e.to_string()) });
    chk(out, matches!(&sc, Ok(Ok(x)) if x.as_slice() == b), "nsec3_salt_scan_roundtrip", &case, &format!("{:?}", sc.map(|x| x.map(|v| v.len()))));
}

fn t2_hash(out: &mut Out, s: &[char]) {
    let t = text_of(s);
    let case = format!("hashstr {}", cps(s));
    out.begin(&case);
    let t1 = t.clone();
    let r = catch(move || OwnerHash::<Vec<u8>>::from_str(&t1));
    let obs = match &r { Err(_) => "Panic".to_string(), Ok(Ok(v)) => format!("Ok {}", hex(v.as_slice())), Ok(Err(e)) => format!("Err {}", kind(e)) };
    out.case(&case, &obs, !s.is_empty(), "hashstr");
    let want = ref_decode(B32, s).filter(|v| v.len() <= 255);
    match &r {
        Err(e) => chk(out, false, "nsec3_hash_from_str_panics", &case, e),
        Ok(r) => {
            let got = r.as_ref().ok().map(|x| x.as_slice().to_vec());
            if let Some(g) = &got { chk(out, g.len() <= 255, "nsec3_scan_unchecked_length", &case, &format!("OwnerHash::from_str gave {} octets", g.len())); }
            if got.as_ref().map_or(true, |g| g.len() <= 255) {
                chk(out, got == want, "nsec3_hash_from_str", &case, &format!("{:?} vs reference {:?}", got.as_ref().map(|v| v.len()), want.as_ref().map(|v| v.len())));
            }
        }
    }
    let case = format!("hashscan {}", cps(s));
    out.begin(&case);
    let t2 = t.clone();
    let r2 = catch(move || { let mut sc = IterScanner::<_, Vec<u8>>::new([t2.as_str()]); OwnerHash::<Vec<u8>>::scan(&mut sc).map(|x| x.as_slice().to_vec()).map_err(|e| scan_kind(&e.to_string())) });
    out.case(&case, &obs_scan(&r2), !s.is_empty(), "hashscan");
    match r2 {
        Err(e) => chk(out, false, "nsec3_hash_scan_panics", &case, &e),
        Ok(r2) => {
            if let Ok(v) = &r2 { chk(out, v.len() <= 255, "nsec3_scan_unchecked_length", &case, &format!("scanned owner hash of {} octets", v.len())); }
            if !escapes_ok(s) {
                chk(out, r2.is_err(), "iter_scanner_bad_escape_truncates", &case, &format!("{:?}", r2.as_ref().map(|v| v.len())));
            } else if !s.contains(&'\\') && r2.as_ref().map_or(true, |v| v.len() <= 255) {
                chk(out, r2.clone().ok() == want, "nsec3_hash_scan_differs_from_str", &case, &format!("{:?} vs reference {:?}", r2.as_ref().map(|v| v.len()), want.as_ref().map(|v| v.len())));
            }
        }
    }
}

fn t2_hash_display(out: &mut Out, b: &[u8]) {
    let case = format!("hashdisp {}", hex(b));
    out.begin(&case);
    let h = match OwnerHash::from_octets(b.to_vec()) {
        Ok(h) => h,
        Err(_) => { out.case(&case, "Err TooLong", true, "hashdisp"); chk(out, b.len() > 255, "nsec3_hash_from_octets", &case, "rejected <= 255 octets"); return; }
    };
    chk(out, b.len() <= 255, "nsec3_hash_from_octets", &case, "accepted > 255 octets");
    let text = format!("{}", h);
    let chars: Vec<char> = text.chars().collect();
    out.case(&case, &format!("Ok {}", cps(&chars)), !b.is_empty(), "hashdisp");
    chk(out, text == ref_encode(B32, b), "nsec3_hash_display", &case, &text);
    let back = OwnerHash::<Vec<u8>>::from_str(&text);
    chk(out, matches!(&back, Ok(x) if x.as_slice() == b), "nsec3_hash_roundtrip", &case, &format!("{:?}", back.map(|x| x.as_slice().len())));
    let lower = text.to_ascii_lowercase();
    let sc = catch(move || { let mut sc = IterScanner::<_, Vec<u8>>::new([lower.as_str()]); OwnerHash::<Vec<u8>>::scan(&mut sc).map(|x| x.as_slice().to_vec()).map_err(|e| e.to_string()) });
    chk(out, matches!(&sc, Ok(Ok(x)) if x.as_slice() == b), "nsec3_hash_scan_roundtrip", &case, &format!("{:?}", sc.map(|x| x.map(|v| v.len()))));
}

/// Sprinkle zone-file escapes over a text: valid simple and decimal escapes and
/// malformed ones (lone backslash at the end, short or > 255 decimal, non-printable).
fn escape_some(r: &mut Rng, s: &[char]) -> Vec<char> {
    let mut o = vec![];
    for ch in s {
        match r.below(12) {
            0 if ch.is_ascii() && (*ch as u32) >= 0x21 && (*ch as u32) <= 0x7e && !ch.is_ascii_digit() => { o.push('\\'); o.push(*ch); }
            1 if ch.is_ascii() => { o.push('\\'); for d in format!("{:03}", *ch as u32).chars() { o.push(d); } }
            _ => o.push(*ch),
        }
    }
    match r.below(10) {
        0 => o.push('\\'),
        1 => { o.push('\\'); o.push('9'); }
        2 => { for d in "\\300".chars() { o.push(d); } }
        3 => { o.push('\\'); o.push('\u{e9}'); }
        4 => { let pos = r.below(o.len() as u64 + 1) as usize; o.insert(pos, '\\'); }
        5 => { for d in "\\25x".chars() { o.push(d); } }
        _ => {}
    }
    o
}

// ------------------------- display into a writer that runs out of room (fmt::Write errors)

struct LimW { s: String, room: usize }
impl std::fmt::Write for LimW {
    fn write_str(&mut self, x: &str) -> std::fmt::Result {
        let n = x.chars().count();
        if n <= self.room { self.s.push_str(x); self.room -= n; Ok(()) } else { Err(std::fmt::Error) }
    }
}

fn t2_encw(out: &mut Out, c: Codec, room: usize, b: &[u8]) {
    let case = format!("encw{} {} {}", c.tag(), room, hex(b));
    out.begin(&case);
    let bb = b.to_vec();
    let r = catch(move || {
        let mut w = LimW { s: String::new(), room };
        let res = match c { B64 => base64::display(&bb, &mut w), B32 => base32::display_hex(&bb, &mut w), B16 => base16::display(&bb, &mut w) };
        (res.is_ok(), w.s)
    });
    let p = c.pfx();
    match r {
        Err(e) => { out.case(&case, "Panic", true, &format!("encw{}", c.tag())); chk(out, false, &format!("{}_display_write_panics", p), &case, &e); }
        Ok((ok, written)) => {
            let obs = format!("{} {}", if ok { "Ok" } else { "Err" }, cps(&written.chars().collect::<Vec<_>>()));
            out.case(&case, &obs, !b.is_empty(), &format!("encw{}", c.tag()));
            let full = ref_encode(c, b);
            let unit = if c == B16 { 2 } else { 1 };
            let fit = if full.len() <= room { full.len() } else { room / unit * unit };
            // the error is propagated at the first write that fails; what was written is the text so far
            chk(out, ok == (full.len() <= room) && written == full[..fit], &format!("{}_display_write_error", p), &case,
                &format!("ok={} written {} of {}", ok, written, full));
        }
    }
}

// --------------------------------------- the other token-reading methods of IterScanner

fn sym_obs(y: &Symbol) -> String {
    match y { Symbol::Char(c) => format!("c{:x}", *c as u32), Symbol::SimpleEscape(c) => format!("s{:x}", c), Symbol::DecimalEscape(c) => format!("d{:x}", c) }
}

/// Independent expectation for a token: (symbols as octets via into_octet rules, all ok)
fn ref_token_octets(s: &[char]) -> Option<Vec<u8>> {
    if !escapes_ok(s) { return None; }
    let mut o = vec![]; let mut i = 0;
    while i < s.len() {
        if s[i] == '\\' {
            if s[i + 1].is_ascii_digit() { o.push(((s[i + 1] as u32 - 48) * 100 + (s[i + 2] as u32 - 48) * 10 + (s[i + 3] as u32 - 48)) as u8); i += 4; }
            else { o.push(s[i + 1] as u8); i += 2; }
        } else {
            let c = s[i] as u32; if !(0x20..=0x7e).contains(&c) { return None; }
            o.push(c as u8); i += 1;
        }
    }
    Some(o)
}
/// Independent expectation for scan_string: plain and simply-escaped characters, no decimal escapes
fn ref_token_string(s: &[char]) -> Option<String> {
    if !escapes_ok(s) { return None; }
    let mut o = String::new(); let mut i = 0;
    while i < s.len() {
        if s[i] == '\\' { if s[i + 1].is_ascii_digit() { return None; } o.push(s[i + 1]); i += 2; }
        else { o.push(s[i]); i += 1; }
    }
    Some(o)
}

fn t2_scan_methods(out: &mut Out, tokens: &[Vec<char>]) {
    use domain::base::scan::Scanner;
    let toks: Vec<String> = tokens.iter().map(|t| text_of(t)).collect();
    let first: Vec<char> = tokens.first().cloned().unwrap_or_default();
    let all_ok = tokens.iter().all(|t| escapes_ok(t));
    macro_rules! scanner { () => { IterScanner::<_, Vec<u8>>::new(toks.iter().map(|x| x.as_str())) } }
    macro_rules! run { ($kind:expr, $args:expr, $body:expr, $show:expr, $wf:expr, $expect:expr) => {{
        let case = format!("{} {}", $kind, $args);
        out.begin(&case);
        let r = catch_mut(|| $body);
        let obs = match &r { Err(_) => "Panic".to_string(), Ok(Ok(v)) => format!("Ok {}", $show(v)), Ok(Err(k)) => format!("Err {}", k) };
        out.case(&case, &obs, true, $kind);
        match &r {
            Err(e) => chk(out, false, &format!("iter_scanner_{}_panics", $kind), &case, e),
            Ok(r) => {
                if !$wf { chk(out, r.is_err(), "iter_scanner_bad_escape_truncates", &case, &obs); }
                let exp: Option<Option<String>> = $expect;
                if let Some(e) = exp { chk(out, r.as_ref().ok().map(|v| $show(v)) == e, &format!("iter_scanner_{}_value", $kind), &case, &format!("{} vs expected {:?}", obs, e)); }
            }
        }
    }}; }
    let one = cps(&first);
    let mut many = String::new();
    for t in tokens { if !many.is_empty() { many.push(' '); } many.push_str(&cps(t)); }
    if tokens.is_empty() { return; }
    let w1 = escapes_ok(&first);
    run!("soct", one, scanner!().scan_octets().map_err(|e| scan_kind2(&e.to_string())), |v: &Vec<u8>| hex(v), w1,
         Some(ref_token_octets(&first).map(|v| hex(&v))));
    run!("scstr", one, scanner!().scan_charstr().map(|c| c.as_slice().to_vec()).map_err(|e| scan_kind2(&e.to_string())), |v: &Vec<u8>| hex(v), w1,
         Some(ref_token_octets(&first).filter(|v| v.len() <= 255).map(|v| hex(&v))));
    run!("sstr", one, scanner!().scan_string().map(|c| c.as_str().as_bytes().to_vec()).map_err(|e| scan_kind2(&e.to_string())), |v: &Vec<u8>| hex(v), w1,
         Some(ref_token_string(&first).map(|v| hex(v.as_bytes()))));
    run!("sascii", one, scanner!().scan_ascii_str(|x| Ok(x.as_bytes().to_vec())).map_err(|e| scan_kind2(&e.to_string())), |v: &Vec<u8>| hex(v), w1,
         Some(ref_token_string(&first).filter(|v| v.is_ascii()).map(|v| hex(v.as_bytes()))));
    run!("ssym", one, { let mut l: Vec<String> = vec![]; scanner!().scan_symbols(|y| { l.push(sym_obs(&y)); Ok(()) }).map(|_| l).map_err(|e| scan_kind2(&e.to_string())) },
         |v: &Vec<String>| if v.is_empty() { "-".to_string() } else { v.join(",") }, w1, None);
    run!("smark", one, Ok::<bool, &'static str>(scanner!().scan_opt_unknown_marker().unwrap_or(false)), |v: &bool| v.to_string(), true,
         Some(Some((text_of(&first) == "\\#").to_string())));
    run!("scent", many, scanner!().scan_charstr_entry().map_err(|e| scan_kind2(&e.to_string())), |v: &Vec<u8>| hex(v), all_ok, {
         let parts: Option<Vec<Vec<u8>>> = tokens.iter().map(|t| ref_token_octets(t).filter(|v| v.len() <= 255)).collect();
         Some(parts.map(|ps| { let mut o = vec![]; for p in ps { o.push(p.len() as u8); o.extend(p); } hex(&o) })) });
    run!("sesym", many, { let mut l: Vec<String> = vec![]; scanner!().scan_entry_symbols(|y| { l.push(match y { EntrySymbol::Symbol(y) => sym_obs(&y), EntrySymbol::EndOfToken => "E".to_string() }); Ok(()) }).map(|_| l).map_err(|e| scan_kind2(&e.to_string())) },
         |v: &Vec<String>| if v.is_empty() { "-".to_string() } else { v.join(",") }, all_ok, None);
    // scan_name (oracle only; the name syntax is C03's): the str scanner and
    // FromStr must agree, and malformed escapes must be refused
    {
        let case = format!("sname {}", one);
        out.begin(&case);
        let r = catch_mut(|| scanner!().scan_name().map(|n| n.as_slice().to_vec()).map_err(|e| e.to_string()));
        out.case(&case, &res_obs(&r), true, "sname");
        let t = text_of(&first);
        let f = catch(move || domain::base::name::Name::<Vec<u8>>::from_str(&t).map(|n| n.as_slice().to_vec()).map_err(|e| e.to_string()));
        match (&r, &f) {
            (Ok(a), Ok(b)) => {
                if !w1 { chk(out, a.is_err(), "iter_scanner_bad_escape_truncates", &case, &format!("{:?}", a)); }
                chk(out, a.as_ref().ok() == b.as_ref().ok(), "iter_scanner_scan_name_differs_from_str", &case, &format!("{:?} vs from_str {:?}", a, b));
            }
            _ => chk(out, false, "iter_scanner_sname_panics", &case, ""),
        }
    }
}

fn scan_kind2(msg: &str) -> &'static str {
    let m = msg.to_ascii_lowercase();
    if m.contains("bad symbol") { "BadSymbol" } else if m.contains("non-ascii") { "NonAscii" } else if m.contains("short buffer") { "ShortBuf" } else { scan_kind(msg) }
}

// ------------------------------------------------ the serde submodules (oracle only)

macro_rules! serde_wrap { ($name:ident, $m:path) => {
    struct $name(Vec<u8>);
    impl serde::Serialize for $name {
        fn serialize<S: serde::Serializer>(&self, s: S) -> Result<S::Ok, S::Error> { { use $m as m; m::serialize(&self.0, s) } }
    }
    impl<'de> serde::Deserialize<'de> for $name {
        fn deserialize<D: serde::Deserializer<'de>>(d: D) -> Result<Self, D::Error> { { use $m as m; m::deserialize(d).map($name) } }
    }
}; }
serde_wrap!(S64, domain::utils::base64::serde);
serde_wrap!(S32, domain::utils::base32::serde);
serde_wrap!(S16, domain::utils::base16::serde);

fn serde_to_json(c: Codec, b: &[u8]) -> Result<Result<String, String>, String> {
    let b = b.to_vec();
    catch(move || match c {
        B64 => serde_json::to_string(&S64(b)).map_err(|e| e.to_string()),
        B32 => serde_json::to_string(&S32(b)).map_err(|e| e.to_string()),
        B16 => serde_json::to_string(&S16(b)).map_err(|e| e.to_string()),
    })
}
fn serde_from_json(c: Codec, j: &str) -> Result<Result<Vec<u8>, String>, String> {
    let j = j.to_string();
    catch(move || match c {
        B64 => serde_json::from_str::<S64>(&j).map(|x| x.0).map_err(|e| e.to_string()),
        B32 => serde_json::from_str::<S32>(&j).map(|x| x.0).map_err(|e| e.to_string()),
        B16 => serde_json::from_str::<S16>(&j).map(|x| x.0).map_err(|e| e.to_string()),
    })
}

/// A minimal non-human-readable serde format: a value is the octets handed to
/// serialize_bytes (newtype structs are transparent).
mod compact {
    use serde::de::Visitor;
    use serde::ser::{self, Impossible, Serialize};
    pub type Error = serde::de::value::Error;
    fn no<T>() -> Result<T, Error> { Err(ser::Error::custom("unsupported by the compact test format")) }
    pub struct Ser;
    impl ser::Serializer for Ser {
        type Ok = Vec<u8>;
        type Error = Error;
        type SerializeSeq = Impossible<Vec<u8>, Error>;
        type SerializeTuple = Impossible<Vec<u8>, Error>;
        type SerializeTupleStruct = Impossible<Vec<u8>, Error>;
        type SerializeTupleVariant = Impossible<Vec<u8>, Error>;
        type SerializeMap = Impossible<Vec<u8>, Error>;
        type SerializeStruct = Impossible<Vec<u8>, Error>;
        type SerializeStructVariant = Impossible<Vec<u8>, Error>;
        fn is_human_readable(&self) -> bool { false }
        fn serialize_bytes(self, v: &[u8]) -> Result<Vec<u8>, Error> { Ok(v.to_vec()) }
        fn serialize_newtype_struct<T: ?Sized + Serialize>(self, _n: &'static str, v: &T) -> Result<Vec<u8>, Error> { v.serialize(self) }
        fn serialize_bool(self, _: bool) -> Result<Vec<u8>, Error> { no() }
        fn serialize_i8(self, _: i8) -> Result<Vec<u8>, Error> { no() }
        fn serialize_i16(self, _: i16) -> Result<Vec<u8>, Error> { no() }
        fn serialize_i32(self, _: i32) -> Result<Vec<u8>, Error> { no() }
        fn serialize_i64(self, _: i64) -> Result<Vec<u8>, Error> { no() }
        fn serialize_u8(self, _: u8) -> Result<Vec<u8>, Error> { no() }
        fn serialize_u16(self, _: u16) -> Result<Vec<u8>, Error> { no() }
        fn serialize_u32(self, _: u32) -> Result<Vec<u8>, Error> { no() }
        fn serialize_u64(self, _: u64) -> Result<Vec<u8>, Error> { no() }
        fn serialize_f32(self, _: f32) -> Result<Vec<u8>, Error> { no() }
        fn serialize_f64(self, _: f64) -> Result<Vec<u8>, Error> { no() }
        fn serialize_char(self, _: char) -> Result<Vec<u8>, Error> { no() }
        fn serialize_str(self, _: &str) -> Result<Vec<u8>, Error> { no() }
        fn serialize_none(self) -> Result<Vec<u8>, Error> { no() }
        fn serialize_some<T: ?Sized + Serialize>(self, _: &T) -> Result<Vec<u8>, Error> { no() }
        fn serialize_unit(self) -> Result<Vec<u8>, Error> { no() }
        fn serialize_unit_struct(self, _: &'static str) -> Result<Vec<u8>, Error> { no() }
        fn serialize_unit_variant(self, _: &'static str, _: u32, _: &'static str) -> Result<Vec<u8>, Error> { no() }
        fn serialize_newtype_variant<T: ?Sized + Serialize>(self, _: &'static str, _: u32, _: &'static str, _: &T) -> Result<Vec<u8>, Error> { no() }
        fn serialize_seq(self, _: Option<usize>) -> Result<Self::SerializeSeq, Error> { no() }
        fn serialize_tuple(self, _: usize) -> Result<Self::SerializeTuple, Error> { no() }
        fn serialize_tuple_struct(self, _: &'static str, _: usize) -> Result<Self::SerializeTupleStruct, Error> { no() }
        fn serialize_tuple_variant(self, _: &'static str, _: u32, _: &'static str, _: usize) -> Result<Self::SerializeTupleVariant, Error> { no() }
        fn serialize_map(self, _: Option<usize>) -> Result<Self::SerializeMap, Error> { no() }
        fn serialize_struct(self, _: &'static str, _: usize) -> Result<Self::SerializeStruct, Error> { no() }
        fn serialize_struct_variant(self, _: &'static str, _: u32, _: &'static str, _: usize) -> Result<Self::SerializeStructVariant, Error> { no() }
    }
    pub struct De(pub Vec<u8>);
    impl<'de> serde::Deserializer<'de> for De {
        type Error = Error;
        fn is_human_readable(&self) -> bool { false }
        fn deserialize_any<V: Visitor<'de>>(self, v: V) -> Result<V::Value, Error> { v.visit_byte_buf(self.0) }
        fn deserialize_newtype_struct<V: Visitor<'de>>(self, _n: &'static str, v: V) -> Result<V::Value, Error> { v.visit_newtype_struct(self) }
        serde::forward_to_deserialize_any! {
            bool i8 i16 i32 i64 u8 u16 u32 u64 f32 f64 char str string bytes byte_buf option unit
            unit_struct seq tuple tuple_struct map struct enum identifier ignored_any
        }
    }
}

fn res_obs(r: &Result<Result<Vec<u8>, String>, String>) -> String {
    match r { Err(_) => "Panic".into(), Ok(Ok(v)) => format!("Ok {}", hex(v)), Ok(Err(_)) => "Err".into() }
}

/// serde helpers of the codecs: human-readable (JSON) and compact
fn t2_serde_octets(out: &mut Out, c: Codec, b: &[u8]) {
    let p = c.pfx();
    // JSON: the RFC 4648 text as a string
    let case = format!("serj{} {}", c.tag(), hex(b));
    out.begin(&case);
    let j = serde_to_json(c, b);
    let want = format!("\"{}\"", ref_encode(c, b));
    let obs = match &j { Err(_) => "Panic".to_string(), Ok(Err(_)) => "Err".into(),
        Ok(Ok(t)) => { let inner: Vec<char> = t.trim_matches('"').chars().collect(); format!("Ok {}", cps(&inner)) } };
    out.case(&case, &obs, !b.is_empty(), &format!("serj{}", c.tag()));
    match j {
        Err(e) => chk(out, false, &format!("{}_serde_panics", p), &case, &e),
        Ok(j) => {
            chk(out, j.as_deref() == Ok(want.as_str()), &format!("{}_serde_serialize", p), &case, &format!("{:?} vs {}", j, want));
            if let Ok(j) = j {
                match serde_from_json(c, &j) {
                    Err(e) => chk(out, false, &format!("{}_serde_panics", p), &case, &e),
                    Ok(back) => chk(out, back.as_deref() == Ok(b), &format!("{}_serde_roundtrip", p), &case, &format!("{:?}", back.map(|v| v.len()))),
                }
            }
        }
    }
    // compact: the octets themselves, both ways
    let case = format!("serc{} {}", c.tag(), hex(b));
    out.begin(&case);
    let bb = b.to_vec();
    let r = catch(move || match c {
        B64 => serde::Serialize::serialize(&S64(bb), compact::Ser).map_err(|e| e.to_string()),
        B32 => serde::Serialize::serialize(&S32(bb), compact::Ser).map_err(|e| e.to_string()),
        B16 => serde::Serialize::serialize(&S16(bb), compact::Ser).map_err(|e| e.to_string()),
    });
    out.case(&case, &res_obs(&r), !b.is_empty(), &format!("serc{}", c.tag()));
    chk(out, matches!(&r, Ok(Ok(v)) if v.as_slice() == b), &format!("{}_serde_compact_serialize", p), &case, &res_obs(&r));
    let case = format!("sercd{} {}", c.tag(), hex(b));
    out.begin(&case);
    let bb = b.to_vec();
    let r = catch(move || match c {
        B64 => <S64 as serde::Deserialize>::deserialize(compact::De(bb)).map(|x| x.0).map_err(|e| e.to_string()),
        B32 => <S32 as serde::Deserialize>::deserialize(compact::De(bb)).map(|x| x.0).map_err(|e| e.to_string()),
        B16 => <S16 as serde::Deserialize>::deserialize(compact::De(bb)).map(|x| x.0).map_err(|e| e.to_string()),
    });
    out.case(&case, &res_obs(&r), !b.is_empty(), &format!("sercd{}", c.tag()));
    chk(out, matches!(&r, Ok(Ok(v)) if v.as_slice() == b), &format!("{}_serde_compact_deserialize", p), &case, &res_obs(&r));
}

/// deserializing a JSON string accepts exactly what `decode` accepts
fn t2_serde_text(out: &mut Out, c: Codec, s: &[char]) {
    let case = format!("serjd{} {}", c.tag(), cps(s));
    out.begin(&case);
    let p = c.pfx();
    let j = serde_json::to_string(&text_of(s)).unwrap();
    let want = ref_decode(c, s);
    let r = serde_from_json(c, &j);
    out.case(&case, &res_obs(&r), !s.is_empty(), &format!("serjd{}", c.tag()));
    match r {
        Err(e) => chk(out, false, &format!("{}_serde_panics", p), &case, &e),
        Ok(r) => {
            chk(out, r.as_ref().ok() == want.as_ref(), &format!("{}_serde_deserialize", p), &case, &format!("{:?} vs reference {:?}", r, want));
            // every text entry point of the codec agrees: decode, SymbolConverter, serde
            let d = imp_decode(c, s);
            chk(out, matches!(&d, Ok(x) if x.as_ref().ok() == r.as_ref().ok()), &format!("{}_entry_points_disagree", p), &case, &format!("serde {:?} vs decode {:?}", r, d));
        }
    }
}

/// Nsec3Salt / OwnerHash through serde: JSON = Display / FromStr, compact = octets (limit 255)
fn t2_nsec3_serde_octets(out: &mut Out, b: &[u8]) {
    for salt in [true, false] {
        let tag = if salt { "salt" } else { "hash" };
        let bb = b.to_vec();
        // compact deserialize: the only way to get octets in; must enforce the limit
        let case = format!("{}cd {}", tag, hex(b));
        out.begin(&case);
        let r = catch(move || if salt { <Nsec3Salt<Vec<u8>> as serde::Deserialize>::deserialize(compact::De(bb)).map(|x| x.as_slice().to_vec()).map_err(|e| e.to_string()) }
                              else { <OwnerHash<Vec<u8>> as serde::Deserialize>::deserialize(compact::De(bb)).map(|x| x.as_slice().to_vec()).map_err(|e| e.to_string()) });
        out.case(&case, &res_obs(&r), !b.is_empty(), &format!("{}cd", tag));
        let want: Option<&[u8]> = if b.len() <= 255 { Some(b) } else { None };
        chk(out, matches!(&r, Ok(x) if x.as_deref().ok() == want), &format!("nsec3_{}_serde_compact", tag), &case, &res_obs(&r));
        if b.len() > 255 { continue; }
        // JSON: the presentation format
        let case = format!("{}j {}", tag, hex(b));
        out.begin(&case);
        let bb = b.to_vec();
        let j = catch(move || if salt { serde_json::to_string(&Nsec3Salt::from_octets(bb).unwrap()).map_err(|e| e.to_string()) }
                              else { serde_json::to_string(&OwnerHash::from_octets(bb).unwrap()).map_err(|e| e.to_string()) });
        let want = if salt && b.is_empty() { "\"-\"".to_string() } else { format!("\"{}\"", ref_encode(if salt { B16 } else { B32 }, b)) };
        let obs = match &j { Ok(Ok(t)) => { let inner: Vec<char> = t.trim_matches('"').chars().collect(); format!("Ok {}", cps(&inner)) } Ok(Err(_)) => "Err".into(), Err(_) => "Panic".into() };
        out.case(&case, &obs, !b.is_empty(), &format!("{}j", tag));
        chk(out, matches!(&j, Ok(Ok(t)) if *t == want), &format!("nsec3_{}_serde_json", tag), &case, &format!("{:?} vs {}", j, want));
        // compact serialize = the octets
        let case = format!("{}c {}", tag, hex(b));
        out.begin(&case);
        let bb = b.to_vec();
        let r = catch(move || if salt { serde::Serialize::serialize(&Nsec3Salt::from_octets(bb).unwrap(), compact::Ser).map_err(|e| e.to_string()) }
                              else { serde::Serialize::serialize(&OwnerHash::from_octets(bb).unwrap(), compact::Ser).map_err(|e| e.to_string()) });
        out.case(&case, &res_obs(&r), !b.is_empty(), &format!("{}c", tag));
        chk(out, matches!(&r, Ok(Ok(v)) if v.as_slice() == b), &format!("nsec3_{}_serde_compact", tag), &case, &res_obs(&r));
    }
}

/// JSON string -> Nsec3Salt / OwnerHash must be FromStr
fn t2_nsec3_serde_text(out: &mut Out, salt: bool, s: &[char]) {
    let tag = if salt { "salt" } else { "hash" };
    let case = format!("{}jd {}", tag, cps(s));
    out.begin(&case);
    let t = text_of(s);
    let j = serde_json::to_string(&t).unwrap();
    let r = catch(move || if salt { serde_json::from_str::<Nsec3Salt<Vec<u8>>>(&j).map(|x| x.as_slice().to_vec()).map_err(|e| e.to_string()) }
                          else { serde_json::from_str::<OwnerHash<Vec<u8>>>(&j).map(|x| x.as_slice().to_vec()).map_err(|e| e.to_string()) });
    out.case(&case, &res_obs(&r), !s.is_empty(), &format!("{}jd", tag));
    let t2 = text_of(s);
    let f: Option<Vec<u8>> = if salt { Nsec3Salt::<Vec<u8>>::from_str(&t2).ok().map(|x| x.as_slice().to_vec()) } else { OwnerHash::<Vec<u8>>::from_str(&t2).ok().map(|x| x.as_slice().to_vec()) };
    chk(out, matches!(&r, Ok(x) if x.as_ref().ok() == f.as_ref()), &format!("nsec3_{}_entry_points_disagree", tag), &case, &format!("serde {} vs from_str {:?}", res_obs(&r), f.as_ref().map(|v| v.len())));
}

// ------------------------------------- independent RFC 4648 reference (bits)

const A64: &[u8; 64] = b"ABCDEFGHIJKLMNOPQRSTUVWXYZabcdefghijklmnopqrstuvwxyz0123456789+/";
const A32: &[u8; 32] = b"0123456789ABCDEFGHIJKLMNOPQRSTUV";
const A16: &[u8; 16] = b"0123456789ABCDEF";

fn bits_of(b: &[u8]) -> Vec<bool> {
    let mut v = Vec::with_capacity(b.len() * 8);
    for x in b { for k in (0..8).rev() { v.push((x >> k) & 1 == 1); } }
    v
}

/// RFC 4648: regroup the bit string into k-bit groups (last one zero padded),
/// map through the alphabet; Base64 pads the text with `=` to a multiple of 4.
/// Base32hex as used in the DNS (RFC 5155) is written without padding.
fn ref_encode(c: Codec, b: &[u8]) -> String {
    let (k, alpha): (usize, &[u8]) = match c { B64 => (6, A64), B32 => (5, A32), B16 => (4, A16) };
    let bits = bits_of(b);
    let mut s = String::new();
    let mut i = 0;
    while i < bits.len() {
        let mut v = 0usize;
        for j in 0..k { v = v * 2 + if i + j < bits.len() && bits[i + j] { 1 } else { 0 }; }
        s.push(alpha[v] as char);
        i += k;
    }
    if c == B64 { while s.len() % 4 != 0 { s.push('='); } }
    s
}

fn ref_value(c: Codec, ch: char) -> Option<u8> {
    if !ch.is_ascii() { return None; }
    let u = ch as u8;
    match c {
        B64 => A64.iter().position(|x| *x == u).map(|p| p as u8),
        B32 => A32.iter().position(|x| *x == u.to_ascii_uppercase()).map(|p| p as u8),
        B16 => A16.iter().position(|x| *x == u.to_ascii_uppercase()).map(|p| p as u8),
    }
}

/// Well-formed text per RFC 4648 (trailing bits not required to be zero, see
/// section 3.5; DESIGN.md records this reading): Some(octets) iff well-formed.
fn ref_decode(c: Codec, s: &[char]) -> Option<Vec<u8>> {
    let mut data: &[char] = s;
    let k = match c {
        B64 => {
            if s.len() % 4 != 0 { return None; }
            let mut pads = 0;
            while pads < 2 && data.last() == Some(&'=') { data = &data[..data.len() - 1]; pads += 1; }
            6
        }
        B32 => { if ![0, 2, 4, 5, 7].contains(&(s.len() % 8)) { return None; } 5 }
        B16 => { if s.len() % 2 != 0 { return None; } 4 }
    };
    let mut bits = vec![];
    for ch in data {
        let v = ref_value(c, *ch)?;
        for j in (0..k).rev() { bits.push((v >> j) & 1 == 1); }
    }
    let n = bits.len() / 8;
    Some((0..n).map(|i| (0..8).fold(0u8, |a, j| a * 2 + bits[i * 8 + j] as u8)).collect())
}

// ------------------------------------------------------------------- oracle

/// Per-class cap on reported failures, so that one frequent class cannot push
/// another one beyond the shared 200-line limit of oracle.txt.
static FAILS: std::sync::Mutex<std::collections::BTreeMap<String, u64>> = std::sync::Mutex::new(std::collections::BTreeMap::new());
const PER_CLASS: u64 = 12;
fn chk(out: &mut Out, ok: bool, class: &str, case: &str, detail: &str) {
    if !ok {
        let mut f = FAILS.lock().unwrap();
        let n = f.entry(class.to_string()).or_insert(0);
        *n += 1;
        if *n > PER_CLASS { out.oracle_checks += 1; out.oracle_fail += 1; return; }
    }
    out.check(ok, class, case, detail);
}

fn t2_enc(out: &mut Out, c: Codec, b: &[u8], record: bool) {
    let case = format!("enc{} {}", c.tag(), hex(b));
    out.begin(&case);
    let r = imp_encode(c, b);
    if record {
        let obs = match &r { Ok(s) => format!("Ok {}", cps(&s.chars().collect::<Vec<_>>())), Err(_) => "Panic".into() };
        out.case(&case, &obs, !b.is_empty(), &format!("enc{}", c.tag()));
    } else {
        out.oracle_case(&case, !b.is_empty(), &format!("enc{}_oracle_only", c.tag()));
    }
    let p = c.pfx();
    match r {
        Err(e) => chk(out, false, &format!("{}_encode_panics", p), &case, &e),
        Ok(s) => {
            let want = ref_encode(c, b);
            chk(out, s == want, &format!("{}_encode_rfc4648", p), &case, &format!("got {} want {}", s, want));
            let d = imp_encode_display(c, b);
            chk(out, d.as_deref() == Ok(s.as_str()), &format!("{}_display_differs", p), &case, &format!("{:?}", d));
            if record {
                // the encode_display / display(fmt::Write) route is a T2 case of its own
                let dcase = format!("encd{} {}", c.tag(), hex(b));
                let obs = match &d { Ok(t) => format!("Ok {}", cps(&t.chars().collect::<Vec<_>>())), Err(_) => "Panic".into() };
                out.case(&dcase, &obs, !b.is_empty(), &format!("encd{}", c.tag()));
            }
            if record {
                let bb = b.to_vec();
                let f = catch(move || { let mut t = String::new(); let r = match c { B64 => base64::display(&bb, &mut t), B32 => base32::display_hex(&bb, &mut t), B16 => base16::display(&bb, &mut t) }; (r.is_ok(), t) });
                let fcase = format!("encf{} {}", c.tag(), hex(b));
                let obs = match &f { Ok((true, t)) => format!("Ok {}", cps(&t.chars().collect::<Vec<_>>())), Ok((false, _)) => "Err".into(), Err(_) => "Panic".into() };
                out.case(&fcase, &obs, !b.is_empty(), &format!("encf{}", c.tag()));
                chk(out, matches!(&f, Ok((true, t)) if *t == s), &format!("{}_display_differs", p), &fcase, "display into a String differs from encode_string");
            }
            if c == B16 {
                let t = s.clone();
                let v = catch(move || base16::decode_vec(&t));
                chk(out, matches!(&v, Ok(Ok(x)) if x.as_slice() == b), "b16_decode_vec_differs", &case, &format!("{:?}", v));
            }
            let chars: Vec<char> = s.chars().collect();
            match imp_decode(c, &chars) {
                Err(e) => chk(out, false, &format!("{}_decode_panics", p), &case, &e),
                Ok(r) => chk(out, r.as_deref() == Ok(b), &format!("{}_roundtrip", p), &case, &format!("decode(encode(x)) = {:?}", r)),
            }
            // the scanner-side converter must give the same octets
            match imp_conv(c, &[chars.clone()]) {
                Err(e) => chk(out, false, &format!("{}_converter_panics", p), &case, &e),
                Ok(r) => chk(out, r.as_deref() == Ok(b), &format!("{}_converter_roundtrip", p), &case, &format!("{:?}", r)),
            }
            // lower-case text decodes to the same octets (Base16 / Base32hex)
            if c != B64 {
                let lower: Vec<char> = chars.iter().map(|x| x.to_ascii_lowercase()).collect();
                match imp_decode(c, &lower) {
                    Err(e) => chk(out, false, &format!("{}_decode_panics", p), &case, &e),
                    Ok(r) => chk(out, r.as_deref() == Ok(b), &format!("{}_case_insensitive", p), &case, &format!("{:?}", r)),
                }
            }
        }
    }
}

fn in_alphabet(c: Codec, ch: char) -> bool { ref_value(c, ch).is_some() }

fn t2_dec(out: &mut Out, c: Codec, s: &[char]) {
    let case = format!("dec{} {}", c.tag(), cps(s));
    out.begin(&case);
    let r = imp_decode(c, s);
    let obs = match &r { Err(_) => "Panic".to_string(), Ok(Ok(v)) => format!("Ok {}", hex(v)), Ok(Err(e)) => format!("Err {}", kind(e)) };
    out.case(&case, &obs, !s.is_empty(), &format!("dec{}", c.tag()));
    let p = c.pfx();
    match r {
        Err(e) => chk(out, false, &format!("{}_decode_panics", p), &case, &e),
        Ok(r) => {
            let want = ref_decode(c, s);
            let same = match (&r, &want) { (Ok(v), Some(w)) => v == w, (Err(_), None) => true, _ => false };
            chk(out, same, &format!("{}_accepts_iff_wellformed", p), &case, &format!("impl {:?} reference {:?}", r, want));
            let foreign = s.iter().any(|ch| !in_alphabet(c, *ch) && !(c == B64 && *ch == '='));
            if foreign {
                chk(out, r.is_err(), &format!("{}_accepts_non_alphabet", p), &case, &format!("{:?}", r));
            }
            if let Ok(v) = &r {
                // what was accepted re-encodes to text that decodes to the same octets
                if let Ok(t) = imp_encode(c, v) {
                    let t: Vec<char> = t.chars().collect();
                    let again = imp_decode(c, &t);
                    chk(out, matches!(&again, Ok(Ok(w)) if w == v), &format!("{}_roundtrip", p), &case, "re-encode/decode of accepted octets differs");
                }
            }
            // every other front end that does the same job must give the same answer on
            // the same text (well-formed or not): convenience wrappers, the scanner-side
            // converter, the serde helper
            if c == B16 {
                let t = text_of(s);
                let v = catch(move || base16::decode_vec(&t));
                let vcase = format!("decv16 {}", cps(s));
                let obs = match &v { Err(_) => "Panic".to_string(), Ok(Ok(x)) => format!("Ok {}", hex(x)), Ok(Err(e)) => format!("Err {}", kind(e)) };
                out.case(&vcase, &obs, !s.is_empty(), "decv16");
                chk(out, matches!(&v, Ok(x) if *x == r), "b16_decode_vec_differs", &vcase, &format!("decode_vec {:?} vs decode {:?}", v, r));
            }
            let cv = imp_conv(c, &[s.to_vec()]);
            chk(out, matches!(&cv, Ok(x) if x.as_ref().ok() == r.as_ref().ok()), &format!("{}_converter_differs_from_decode", p), &case, &format!("converter {:?} vs decode {:?}", cv, r));
            let j = serde_json::to_string(&text_of(s)).unwrap();
            let sv = serde_from_json(c, &j);
            chk(out, matches!(&sv, Ok(x) if x.as_ref().ok() == r.as_ref().ok()), &format!("{}_entry_points_disagree", p), &case, &format!("serde {:?} vs decode {:?}", sv, r));
        }
    }
}

fn t2_push(out: &mut Out, c: Codec, s: &[char]) {
    let case = format!("push{} {}", c.tag(), cps(s));
    out.begin(&case);
    let run = imp_push_all(c, s);
    out.case(&case, &obs_push(&run), !s.is_empty(), &format!("push{}", c.tag()));
    let p = c.pfx();
    let first_err = run.trace.iter().position(|x| x.is_some());
    // never a panic, whatever is pushed
    if let Some(i) = run.panicked_at {
        let cls = if first_err.is_some() { format!("{}_push_after_error_panics", p) } else { format!("{}_push_panics", p) };
        chk(out, false, &cls, &case, &format!("push #{} panicked; earlier results {}", i, obs_push(&run)));
        return;
    }
    chk(out, true, &format!("{}_push_panics", p), &case, "");
    if run.fin.is_none() {
        chk(out, false, &format!("{}_finalize_panics", p), &case, "");
        return;
    }
    let fin = run.fin.clone().unwrap();
    match first_err {
        Some(i) => {
            // errors are sticky: every later push reports an error and finalize fails
            let later_ok = run.trace[i + 1..].iter().any(|x| x.is_none());
            let illegal = matches!(run.trace[i], Some(DecodeError::IllegalChar(_)));
            let cls = if illegal { format!("{}_illegal_char_not_sticky", p) } else { format!("{}_error_not_sticky", p) };
            chk(out, !later_ok && fin.is_err(), &cls, &case,
                &format!("push #{} failed but {}: {}", i, if fin.is_ok() { "finalize succeeded" } else { "a later push returned Ok" }, obs_push(&run)));
        }
        None => {
            // without errors the per-push API is `decode`
            let d = imp_decode(c, s);
            chk(out, matches!(&d, Ok(x) if *x == fin), &format!("{}_push_differs_from_decode", p), &case, &format!("{:?} vs {:?}", d, fin));
        }
    }
    // whatever the route, octets are only ever produced for well-formed text
    if let Ok(v) = &fin {
        let want = ref_decode(c, s);
        if first_err.is_none() {
            chk(out, want.as_ref() == Some(v), &format!("{}_accepts_iff_wellformed", p), &case, &format!("push/finalize {:?} reference {:?}", v, want));
        }
    }
}

fn t2_conv(out: &mut Out, c: Codec, chunks: &[Vec<char>]) {
    let mut case = format!("conv{}", c.tag());
    for ck in chunks { case.push(' '); case.push_str(&cps(ck)); }
    out.begin(&case);
    let r = imp_conv(c, chunks);
    let obs = match &r { Err(_) => "Panic".to_string(), Ok(Ok(v)) => format!("Ok {}", hex(v)), Ok(Err(k)) => format!("Err {}", k) };
    let whole: Vec<char> = chunks.iter().flatten().copied().collect();
    out.case(&case, &obs, !whole.is_empty(), &format!("conv{}", c.tag()));
    let p = c.pfx();
    match r {
        Err(e) => chk(out, false, &format!("{}_converter_panics", p), &case, &e),
        Ok(r) => {
            // the split into tokens does not matter
            let one = imp_conv(c, &[whole.clone()]);
            chk(out, matches!(&one, Ok(x) if *x == r), &format!("{}_chunk_dependent", p), &case, &format!("{:?} vs unsplit {:?}", r, one));
            // and the converter accepts exactly what `decode` accepts, same octets
            let d = imp_decode(c, &whole);
            let same = match (&r, &d) { (Ok(v), Ok(Ok(w))) => v == w, (Err(_), Ok(Err(_))) => true, _ => false };
            chk(out, same, &format!("{}_converter_differs_from_decode", p), &case, &format!("{:?} vs decode {:?}", r, d));
        }
    }
}

// --------------------------------------------------------------- generators

const ODD: &[char] = &['=', ' ', '\t', '\n', '!', '-', '_', '.', ',', '*', '\u{0}', '\u{7f}', '\u{80}', '\u{e9}', '\u{ff}',
    '\u{100}', '\u{212a}', '\u{ff21}', '\u{661}', '\u{1f600}', '\u{10ffff}', '\\', '"'];

fn alphabet(c: Codec) -> Vec<char> {
    match c {
        B64 => A64.iter().map(|x| *x as char).collect(),
        B32 => A32.iter().flat_map(|x| [*x as char, (*x as char).to_ascii_lowercase()]).collect(),
        B16 => A16.iter().flat_map(|x| [*x as char, (*x as char).to_ascii_lowercase()]).collect(),
    }
}
/// Characters next to the alphabet's ranges in code point order.
fn neighbours(c: Codec) -> Vec<char> {
    let al = alphabet(c);
    let mut v = vec![];
    for ch in &al {
        for d in [-1i32, 1] {
            if let Some(n) = char::from_u32((*ch as i32 + d) as u32) { if !al.contains(&n) && !v.contains(&n) { v.push(n); } }
        }
    }
    v
}

fn rand_char(r: &mut Rng, c: Codec, al: &[char], nb: &[char]) -> char {
    match r.below(20) {
        0 => *r.pick(nb),
        1 => *r.pick(ODD),
        2 => '=',
        3 => char::from_u32(r.below(0x250) as u32).unwrap_or('?'),
        4 => { let lo = *r.pick(al) as u32; char::from_u32(0x100 * (1 + r.below(0x10ff) as u32) + lo).unwrap_or('\u{141}') }
        _ => { let _ = c; *r.pick(al) }
    }
}

fn rand_text(r: &mut Rng, c: Codec, al: &[char], nb: &[char]) -> Vec<char> {
    match r.below(6) {
        // mutate a valid encoding
        0 | 1 | 2 => {
            let lim = if r.chance(1, 4) { 81 } else { 12 };
            let n = r.below(lim) as usize;
            let b = r.bytes(n);
            let mut t: Vec<char> = ref_encode(c, &b).chars().collect();
            if c != B64 && r.chance(1, 2) { t = t.iter().map(|x| if r.chance(1, 2) { x.to_ascii_lowercase() } else { *x }).collect(); }
            let muts = r.below(3);
            for _ in 0..muts {
                let pos = r.below(t.len() as u64 + 1) as usize;
                match r.below(7) {
                    0 => { if pos < t.len() { t[pos] = rand_char(r, c, al, nb); } }
                    1 => { t.insert(pos, rand_char(r, c, al, nb)); }
                    2 => { if pos < t.len() { t.remove(pos); } }
                    3 => { t.truncate(pos); }
                    4 => { t.push('='); }
                    5 => { t.push(*r.pick(al)); }
                    _ => {
                        // non-canonical trailing bits: change the last data character
                        if let Some(i) = t.iter().rposition(|x| *x != '=') { t[i] = *r.pick(al); }
                    }
                }
            }
            t
        }
        // padding positions
        3 => {
            let n = r.below(10) as usize;
            let mut t: Vec<char> = (0..n).map(|_| *r.pick(al)).collect();
            for _ in 0..r.below(4) { let pos = r.below(t.len() as u64 + 1) as usize; t.insert(pos, '='); }
            t
        }
        _ => {
            let n = r.below(14) as usize;
            (0..n).map(|_| rand_char(r, c, al, nb)).collect()
        }
    }
}

fn split(r: &mut Rng, s: &[char]) -> Vec<Vec<char>> {
    let k = r.below(5) as usize; // number of cuts
    let mut cuts: Vec<usize> = (0..k).map(|_| r.below(s.len() as u64 + 1) as usize).collect();
    cuts.sort();
    let mut v = vec![];
    let mut last = 0;
    for c in cuts { v.push(s[last..c].to_vec()); last = c; }
    v.push(s[last..].to_vec());
    v
}

fn exhaustive(sub: &[char], maxlen: usize, f: &mut dyn FnMut(&[char])) {
    let mut cur: Vec<char> = vec![];
    fn rec(sub: &[char], maxlen: usize, cur: &mut Vec<char>, f: &mut dyn FnMut(&[char])) {
        f(cur);
        if cur.len() == maxlen { return; }
        for ch in sub { cur.push(*ch); rec(sub, maxlen, cur, f); cur.pop(); }
    }
    rec(sub, maxlen, &mut cur, f);
}

fn chars(s: &str) -> Vec<char> { s.chars().collect() }

fn main() {
    let a = args();
    let mut out = Out::new(&a, "C18", 60);
    let mut r = Rng::new(a.seed);
    let codecs = [B64, B32, B16];
    let mut idx = 0u64;
    macro_rules! want { () => {{ idx += 1; out.wants(idx) }}; }

    // ---- corpus: RFC 4648 section 10 vectors, pinned-test literals, defect witnesses
    let vectors: &[&[u8]] = &[b"", b"f", b"fo", b"foo", b"foob", b"fooba", b"foobar", &[0xff, 0xff, 0xff], &[0, 0, 0, 0, 0], &[0xfb, 0xf0]];
    for c in codecs { for v in vectors { if want!() { t2_enc(&mut out, c, v, true); } } }
    let texts64 = ["", "Zg==", "Zm8=", "Zm9v", "Zm9vYg==", "FPucA", "FPucA=", "FPucAw=", "FPucAw=a", "FPucAw==a", "Zg=a", "Zg=ab", "Zg=a=",
        "!Zm9v", "Zm9v!", "Z!m9v", "=", "==", "A=", "A==", "AA=", "AA==", "AA=A", "AAA=", "AAA==", "AAAA=", "Zh==", "Zm9=", "Zg==Zg==", "Zg= =",
        "Zm 9v", "Zm9v\n", "\u{e9}Zm9v", "Zm9\u{212a}", "Zg==\u{e9}", "Zg=\u{e9}", "Zg=a!", "Zg=a\u{e9}b", "====", "Z===", "-_-_"];
    let texts32 = ["", "CO", "CPNG", "CPNMU", "CPNMUOG", "CPNMUOJ1", "CPNMUOJ1E8", "co", "cpnmuoj1e8", "C", "CPN", "CPNMUO", "CP", "CV", "CO======",
        "CPNMUOJ1=", "W0", "w0", "C!O", "!CO", "CO!", "C O", "\u{e9}CO", "C\u{212a}", "CPNMUOJ1!", "!", "!C", "VVVVVVVV", "VV", "00"];
    let texts16 = ["", "F0", "F00f", "f", "F0f", "0g", "g0", "0G", "0x10", "F 0", "F0\n", "\u{661}0", "0\u{ff21}", "1!", "1!2", "!12", "12!", "1\u{e9}2", "=", "00=", "aBcDeF"];
    for (c, ts) in [(B64, &texts64[..]), (B32, &texts32[..]), (B16, &texts16[..])] {
        for t in ts {
            let s = chars(t);
            if want!() { t2_dec(&mut out, c, &s); }
            if want!() { t2_push(&mut out, c, &s); }
            if want!() { t2_conv(&mut out, c, &[s.clone()]); }
            if s.len() >= 2 {
                if want!() { t2_conv(&mut out, c, &[s[..1].to_vec(), s[1..].to_vec()]); }
                if want!() { t2_conv(&mut out, c, &[vec![], s[..s.len() - 1].to_vec(), vec![], s[s.len() - 1..].to_vec()]); }
            }
        }
    }
    if want!() { t2_conv(&mut out, B64, &[]); }
    for (c, t) in [(B64, "Zm9vYmFy"), (B64, "Zm9vYg=="), (B64, "Zm9vYmE="), (B64, "Zm9vYg==Zg"), (B64, "Zm9v!"), (B32, "CPNMUOJ1E8"), (B32, "CPNMUOJ1"), (B32, "CPNMU!"), (B16, "F00F"), (B16, "F00F0"), (B16, "F0!F")] {
        for cap in 0..=7 { if want!() { t2_cap(&mut out, c, cap, &chars(t)); } }
    }

    // ---- all octet strings of length <= 2
    for c in codecs {
        if want!() { t2_enc(&mut out, c, &[], true); }
        for x in 0..=255u8 { if want!() { t2_enc(&mut out, c, &[x], true); } }
        for x in 0..=255u8 { for y in 0..=255u8 {
            let rec = a.thorough || ((x as u32 * 256 + y as u32) % 23 == 0);
            if want!() { t2_enc(&mut out, c, &[x, y], rec); }
        } }
    }
    // ---- three-octet groups: every pair of adjacent octets takes all values somewhere
    for c in codecs {
        for x in 0..=255u8 {
            let y = r.u8();
            if want!() { t2_enc(&mut out, c, &[x, y, !x], true); }
            if want!() { t2_enc(&mut out, c, &[y, x, x.wrapping_mul(7), y ^ x, x], true); }
        }
    }
    // ---- random octet strings up to 80
    let n_rand = if a.thorough { 20_000 } else { 1_500 } * a.scale;
    for c in codecs {
        for i in 0..n_rand {
            let n = if i % 3 == 0 { r.below(81) } else { r.below(12) } as usize;
            let b = match r.below(8) { 0 => vec![0u8; n], 1 => vec![0xffu8; n], _ => r.bytes(n) };
            if want!() { t2_enc(&mut out, c, &b, true); }
        }
    }
    // ---- exhaustive short texts over a small sub-alphabet (decode, push API, converter)
    let subs: [(Codec, Vec<char>); 3] = [
        (B64, vec!['A', 'g', '/', '=', '!', '\u{e9}']),
        (B32, vec!['0', 'V', 'c', 'W', '=', '\u{e9}']),
        (B16, vec!['0', 'f', 'A', 'g', ' ', '\u{e9}']),
    ];
    for (c, sub) in &subs {
        let maxlen = if a.thorough { 6 } else { 5 };
        let mut all: Vec<Vec<char>> = vec![];
        exhaustive(sub, maxlen, &mut |s| all.push(s.to_vec()));
        for s in &all {
            if want!() { t2_dec(&mut out, *c, s); }
            if want!() { t2_push(&mut out, *c, s); }
            if s.len() >= 4 || s.len() <= 1 {
                let k = s.len() / 2;
                if want!() { t2_conv(&mut out, *c, &[s[..k].to_vec(), s[k..].to_vec()]); }
            }
        }
    }
    // base64: all positions of up to three '=' in texts of length <= 9 over {A, g}
    {
        let maxlen = if a.thorough { 10 } else { 9 };
        for len in 0..=maxlen {
            for mask in 0u32..(1 << len) {
                if mask.count_ones() > 3 { continue; }
                let s: Vec<char> = (0..len).map(|i| if mask >> i & 1 == 1 { '=' } else if i % 2 == 0 { 'A' } else { 'g' }).collect();
                if want!() { t2_dec(&mut out, B64, &s); }
                if want!() { t2_push(&mut out, B64, &s); }
            }
        }
    }
    // ---- every single code point below 0x180 (alphabet membership, neighbours, non-ASCII)
    for c in codecs {
        for cp in 0..0x180u32 {
            let ch = char::from_u32(cp).unwrap();
            let base: Vec<char> = match c { B64 => chars("AAA"), B32 => chars("0"), B16 => chars("0") };
            let mut s = base.clone(); s.push(ch);
            if want!() { t2_dec(&mut out, c, &s); }
            let mut s2 = vec![ch]; s2.extend(base.iter());
            if want!() { t2_push(&mut out, c, &s2); }
            if cp % 3 == 0 { if want!() { t2_conv(&mut out, c, &[base.clone(), vec![ch]]); } }
        }
    }
    // ---- every value of the last data character (non-canonical trailing bits), every tail length
    for c in codecs {
        let al = alphabet(c);
        let lens: &[usize] = match c { B64 => &[1, 2, 4, 5], B32 => &[1, 2, 3, 4, 6, 7, 9], B16 => &[1, 2] };
        for n in lens {
            let b = r.bytes(*n);
            let t: Vec<char> = ref_encode(c, &b).chars().collect();
            let last = t.iter().rposition(|x| *x != '=').unwrap();
            for ch in &al {
                let mut u = t.clone(); u[last] = *ch;
                if want!() { t2_dec(&mut out, c, &u); }
                if want!() { t2_conv(&mut out, c, &[u[..last].to_vec(), u[last..].to_vec()]); }
            }
        }
    }
    // ---- one character of a valid text replaced / removed / doubled, at every position
    for c in codecs {
        for n in 0..=11usize {
            let b = r.bytes(n);
            let t: Vec<char> = ref_encode(c, &b).chars().collect();
            for pos in 0..t.len() {
                for bad in ['=', '!', ' ', '\u{e9}', '-', 'g', 'W', '/'] {
                    let mut u = t.clone(); u[pos] = bad;
                    if want!() { t2_dec(&mut out, c, &u); }
                    if pos % 3 == 0 { if want!() { t2_push(&mut out, c, &u); } }
                }
                let mut u = t.clone(); u.remove(pos);
                if want!() { t2_dec(&mut out, c, &u); }
                let mut u = t.clone(); u.insert(pos, t[pos]);
                if want!() { t2_dec(&mut out, c, &u); }
                if want!() { t2_scan(&mut out, c, &[u[..pos].to_vec(), u[pos..].to_vec()], true); }
            }
        }
    }
    // ---- bounded builders: capacities around the decoded length, all group remainders
    for c in codecs {
        let al = alphabet(c);
        let nb = neighbours(c);
        for n in 0..=MAX_CAP + 1 {
            for rep in 0..3 {
                let b = r.bytes(n);
                let mut t: Vec<char> = ref_encode(c, &b).chars().collect();
                if rep == 2 && !t.is_empty() { let pos = r.below(t.len() as u64) as usize; t[pos] = rand_char(&mut r, c, &al, &nb); }
                for cap in n.saturating_sub(3)..=(n + 1).min(MAX_CAP) {
                    if want!() { t2_cap(&mut out, c, cap, &t); }
                }
            }
        }
        // texts followed by more input after the builder is full
        for _ in 0..(if a.thorough { 4000 } else { 400 } * a.scale) {
            let s = rand_text(&mut r, c, &al, &nb);
            let cap = r.below(6) as usize;
            if want!() { t2_cap(&mut out, c, cap, &s); }
        }
    }
    for (c, sub) in &subs {
        let mut all: Vec<Vec<char>> = vec![];
        exhaustive(&sub[..4], if a.thorough { 6 } else { 5 }, &mut |s| all.push(s.to_vec()));
        for s in &all { for cap in 0..3 { if want!() { t2_cap(&mut out, *c, cap, s); } } }
    }
    // ---- users: NSEC3 salt / owner hash (all lengths around the 255 limit) and IterScanner
    for n in (0..=6usize).chain([20, 32, 64, 127, 128, 200, 254, 255, 256, 257, 300, 320]) {
        let b = if n % 2 == 0 { r.bytes(n) } else { vec![0xffu8; n] };
        if want!() { t2_salt_display(&mut out, &b); }
        if want!() { t2_hash_display(&mut out, &b); }
        let t16: Vec<char> = ref_encode(B16, &b).chars().collect();
        let t32: Vec<char> = ref_encode(B32, &b).chars().collect();
        if want!() { t2_salt(&mut out, &t16); }
        if want!() { t2_hash(&mut out, &t32); }
        if want!() { t2_hash(&mut out, &t32.iter().map(|c| c.to_ascii_lowercase()).collect::<Vec<_>>()); }
    }
    for t in ["-", "", "--", "-0A", "0A-", "\\-", "\\-0", "F0\\", "F0\\9", "F00F\\300", "\\F0", "F\\048", "f0", "F", "F0 ", "\\045", "G0"] {
        if want!() { t2_salt(&mut out, &chars(t)); }
    }
    for t in ["", "CO", "co", "C", "CO\\", "CO\\9", "C\\O", "C\\079", "CW", "CO=", "\\CO"] {
        if want!() { t2_hash(&mut out, &chars(t)); }
    }
    {
        let n_u = if a.thorough { 6000 } else { 600 } * a.scale;
        let (al16, nb16) = (alphabet(B16), neighbours(B16));
        let (al32, nb32) = (alphabet(B32), neighbours(B32));
        for i in 0..n_u {
            let s = rand_text(&mut r, B16, &al16, &nb16);
            let s = if i % 3 == 0 { escape_some(&mut r, &s) } else { s };
            if want!() { t2_salt(&mut out, &s); }
            let s = rand_text(&mut r, B32, &al32, &nb32);
            let s = if i % 3 == 0 { escape_some(&mut r, &s) } else { s };
            if want!() { t2_hash(&mut out, &s); }
            let n = r.below(40) as usize;
            let b = r.bytes(n);
            if want!() { t2_salt_display(&mut out, &b); }
            if want!() { t2_hash_display(&mut out, &b); }
        }
        for c in codecs {
            let al = alphabet(c);
            let nb = neighbours(c);
            for i in 0..n_u {
                let s = rand_text(&mut r, c, &al, &nb);
                let mut toks = split(&mut r, &s);
                if i % 2 == 0 { toks = toks.iter().map(|t| escape_some(&mut r, t)).collect(); }
                // tokens never contain blanks in a zone file; keep them as they are for the str scanner
                if want!() { t2_scan(&mut out, c, &toks, true); }
                let one = if i % 2 == 0 { escape_some(&mut r, &s) } else { s.clone() };
                if want!() { t2_scan(&mut out, c, &[one], false); }
            }
        }
    }
    for (c, ts) in [(B64, &["Zm9v", "Zm9v\\", "Zm\\9v", "Zm9v\\300", "Z\\m9v", "Zm9\\118", "Zg\\=\\="][..]), (B32, &["CO", "CO\\", "C\\O", "CO\\25"][..]), (B16, &["F00F", "F00F\\", "F0\\0F", "F00F\\256", "F00\\070"][..])] {
        for t in ts {
            if want!() { t2_scan(&mut out, c, &[chars(t)], false); }
            if want!() { t2_scan(&mut out, c, &[chars(t), chars(t)], true); }
        }
    }
    // ---- display into writers with too little room (every room up to the full length)
    for c in codecs {
        for n in 0..=7usize {
            let b = r.bytes(n);
            let full = ref_encode(c, &b).len();
            for room in 0..=full + 1 { if want!() { t2_encw(&mut out, c, room, &b); } }
        }
        for _ in 0..(if a.thorough { 3000 } else { 300 } * a.scale) {
            let n = r.below(40) as usize; let b = r.bytes(n); let room = r.below(70) as usize;
            if want!() { t2_encw(&mut out, c, room, &b); }
        }
    }
    // ---- the other IterScanner methods: printable text, escapes (valid and malformed), limits
    {
        let printable: Vec<char> = (0x20u8..=0x7e).map(|x| x as char).collect();
        let fixed: Vec<Vec<&str>> = vec![vec![""], vec!["abc"], vec!["a\\.b"], vec!["a\\046b"], vec!["abc\\"], vec!["ab\\9"], vec!["ab\\256"], vec!["ab\\25x"],
            vec!["\\#"], vec!["\\#", "2", "abcd"], vec!["\u{e9}"], vec!["a\u{e9}b"], vec!["a\\\u{e9}"], vec!["a b"], vec!["\\032"], vec!["\\000\\255"], vec!["tab\t"],
            vec!["foo", "bar\\", "baz"], vec!["foo", "", "bar"], vec!["www.example.com."], vec!["www.exa\\mple.com"], vec!["www.example.com\\"], vec!["a..b"], vec!["."], vec!["\\."]];
        for f in &fixed { let t: Vec<Vec<char>> = f.iter().map(|x| chars(x)).collect(); if want!() { t2_scan_methods(&mut out, &t); } }
        for n in [254usize, 255, 256, 257, 300] {
            let t: Vec<char> = (0..n).map(|i| printable[(i * 7) % printable.len()]).filter(|c| *c != '\\').collect();
            let mut t = t; while t.len() < n { t.push('x'); }
            if want!() { t2_scan_methods(&mut out, &[t.clone()]); }
            if want!() { t2_scan_methods(&mut out, &[chars("ab"), t.clone(), chars("c")]); }
            // all of it as decimal escapes
            let e: Vec<char> = (0..n).flat_map(|i| format!("\\{:03}", (i * 3) % 256).chars().collect::<Vec<_>>()).collect();
            if want!() { t2_scan_methods(&mut out, &[e]); }
        }
        for i in 0..(if a.thorough { 8000 } else { 800 } * a.scale) {
            let k = r.below(4) as usize + 1;
            let mut toks: Vec<Vec<char>> = vec![];
            for _ in 0..k {
                let n = r.below(12) as usize;
                let t: Vec<char> = (0..n).map(|_| match r.below(14) { 0 => *r.pick(ODD), 1 => '.', _ => *r.pick(&printable) }).filter(|c| *c != '\\').collect();
                toks.push(if i % 2 == 0 { escape_some(&mut r, &t) } else { t });
            }
            if want!() { t2_scan_methods(&mut out, &toks); }
        }
    }
    // ---- serde helpers (human-readable serializer): octets of every small length, random texts
    for c in codecs {
        let al = alphabet(c);
        let nb = neighbours(c);
        for n in 0..=16usize { let b = r.bytes(n); if want!() { t2_serde_octets(&mut out, c, &b); } }
        for _ in 0..(if a.thorough { 3000 } else { 300 } * a.scale) {
            let n = r.below(60) as usize; let b = r.bytes(n);
            if want!() { t2_serde_octets(&mut out, c, &b); }
            let s = rand_text(&mut r, c, &al, &nb);
            if want!() { t2_serde_text(&mut out, c, &s); }
        }
    }
    // ---- every encode entry point, every length 0..300
    for c in codecs {
        for n in 0..=300usize {
            let b = if n % 5 == 0 { vec![0xffu8; n] } else { r.bytes(n) };
            if want!() { t2_enc(&mut out, c, &b, true); }
        }
    }
    // ---- code points above U+00FF whose low octet is an alphabet character (a cast to u8
    //      would alias them to the alphabet), in every char-taking entry point
    for c in codecs {
        let al = alphabet(c);
        let base: Vec<char> = ref_encode(c, &[0x12, 0x34, 0x56, 0x78, 0x9a]).chars().filter(|x| *x != '=').collect();
        for a0 in &al {
            for k in [1u32, 2, 0xff, 0x1f6] {
                let ch = match char::from_u32(k * 0x100 + *a0 as u32) { Some(x) => x, None => continue };
                let mut t = base.clone(); let pos = (k as usize + *a0 as usize) % t.len(); t[pos] = ch;
                if want!() { t2_dec(&mut out, c, &t); }
                if want!() { t2_push(&mut out, c, &t); }
                if want!() { t2_conv(&mut out, c, &[t[..pos].to_vec(), t[pos..].to_vec()]); }
                if want!() { t2_scan(&mut out, c, &[t.clone()], false); }
                if want!() { t2_serde_text(&mut out, c, &t); }
                if c == B16 { if want!() { t2_salt(&mut out, &t); } if want!() { t2_nsec3_serde_text(&mut out, true, &t); } }
                if c == B32 { if want!() { t2_hash(&mut out, &t); } if want!() { t2_nsec3_serde_text(&mut out, false, &t); } }
            }
        }
    }
    // ---- Nsec3Salt / OwnerHash through serde
    for n in (0..=8usize).chain([254, 255, 256, 257, 300]) { let b = r.bytes(n); if want!() { t2_nsec3_serde_octets(&mut out, &b); } }
    for t in ["-", "", "--", "-AB", "AB-", "ab", "A", "G0", "\\-", "AB "] {
        if want!() { t2_nsec3_serde_text(&mut out, true, &chars(t)); }
        if want!() { t2_nsec3_serde_text(&mut out, false, &chars(t)); }
    }
    {
        let (al16, nb16) = (alphabet(B16), neighbours(B16));
        let (al32, nb32) = (alphabet(B32), neighbours(B32));
        for _ in 0..(if a.thorough { 3000 } else { 300 } * a.scale) {
            let s = rand_text(&mut r, B16, &al16, &nb16); if want!() { t2_nsec3_serde_text(&mut out, true, &s); }
            let s = rand_text(&mut r, B32, &al32, &nb32); if want!() { t2_nsec3_serde_text(&mut out, false, &s); }
            let n = r.below(40) as usize; let b = r.bytes(n); if want!() { t2_nsec3_serde_octets(&mut out, &b); }
        }
    }
    // ---- random texts: decode, push API, random chunkings through the converter
    let n_txt = if a.thorough { 60_000 } else { 5_000 } * a.scale;
    for c in codecs {
        let al = alphabet(c);
        let nb = neighbours(c);
        for _ in 0..n_txt {
            let s = rand_text(&mut r, c, &al, &nb);
            if want!() { t2_dec(&mut out, c, &s); }
            if want!() { t2_push(&mut out, c, &s); }
            let ck = split(&mut r, &s);
            if want!() { t2_conv(&mut out, c, &ck); }
        }
    }
    let sup: Vec<String> = FAILS.lock().unwrap().iter().map(|(k, v)| format!("{}: {}", json_str(k), v)).collect();
    out.finish(&[("failures_by_class", format!("{{{}}}", sup.join(",")))]);
}
