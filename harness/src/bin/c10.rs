//! C10 -- zone transfers: real response messages (MessageBuilder + compressor)
//! built from abstract record sequences, fed to XfrResponseInterpreter, the
//! update stream applied with ZoneUpdater to a real in-memory zone.
//!
//! T2 kinds:  x  = header words + record items  -> update stream + status
//!            ap = start zone + update stream   -> visible content + finished
//!            ck = header word                  -> check_response verdict (via x)
//! Oracle (independent of the model): receiver content = sender content for
//! valid AXFR / IXFR / fallback streams under every packaging; detectable
//! faults give Err / no Finished and readers keep the old version; the visible
//! content changes only at BeginBatchDelete / Finished; the diff returned on
//! commit, applied to the content before, gives the content after.
use bytes::{Bytes, BytesMut};
use domain::base::iana::Class;
use domain::base::rdata::RecordData;
use domain::dep::octseq::OctetsBuilder;
use domain::base::message_builder::{StaticCompressor, TreeCompressor};
use domain::base::name::Name;
use domain::base::net::{Ipv4Addr, Ipv6Addr};
use domain::base::wire::Composer;
use domain::base::{Message, MessageBuilder, Rtype, Serial, Ttl};
use domain::net::xfr::protocol::{Error as XErr, IterationError, ParsedRecord, XfrResponseInterpreter};
use domain::rdata::{Aaaa, Cname, Mx, Ns, Soa, Txt, ZoneRecordData, A};
use domain::zonetree::types::ZoneUpdate;
use domain::zonetree::update::ZoneUpdater;
use domain::zonetree::{InMemoryZoneDiff, Rrset, SharedRrset, StoredName, Zone, ZoneBuilder};
use domain::base::{Record, ToName};
use domain::net::server::message::{NonUdpTransportContext, Request, TransportSpecificContext};
use domain::net::server::middleware::xfr::{XfrData, XfrDataProvider, XfrDataProviderError, XfrMiddlewareSvc};
use domain::net::server::service::{Service, ServiceResult};
use domain::base::message_builder::AdditionalBuilder;
use domain::rdata::tsig::Time48;
use domain::tsig::{Algorithm, ClientSequence, Key, KeyName, ServerSequence};
use domain::net::client::request::{Error as CErr, RequestMessage, RequestMessageMulti, SendRequestMulti};
use domain::net::client::stream as cstream;
use dv_harness::*;
use futures_util::StreamExt;
use tokio::io::{AsyncReadExt, AsyncWriteExt};
use std::future::{ready, Future, Ready};
use std::ops::ControlFlow;
use std::pin::Pin;
use std::collections::{BTreeMap, BTreeSet, HashMap};
use std::str::FromStr;
use std::sync::{Arc, Mutex};

type Data = ZoneRecordData<Bytes, StoredName>;

#[derive(Clone, Copy, PartialEq, Eq, Hash, PartialOrd, Ord, Debug)]
enum AR { Soa(u32), Other(u32) }
fn ar_str(a: AR) -> String { match a { AR::Soa(s) => format!("S{}", s), AR::Other(k) => format!("O{}", k) } }

struct Uni {
    /// added (mod 2^32) to every SOA serial of the current case: moves a serial chain across 2^31 or 2^32
    offset: std::cell::Cell<u32>,
    rrkey: HashMap<(String, String), u32>,
    apex: StoredName,
    recs: Vec<(StoredName, Ttl, Data)>,
    index: HashMap<String, u32>,
}
fn nm(s: &str) -> StoredName { Name::from_str(s).unwrap() }
fn key(owner: &str, rtype: Rtype, data: &str) -> String { format!("{}|{}|{}", owner.to_ascii_lowercase(), rtype, data) }

impl Uni {
    fn new() -> Uni {
        let apex = nm("example.test.");
        let a = |s: &str| -> Data { ZoneRecordData::A(A::new(Ipv4Addr::from_str(s).unwrap())) };
        let txt = |s: &str| -> Data { ZoneRecordData::Txt(Txt::build_from_slice(s.as_bytes()).unwrap()) };
        let mut recs: Vec<(StoredName, Ttl, Data)> = vec![
            (apex.clone(), Ttl::from_secs(3600), ZoneRecordData::Ns(Ns::new(nm("ns1.example.test.")))),
            (apex.clone(), Ttl::from_secs(3600), ZoneRecordData::Ns(Ns::new(nm("ns2.example.test.")))),
            (apex.clone(), Ttl::from_secs(1800), ZoneRecordData::Mx(Mx::new(10, nm("mail.example.test.")))),
            (nm("ns1.example.test."), Ttl::from_secs(3600), a("192.0.2.1")),
            (nm("ns2.example.test."), Ttl::from_secs(3600), a("192.0.2.2")),
            (nm("www.example.test."), Ttl::from_secs(300), a("192.0.2.10")),
            (nm("www.example.test."), Ttl::from_secs(300), a("192.0.2.11")),
            (nm("www.example.test."), Ttl::from_secs(300), a("192.0.2.12")),
            (nm("www.example.test."), Ttl::from_secs(600), ZoneRecordData::Aaaa(Aaaa::new(Ipv6Addr::from_str("2001:db8::10").unwrap()))),
            (nm("mail.example.test."), Ttl::from_secs(900), a("192.0.2.20")),
            (nm("mail.example.test."), Ttl::from_secs(900), txt("v=spf1 -all")),
            (nm("a.b.c.example.test."), Ttl::from_secs(60), a("192.0.2.30")),
            (nm("a.b.c.example.test."), Ttl::from_secs(60), txt("deep")),
            (nm("x.www.example.test."), Ttl::from_secs(120), a("192.0.2.40")),
            (nm("*.wild.example.test."), Ttl::from_secs(120), a("192.0.2.50")),
            (apex.clone(), Ttl::from_secs(77), txt("hello world")),
            (nm("ftp.example.test."), Ttl::from_secs(240), ZoneRecordData::Cname(Cname::new(nm("www.example.test.")))),
            (nm("sub.example.test."), Ttl::from_secs(7200), ZoneRecordData::Ns(Ns::new(nm("ns.sub.example.test.")))),
            (nm("ns.sub.example.test."), Ttl::from_secs(7200), a("192.0.2.60")),
            (nm("host1.example.test."), Ttl::from_secs(30), a("192.0.2.71")),
            (nm("host2.example.test."), Ttl::from_secs(30), a("192.0.2.72")),
            (nm("mail.example.test."), Ttl::from_secs(1200), ZoneRecordData::Mx(Mx::new(5, nm("mx.other.test.")))),
        ];
        recs.push((nm("ns2.sub.example.test."), Ttl::from_secs(7200), a("192.0.2.61")));
        recs.push((nm("sub.example.test."), Ttl::from_secs(7200), ZoneRecordData::Ns(Ns::new(nm("ns2.sub.example.test.")))));
        recs.truncate(24);
        let mut index = HashMap::new();
        for (i, (o, _, d)) in recs.iter().enumerate() {
            index.insert(key(&o.to_string(), d.rtype(), &d.to_string()), i as u32);
        }
        assert_eq!(index.len(), recs.len());
        let mut rrkey = HashMap::new();
        rrkey.insert((apex.to_string().to_ascii_lowercase(), Rtype::SOA.to_string()), 0u32);
        for (o, _, d) in recs.iter() {
            let n = rrkey.len() as u32;
            rrkey.entry((o.to_string().to_ascii_lowercase(), d.rtype().to_string())).or_insert(n);
        }
        Uni { offset: std::cell::Cell::new(0), rrkey, apex, recs, index }
    }
    fn n(&self) -> u32 { self.recs.len() as u32 }
    /// Chooses where the serials of this case live.  `lo`/`hi` are the smallest and largest SOA ids
    /// used.  kind 0: as they are; 1: the chain crosses 2^32 (… 0xFFFFFFFE, 0xFFFFFFFF, 2, 7 …);
    /// 2: it crosses 2^31; 3: it starts at 0xFFFFFFFE exactly.  Serial arithmetic is invariant
    /// under the shift (C17), so the abstract ids and the model do not change.
    fn place_serials(&self, kind: u64, lo: u32, hi: u32) -> bool {
        let (lo, hi) = (lo >> 1, hi >> 1);
        let mid = lo + (hi - lo + 1) / 2;
        let off = match kind {
            1 => if lo == hi { 0xFFFF_FFFFu32.wrapping_sub(lo) } else { 0u32.wrapping_sub(mid) },
            2 => if lo == hi { 0x7FFF_FFFFu32.wrapping_sub(lo) } else { 0x8000_0000u32.wrapping_sub(mid) },
            3 => 0xFFFF_FFFEu32.wrapping_sub(lo),
            _ => 0,
        };
        self.offset.set(off);
        off != 0
    }
    /// `K.D.T` word of a record for the diff model: RRset key, data id, TTL
    fn kdt(&self, a: AR, ttl: u32) -> Option<String> {
        match a {
            // in the diff model a SOA id carries the real 32-bit serial (the range check is in serial order)
            AR::Soa(id) if id != 999_999 => Some(format!("0.{}.{}", self.soa_real(id), ttl)),
            AR::Other(k) if k != 9999 && k < 1000 => {
                let (o, _, d) = &self.recs[(k % 100) as usize];
                let kk = self.rrkey[&(o.to_string().to_ascii_lowercase(), d.rtype().to_string())];
                Some(format!("{}.{}.{}", kk, k % 100, ttl))
            }
            _ => None,
        }
    }
    fn soa_real(&self, id: u32) -> u64 { ((((id >> 1).wrapping_add(self.offset.get())) as u64) << 1) | (id & 1) as u64 }
    fn diff_txt(&self, d: &Option<InMemoryZoneDiff>) -> String {
        let Some(d) = d else { return "none".into() };
        let side = |m: &HashMap<(StoredName, Rtype), SharedRrset>| -> String {
            let mut v: Vec<(u32, String)> = m.iter().map(|((o, t), rrset)| {
                let kk = self.rrkey.get(&(o.to_string().to_ascii_lowercase(), t.to_string())).cloned().unwrap_or(9999);
                let mut ds: Vec<u64> = rrset.data().iter().map(|x| {
                    let soa = if let ZoneRecordData::Soa(s) = x { Some((s.serial().0, s.minimum().as_secs())) } else { None };
                    match self.abs_of(&o.to_string(), *t, &x.to_string(), soa) { AR::Soa(i) => self.soa_real(i), AR::Other(k) => k as u64 }
                }).collect();
                ds.sort();
                (kk, format!("{}:{}:{}", kk, rrset.ttl().as_secs(), ds.iter().map(|x| x.to_string()).collect::<Vec<_>>().join(".")))
            }).collect();
            v.sort();
            v.into_iter().map(|x| x.1).collect::<Vec<_>>().join(",")
        };
        format!("R[{}]A[{}]", side(&d.removed), side(&d.added))
    }
    fn soa(&self, id: u32) -> Data {
        ZoneRecordData::Soa(Soa::new(nm("ns1.example.test."), nm("admin.example.test."), Serial((id >> 1).wrapping_add(self.offset.get())),
            Ttl::from_secs(3600), Ttl::from_secs(600), Ttl::from_secs(86400), Ttl::from_secs(300 + (id & 1))))
    }
    fn concrete(&self, a: AR) -> (StoredName, Ttl, Data) {
        match a {
            AR::Soa(id) => (self.apex.clone(), Ttl::from_secs(3600), self.soa(id)),
            AR::Other(k) if k >= 100_000 => {
                (nm("host.example.test."), Ttl::from_secs(3600), ZoneRecordData::A(A::new(Ipv4Addr::from(0x0a00_0000u32 + (k - 100_000)))))
            }
            AR::Other(k) if k >= 1000 => {
                let txt: String = format!("bulk record {:05} ", k).repeat(11);
                (nm(&format!("bulk-{}.example.test.", k)), Ttl::from_secs(42), ZoneRecordData::Txt(Txt::build_from_slice(txt.as_bytes()).unwrap()))
            }
            AR::Other(k) if k >= 100 => { let (o, t, d) = self.recs[(k - 100) as usize].clone(); (o, Ttl::from_secs(t.as_secs() + 1000), d) }
            AR::Other(k) => self.recs[k as usize].clone(),
        }
    }
    fn abs_of(&self, owner: &str, rtype: Rtype, data_str: &str, soa: Option<(u32, u32)>) -> AR {
        if let Some((serial, min)) = soa {
            let serial = serial.wrapping_sub(self.offset.get());
            if min >= 300 && min <= 301 && serial < (1 << 30) { return AR::Soa((serial << 1) | (min - 300)); }
            return AR::Soa(999_999);
        }
        if rtype == Rtype::A && owner.eq_ignore_ascii_case("host.example.test") {
            if let Ok(a) = Ipv4Addr::from_str(data_str) { let v = u32::from(a); if v >= 0x0a00_0000 && v < 0x0b00_0000 { return AR::Other(100_000 + (v - 0x0a00_0000)); } }
        }
        if let Some(rest) = owner.to_ascii_lowercase().strip_prefix("bulk-") {
            if let Some(n) = rest.split('.').next().and_then(|x| x.parse::<u32>().ok()) { if rtype == Rtype::TXT { return AR::Other(n); } }
        }
        match self.index.get(&key(owner, rtype, data_str)) { Some(k) => AR::Other(*k), None => AR::Other(9999) }
    }
    fn abs_parsed(&self, r: &ParsedRecord) -> AR {
        let soa = if let ZoneRecordData::Soa(s) = r.data() { Some((s.serial().0, s.minimum().as_secs())) } else { None };
        self.abs_of(&r.owner().to_string(), r.rtype(), &r.data().to_string(), soa)
    }
}

// ---------------------------------------------------------------- messages

#[derive(Clone, Debug)]
struct AMsg {
    qr: bool, opcode: u8, rcode: u8, tc: bool,
    qd: u16,                 // header QDCOUNT; a question is present iff qtype.is_some()
    an_override: Option<u16>,
    ns: u16,
    qtype: Option<u16>,
    recs: Vec<AR>,
}
impl AMsg {
    fn good(first: bool, with_q: bool, qtype: u16, recs: Vec<AR>) -> AMsg {
        let q = first || with_q;
        AMsg { qr: true, opcode: 0, rcode: 0, tc: false, qd: if q { 1 } else { 0 }, an_override: None, ns: 0,
               qtype: if q { Some(qtype) } else { None }, recs }
    }
    fn an(&self) -> u16 { self.an_override.unwrap_or(self.recs.len() as u16) }
    fn words(&self) -> String {
        let an = self.an() as usize;
        let mut items: Vec<String> = self.recs.iter().take(an).map(|r| ar_str(*r)).collect();
        if an > self.recs.len() { items.push("B".into()); }
        format!("{}:{}:{}:{}:{}:{}:{}:{} {}", self.qr as u8, self.opcode, self.rcode, self.tc as u8, self.qd, an, self.ns,
            match self.qtype { Some(q) => q.to_string(), None => "n".into() },
            if items.is_empty() { "-".to_string() } else { items.join(".") })
    }
}

fn build_into<T: Composer>(target: T, uni: &Uni, m: &AMsg) -> T where <T as OctetsBuilder>::AppendError: std::fmt::Debug {
    let mut mb = MessageBuilder::from_target(target).unwrap();
    mb.header_mut().set_id(0x1234);
    mb.header_mut().set_aa(true);
    let mut q = mb.question();
    if let Some(qt) = m.qtype { q.push((uni.apex.clone(), Rtype::from_int(qt), Class::IN)).unwrap(); }
    let mut an = q.answer();
    for r in &m.recs {
        let (o, t, d) = uni.concrete(*r);
        an.push((o, Class::IN, t, d)).unwrap();
    }
    an.finish()
}

fn build_msg(uni: &Uni, m: &AMsg, comp: u8) -> Vec<u8> {
    let mut v: Vec<u8> = match comp {
        0 => build_into(BytesMut::new(), uni, m).to_vec(),
        1 => build_into(StaticCompressor::new(BytesMut::new()), uni, m).into_target().to_vec(),
        _ => build_into(TreeCompressor::new(BytesMut::new()), uni, m).into_target().to_vec(),
    };
    // header: flags and counts patched by hand so that faulty values can be set
    v[2] = (if m.qr { 0x80 } else { 0 }) | ((m.opcode & 0x0f) << 3) | 0x04 | (if m.tc { 0x02 } else { 0 });
    v[3] = m.rcode & 0x0f;
    v[4..6].copy_from_slice(&m.qd.to_be_bytes());
    v[6..8].copy_from_slice(&m.an().to_be_bytes());
    v[8..10].copy_from_slice(&m.ns.to_be_bytes());
    v
}

// ---------------------------------------------------------------- implementation run

#[derive(Clone, PartialEq, Debug)]
enum St { Done, Incomplete, Err(u8), Panic }
fn st_str(s: &St) -> String { match s { St::Done => "Done".into(), St::Incomplete => "Incomplete".into(), St::Err(e) => format!("Err{}", e), St::Panic => "Panic".into() } }

fn upd_str(uni: &Uni, u: &ZoneUpdate<ParsedRecord>) -> String {
    let sid = |r: &ParsedRecord| match uni.abs_parsed(r) { AR::Soa(s) => s.to_string(), AR::Other(k) => format!("notsoa{}", k) };
    match u {
        ZoneUpdate::DeleteAllRecords => "DA".into(),
        ZoneUpdate::DeleteRecord(r) => format!("D.{}", ar_str(uni.abs_parsed(r))),
        ZoneUpdate::AddRecord(r) => format!("A.{}", ar_str(uni.abs_parsed(r))),
        ZoneUpdate::BeginBatchDelete(r) => format!("BD.{}", sid(r)),
        ZoneUpdate::BeginBatchAdd(r) => format!("BA.{}", sid(r)),
        ZoneUpdate::Finished(r) => format!("F.{}", sid(r)),
        _ => "?".into(),
    }
}

struct Run { upds: Vec<(usize, String, ZoneUpdate<ParsedRecord>)>, st: St, err_msg: Option<usize> }

fn run_interp(uni: &Uni, wire: &[Vec<u8>]) -> Run { run_interp_with(uni, wire, &mut |_, w| Some(w)) }

/// `pre` sees every message first (TSIG validation); None = refused, reported as Err20
fn run_interp_with(uni: &Uni, wire: &[Vec<u8>], pre: &mut dyn FnMut(usize, Vec<u8>) -> Option<Vec<u8>>) -> Run {
    let mut upds = vec![];
    let mut err_msg = None;
    let r = catch_mut(|| {
        let mut interp = XfrResponseInterpreter::new();
        for (i, w) in wire.iter().enumerate() {
            let Some(w) = pre(i, w.clone()) else { err_msg = Some(i); return St::Err(20); };
            let msg = match Message::from_octets(Bytes::from(w)) { Ok(m) => m, Err(_) => { err_msg = Some(i); return St::Err(4); } };
            match interp.interpret_response(msg) {
                Err(e) => {
                    err_msg = Some(i);
                    return St::Err(match e { XErr::NotValidXfrResponse => 1, XErr::Malformed => 2, XErr::Finished => 3, XErr::ParseError(_) => 4 });
                }
                Ok(it) => {
                    for u in it {
                        match u {
                            Ok(u) => { let s = upd_str(uni, &u); upds.push((i, s, u)); }
                            Err(e) => {
                                err_msg = Some(i);
                                return St::Err(match e { IterationError::ParseError(_) => 11, IterationError::MissingInitialSoa => 12,
                                    IterationError::AlreadyFinished => 13, IterationError::SingleSoaIxfrTcpRetrySignal => 14 });
                            }
                        }
                    }
                }
            }
        }
        if interp.is_finished() { St::Done } else { St::Incomplete }
    });
    let st = match r { Ok(s) => s, Err(_) => St::Panic };
    Run { upds, st, err_msg }
}

// concrete canonical content of a zone: (owner, rtype) -> (ttl, sorted data strings with multiplicity)
type Content = BTreeMap<(String, String), (u32, Vec<String>)>;

fn walk_zone(uni: &Uni, zone: &Zone) -> (Content, Vec<AR>) {
    let acc: Arc<Mutex<Vec<(String, Rtype, u32, Vec<(String, Option<(u32, u32)>)>)>>> = Arc::new(Mutex::new(vec![]));
    let acc2 = acc.clone();
    zone.read().walk(Box::new(move |name, rrset, _cut| {
        let ds = rrset.data().iter().map(|d| {
            let soa = if let ZoneRecordData::Soa(s) = d { Some((s.serial().0, s.minimum().as_secs())) } else { None };
            (d.to_string(), soa)
        }).collect();
        acc2.lock().unwrap().push((name.to_string().to_ascii_lowercase(), rrset.rtype(), rrset.ttl().as_secs(), ds));
    }));
    let mut c = Content::new();
    let mut abs = vec![];
    for (o, t, ttl, ds) in acc.lock().unwrap().iter() {
        let e = c.entry((o.clone(), t.to_string())).or_insert((*ttl, vec![]));
        for (d, soa) in ds { e.1.push(d.clone()); abs.push(uni.abs_of(o, *t, d, *soa)); }
        e.1.sort();
    }
    abs.sort();
    (c, abs)
}

fn abs_zone_str(z: &[AR]) -> String { if z.is_empty() { "-".into() } else { z.iter().map(|r| ar_str(*r)).collect::<Vec<_>>().join(".") } }

/// spec-level content of an abstract zone (soa id + set of keys)
fn spec_content(uni: &Uni, soa: Option<u32>, keys: &BTreeSet<u32>) -> Content {
    let mut c = Content::new();
    let mut put = |o: &StoredName, t: Ttl, d: &Data| {
        let e = c.entry((o.to_string().to_ascii_lowercase(), d.rtype().to_string())).or_insert((t.as_secs(), vec![]));
        e.1.push(d.to_string()); e.1.sort();
    };
    if let Some(s) = soa { let (o, t, d) = uni.concrete(AR::Soa(s)); put(&o, t, &d); }
    for k in keys { let (o, t, d) = uni.concrete(AR::Other(*k)); put(&o, t, &d); }
    c
}

fn build_zone(uni: &Uni, soa: Option<u32>, keys: &BTreeSet<u32>) -> Zone {
    let mut b = ZoneBuilder::new(uni.apex.clone(), Class::IN);
    let mut sets: BTreeMap<(String, u16), (StoredName, Rrset)> = BTreeMap::new();
    let mut all: Vec<AR> = keys.iter().map(|k| AR::Other(*k)).collect();
    if let Some(s) = soa { all.push(AR::Soa(s)); }
    for a in all {
        let (o, t, d) = uni.concrete(a);
        let e = sets.entry((o.to_string(), d.rtype().to_int())).or_insert_with(|| (o.clone(), Rrset::new(d.rtype(), t)));
        e.1.push_data(d);
    }
    for (_, (o, rrset)) in sets { b.insert_rrset(&o, SharedRrset::new(rrset)).unwrap(); }
    b.build()
}

/// The same content, stored the way a zone loaded from a zone file stores it: the delegation at
/// `sub` as a zone cut with its in-domain glue (owned by the name server names, not by the cut),
/// the CNAME as a CNAME node.  Only ZoneBuilder can make these; the zone walk must report them
/// under their own owner names.
fn build_zone_special(uni: &Uni, soa: Option<u32>, keys: &BTreeSet<u32>) -> Zone {
    let sub = nm("sub.example.test.");
    let ns_keys: Vec<u32> = keys.iter().cloned().filter(|k| { let (o, _, d) = uni.concrete(AR::Other(*k)); *k < 100 && o == sub && d.rtype() == Rtype::NS }).collect();
    let glue_keys: Vec<u32> = if ns_keys.is_empty() { vec![] } else {
        keys.iter().cloned().filter(|k| { let (o, _, d) = uni.concrete(AR::Other(*k)); *k < 100 && o.ends_with(&sub) && o != sub && matches!(d.rtype(), Rtype::A | Rtype::AAAA) }).collect() };
    let cname_keys: Vec<u32> = keys.iter().cloned().filter(|k| { let (_, _, d) = uni.concrete(AR::Other(*k)); *k < 100 && d.rtype() == Rtype::CNAME }).collect();
    let mut plain = keys.clone();
    for k in ns_keys.iter().chain(glue_keys.iter()).chain(cname_keys.iter()) { plain.remove(k); }
    let mut b = ZoneBuilder::new(uni.apex.clone(), Class::IN);
    let mut sets: BTreeMap<(String, u16), (StoredName, Rrset)> = BTreeMap::new();
    let mut all: Vec<AR> = plain.iter().map(|k| AR::Other(*k)).collect();
    if let Some(s) = soa { all.push(AR::Soa(s)); }
    for a in all {
        let (o, t, d) = uni.concrete(a);
        let e = sets.entry((o.to_string(), d.rtype().to_int())).or_insert_with(|| (o.clone(), Rrset::new(d.rtype(), t)));
        e.1.push_data(d);
    }
    for (_, (o, rrset)) in sets { b.insert_rrset(&o, SharedRrset::new(rrset)).unwrap(); }
    if !ns_keys.is_empty() {
        let (_, t, _) = uni.concrete(AR::Other(ns_keys[0]));
        let mut ns = Rrset::new(Rtype::NS, t);
        for k in &ns_keys { ns.push_data(uni.concrete(AR::Other(*k)).2); }
        let glue: Vec<domain::zonetree::StoredRecord> = glue_keys.iter().map(|k| stored(uni, AR::Other(*k))).collect();
        b.insert_zone_cut(&sub, SharedRrset::new(ns), None, glue).unwrap();
    }
    for k in cname_keys {
        let (o, t, d) = uni.concrete(AR::Other(k));
        b.insert_cname(&o, domain::zonetree::SharedRr::new(t, d)).unwrap();
    }
    b.build()
}

fn apply_diff(before: &Content, diff: &InMemoryZoneDiff) -> Content {
    let mut c = before.clone();
    for ((o, t), rrset) in diff.removed.iter() {
        let k = (o.to_string().to_ascii_lowercase(), t.to_string());
        if let Some(e) = c.get_mut(&k) {
            for d in rrset.data() { let s = d.to_string(); if let Some(p) = e.1.iter().position(|x| *x == s) { e.1.remove(p); } }
            if e.1.is_empty() { c.remove(&k); }
        }
    }
    for ((o, t), rrset) in diff.added.iter() {
        let k = (o.to_string().to_ascii_lowercase(), t.to_string());
        let e = c.entry(k).or_insert((rrset.ttl().as_secs(), vec![]));
        e.0 = rrset.ttl().as_secs();
        for d in rrset.data() { let s = d.to_string(); if !e.1.contains(&s) { e.1.push(s); } }
        e.1.sort();
    }
    c
}

struct Applied {
    final_content: Content,
    final_abs: Vec<AR>,
    result: String,                  // "Ok" / "Err3" / "ErrX" / "Panic"
    fin: bool,
    changed_outside_commit: Option<String>,
    seen_contents: Vec<Content>,     // visible content after every applied update
    diff_bad: Vec<(String, String)>, // (class, detail)
    n_diffs: u64,
    diff_txts: Vec<String>,
}

fn apply_updates(uni: &Uni, rt: &tokio::runtime::Runtime, zone: &Zone, upds: &[(usize, String, ZoneUpdate<ParsedRecord>)]) -> Applied {
    let (c0, _) = walk_zone(uni, zone);
    let mut seen = vec![c0.clone()];
    let mut changed_outside = None;
    let mut diff_bad = vec![];
    let mut n_diffs = 0u64;
    let mut diff_txts: Vec<String> = vec![];
    let mut fin = false;
    let r = catch_mut(|| {
        rt.block_on(async {
            let mut up = match ZoneUpdater::new(zone.clone()).await { Ok(u) => u, Err(_) => return "ErrNew".to_string() };
            let mut cur = c0.clone();
            let mut da_in_batch = false;
            let mut touched: BTreeSet<(String, String)> = BTreeSet::new();
            let mut touch_count: BTreeMap<(String, String), u32> = BTreeMap::new();
            let to_shadow = |c: &Content| -> BTreeMap<(String, String), BTreeSet<String>> { c.iter().map(|(k, v)| (k.clone(), v.1.iter().cloned().collect())).collect() };
            let mut shadow = to_shadow(&c0);
            let mut shadow_cleared = false;
            let mut illformed: BTreeSet<(String, String)> = BTreeSet::new();
            for (_, s, u) in upds {
                let commit = s.starts_with("BD.") || s.starts_with("F.");
                match u {
                    ZoneUpdate::DeleteAllRecords => da_in_batch = true,
                    ZoneUpdate::AddRecord(r) | ZoneUpdate::DeleteRecord(r) => {
                        let k = (r.owner().to_string().to_ascii_lowercase(), r.rtype().to_string());
                        *touch_count.entry(k.clone()).or_insert(0u32) += 1;
                        touched.insert(k.clone());
                        // shadow of the working copy as sets: a delete of a record that is not there or an
                        // add of one that is (only faulted streams do that) makes the edit history of this
                        // RRset ill-formed; its diff entries are not judged
                        if da_in_batch && !shadow_cleared { shadow.clear(); shadow_cleared = true; }
                        let e = shadow.entry(k.clone()).or_default();
                        let ds = r.data().to_string();
                        let ok = if matches!(u, ZoneUpdate::AddRecord(_)) { e.insert(ds) } else { e.remove(&ds) };
                        if !ok { illformed.insert(k); }
                    }
                    _ => {}
                }
                let res = up.apply(u.clone()).await;
                match res {
                    Err(domain::zonetree::update::Error::Finished) => return "Err3".to_string(),
                    Err(e) => { let t = e.to_string(); return if t == "SoaMismatch" { "Err5".to_string() } else { format!("ErrX:{}", t) }; }
                    Ok(d) => {
                        if commit { diff_txts.push(uni.diff_txt(&d)); }
                        let (now, _) = walk_zone(uni, zone);
                        if now != cur && !commit && changed_outside.is_none() { changed_outside = Some(s.clone()); }
                        if let Some(d) = d {
                            n_diffs += 1;
                            // RRsets are compared as sets here (push_data keeps duplicates a faulty stream sent twice)
                            let dd = |c: &Content| -> Content { c.iter().map(|(k, v)| { let mut x = v.1.clone(); x.dedup(); (k.clone(), (v.0, x)) }).collect() };
                            let want = dd(&apply_diff(&cur, &d));
                            let now = dd(&now);
                            if want != now {
                                // classes of the three known defects are decided by their root cause on the
                                // history of this batch; anything else is `diff_not_applicable_other`
                                let removed_keys: BTreeSet<(String, String)> = d.removed.keys().map(|(o, t)| (o.to_string().to_ascii_lowercase(), t.to_string())).collect();
                                let subset = |a: &Vec<String>, b: &Vec<String>| a.iter().all(|x| b.contains(x));
                                let mut classes: BTreeSet<&'static str> = BTreeSet::new();
                                let keys: BTreeSet<&(String, String)> = want.keys().chain(now.keys()).collect();
                                for k in keys {
                                    let (w, n, o) = (want.get(k), now.get(k), cur.get(k));
                                    if w == n { continue; }
                                    if illformed.contains(k) { continue; }
                                    classes.insert(match (n, o) {
                                        // removals done through remove_all: RRset published, gone, never touched by a record op
                                        (None, Some(_)) if da_in_batch && !touched.contains(k) => "diff_misses_delete_all",
                                        // TTL of the RRset changed and one data set contains the other (the arm that
                                        // compares data only records nothing, or leaves an earlier entry)
                                        (Some(n), Some(o)) if n.0 != o.0 && (subset(&o.1, &n.1) || subset(&n.1, &o.1)) => "diff_stale_after_ttl_change",
                                        // same TTL, every published record is still there (nothing to remove), touched
                                        // more than once, and the diff still carries a removal from an earlier call
                                        (Some(n), Some(o)) if n.0 == o.0 && subset(&o.1, &n.1) && removed_keys.contains(k)
                                            && touch_count.get(k).cloned().unwrap_or(0) >= 2 => "diff_stale_after_reorder",
                                        _ => "diff_not_applicable_other",
                                    });
                                }
                                for cls in classes {
                                    diff_bad.push((cls.to_string(), format!("after {}: diff applied to old gives {:?}, zone has {:?}", s, want, now)));
                                }
                            }
                        }
                        if commit { da_in_batch = false; touched.clear(); touch_count.clear(); illformed.clear(); shadow_cleared = false; }
                        if commit { shadow = to_shadow(&now); }
                        cur = now.clone();
                        seen.push(now);
                    }
                }
            }
            fin = up.is_finished();
            drop(up);
            "Ok".to_string()
        })
    });
    let result = match r { Ok(s) => s, Err(_) => "Panic".to_string() };
    let (fc, fa) = walk_zone(uni, zone);
    Applied { final_content: fc, final_abs: fa, result, fin, changed_outside_commit: changed_outside, seen_contents: seen, diff_bad, n_diffs, diff_txts }
}

// ---------------------------------------------------------------- scenarios

#[derive(Clone, Debug)]
struct Version { soa: u32, keys: BTreeSet<u32> }

fn rand_keys(r: &mut Rng, uni: &Uni, max: u64) -> BTreeSet<u32> {
    let n = r.below(max + 1);
    (0..n).map(|_| r.below(uni.n() as u64) as u32).collect()
}

fn axfr_records(v: &Version, r: &mut Rng) -> Vec<AR> {
    let mut ks: Vec<u32> = v.keys.iter().cloned().collect();
    // any order of the non-SOA records is legal
    for i in (1..ks.len()).rev() { let j = r.below(i as u64 + 1) as usize; ks.swap(i, j); }
    let mut out = vec![AR::Soa(v.soa)];
    out.extend(ks.into_iter().map(AR::Other));
    out.push(AR::Soa(v.soa));
    out
}

fn ixfr_records(chain: &[Version]) -> Vec<AR> {
    let new = chain.last().unwrap();
    let mut out = vec![AR::Soa(new.soa)];
    for w in chain.windows(2) {
        out.push(AR::Soa(w[0].soa));
        out.extend(w[0].keys.difference(&w[1].keys).map(|k| AR::Other(*k)));
        out.push(AR::Soa(w[1].soa));
        out.extend(w[1].keys.difference(&w[0].keys).map(|k| AR::Other(*k)));
    }
    out.push(AR::Soa(new.soa));
    out
}

/// difference sequences for arbitrary (from, to) pairs, framed by the SOA of `new`
fn ixfr_records_pairs(new: &Version, pairs: &[(Version, Version)]) -> Vec<AR> {
    let mut out = vec![AR::Soa(new.soa)];
    for (a, b) in pairs {
        out.push(AR::Soa(a.soa));
        out.extend(a.keys.difference(&b.keys).map(|k| AR::Other(*k)));
        out.push(AR::Soa(b.soa));
        out.extend(b.keys.difference(&a.keys).map(|k| AR::Other(*k)));
    }
    out.push(AR::Soa(new.soa));
    out
}

/// IXFR streams whose difference sequences do not chain: the first one does not start at the
/// version the receiver holds (`base`), or the old SOA of a later one is not the new SOA of its
/// predecessor (`middle`: one whole difference sequence is missing).  Every SOA is in place, the
/// framing is "mismatched": such a stream must not be accepted.
fn unchained_case(cx: &mut Ctx, r: &mut Rng, chain: &[Version], which: &str, cuts_seed: u64, comp: u8) {
    let uni = cx.uni;
    { let ids: Vec<u32> = chain.iter().map(|v| v.soa).collect(); let k = r.below(4); cx.place(k, &ids); }
    let new = chain.last().unwrap().clone();
    let (z0, pairs): (Version, Vec<(Version, Version)>) = match which {
        "base" => {
            // the receiver is one version behind what the first difference sequence starts from
            if chain.len() < 3 { return; }
            (chain[0].clone(), chain[1..].windows(2).map(|w| (w[0].clone(), w[1].clone())).collect())
        }
        _ => {
            if chain.len() < 4 { return; }
            let skip = 1 + (cuts_seed as usize) % (chain.len() - 3);
            (chain[0].clone(), chain.windows(2).enumerate().filter(|(i, _)| *i != skip).map(|(_, w)| (w[0].clone(), w[1].clone())).collect())
        }
    };
    let recs = ixfr_records_pairs(&new, &pairs);
    let mut rr = Rng(cuts_seed);
    let mut cuts = rand_cuts(&mut rr, recs.len());
    cuts.retain(|c| *c != 1);
    let msgs = package(r, 251, chunks_of(&recs, &cuts));
    let label = format!("ixfr:unchained_{}", which);
    let (st, ap, _) = run_stream(cx, &label, &msgs, comp, &z0, true, &format!("fault_unchained_{}", which));
    let case = format!("{} z0={} :: {}", label, z0.soa, msgs.iter().map(|m| m.words()).collect::<Vec<_>>().join(" "));
    cx.chk(!(st == St::Done && ap.result == "Ok" && ap.fin), "ixfr_unchained_diff_accepted", &case,
        &format!("status {:?}, updater {} finished={}: readers now see {:?}", st, ap.result, ap.fin, ap.final_content.get(&("example.test".to_string(), "SOA".to_string()))));
    // whatever happens, readers must only ever see versions of the chain that were reached by chaining diffs
    let mut versions: Vec<Content> = vec![spec_content(uni, Some(z0.soa), &z0.keys)];
    if which != "base" { for v in &chain[1..chain.len() - 1] { versions.push(spec_content(uni, Some(v.soa), &v.keys)); } }
    cx.chk(versions.contains(&ap.final_content) || (st == St::Done && ap.fin), "partial_version_visible", &case,
        &format!("readers see {:?}", ap.final_content));
}

fn mutate(r: &mut Rng, uni: &Uni, v: &Version) -> Version {
    let mut keys = v.keys.clone();
    // an IXFR delete section that empties an RRset of several records, one record at a time
    if r.chance(1, 3) {
        let sets: [&[u32]; 2] = [&[0, 1], &[5, 6, 7]];
        let g = *r.pick(&sets);
        if g.iter().filter(|k| keys.contains(k)).count() >= 2 || r.chance(1, 2) {
            let partial = r.chance(1, 4);
            for (i, k) in g.iter().enumerate() { if !(partial && i == 0) { keys.remove(k); } }
        }
    }
    let n = 1 + r.below(4);
    for _ in 0..n {
        let k = r.below(uni.n() as u64) as u32;
        if keys.contains(&k) { keys.remove(&k); } else { keys.insert(k); }
    }
    Version { soa: v.soa + 2 * (1 + r.below(3) as u32), keys }
}

/// cut points -> chunks (all non-empty)
fn chunks_of(recs: &[AR], cuts: &[usize]) -> Vec<Vec<AR>> {
    let mut out = vec![]; let mut last = 0;
    for &c in cuts { if c > last && c < recs.len() { out.push(recs[last..c].to_vec()); last = c; } }
    out.push(recs[last..].to_vec());
    out
}

fn rand_cuts(r: &mut Rng, n: usize) -> Vec<usize> {
    match r.below(5) {
        0 => vec![],
        1 => (1..n).collect(),                                   // one record per message
        _ => { let mut c: Vec<usize> = (1..n).filter(|_| r.chance(1, 3)).collect(); c.dedup(); c }
    }
}

fn package(r: &mut Rng, qtype: u16, chunks: Vec<Vec<AR>>) -> Vec<AMsg> {
    chunks.into_iter().enumerate().map(|(i, c)| AMsg::good(i == 0, r.chance(1, 2), qtype, c)).collect()
}

struct Ctx<'a> { client_skipped: u64, good_histories: u64, force_place: Option<u64>, wrapped: bool, wrap_cases: u64, sender_msgs: u64, sender_multi: u64, fails: BTreeMap<String, u64>, uni: &'a Uni, rt: &'a tokio::runtime::Runtime, out: &'a mut Out, ttl_kind: bool, lone_soa: u64, undetected: BTreeMap<String, u64>, diffs: u64 }

impl<'a> Ctx<'a> {
    fn place(&mut self, kind: u64, ids: &[u32]) {
        let kind = self.force_place.unwrap_or(kind);
        let lo = *ids.iter().min().unwrap(); let hi = *ids.iter().max().unwrap();
        self.wrapped = self.uni.place_serials(kind, lo, hi);
        if self.wrapped { self.wrap_cases += 1; }
    }
    /// class of a valid transfer that fails: across a serial wrap it has its own name
    fn valid_cls(&self, mode: u8) -> &'static str {
        if self.wrapped { "serial_wrap_transfer_rejected" } else if mode == 0 { "axfr_content_mismatch" } else { "ixfr_content_mismatch" }
    }
    /// like Out::check, but writes at most 12 failures per class (the rest is counted in stats)
    fn chk(&mut self, ok: bool, class: &str, case: &str, detail: &str) {
        if ok { self.out.check(true, class, case, detail); return; }
        let n = self.fails.entry(class.to_string()).or_insert(0);
        *n += 1;
        if *n <= 12 { self.out.check(false, class, case, detail); }
    }
}

/// Runs one stream: T2 cases `x` and `ap`, generic oracles (panic, visibility,
/// diff).  Returns the interpreter run, the applied result.
fn run_stream(cx: &mut Ctx, label: &str, msgs: &[AMsg], comp: u8, z0: &Version, z0_has_soa: bool, kind: &str) -> (St, Applied, usize) {
    let t2 = kind != "ttl";
    let uni = cx.uni;
    let case = format!("x {}", msgs.iter().map(|m| m.words()).collect::<Vec<_>>().join(" "));
    cx.out.begin(&case);
    let wire: Vec<Vec<u8>> = msgs.iter().map(|m| build_msg(uni, m, comp)).collect();
    let run = run_interp(uni, &wire);
    let upd_txt = if run.upds.is_empty() { "-".to_string() } else { run.upds.iter().map(|u| u.1.clone()).collect::<Vec<_>>().join(",") };
    if t2 { cx.out.case(&case, &format!("{} {}", upd_txt, st_str(&run.st)), msgs.len() > 0 && msgs[0].recs.len() + msgs.len() > 2, kind); }
    else { cx.out.oracle_case(&case, true, kind); }
    cx.chk(run.st != St::Panic, "panic_xfr", &case, label);
    if t2 { client_case(cx, msgs, &wire); }
    let zone = build_zone(uni, if z0_has_soa { Some(z0.soa) } else { None }, &z0.keys);
    let ap = apply_updates(uni, cx.rt, &zone, &run.upds);
    let mut z0abs: Vec<AR> = z0.keys.iter().map(|k| AR::Other(*k)).collect();
    if z0_has_soa { z0abs.insert(0, AR::Soa(z0.soa)); }
    let apcase = format!("ap {} {}", abs_zone_str(&z0abs), upd_txt);
    let obs = if ap.result == "Ok" { format!("Ok {} {}", abs_zone_str(&ap.final_abs), ap.fin as u8) } else { ap.result.clone() };
    if t2 { cx.out.case(&apcase, &obs, !run.upds.is_empty(), "ap"); }
    cx.chk(ap.result != "Panic", "panic_xfr", &apcase, "ZoneUpdater::apply panicked");
    if ap.result == "Ok" {
        // diff capture model: published content (RRset build order) + the operations
        let mut pubw: Vec<String> = z0.keys.iter().filter_map(|k| { let (_, t, _) = uni.concrete(AR::Other(*k)); uni.kdt(AR::Other(*k), t.as_secs()) }).collect();
        if z0_has_soa { pubw.push(uni.kdt(AR::Soa(z0.soa), 3600).unwrap()); }
        let ops: Option<Vec<String>> = run.upds.iter().map(|(_, _, u)| match u {
            ZoneUpdate::DeleteAllRecords => Some("DA".to_string()),
            ZoneUpdate::AddRecord(r) => uni.kdt(uni.abs_parsed(r), r.ttl().as_secs()).map(|w| format!("A:{}", w)),
            ZoneUpdate::DeleteRecord(r) => uni.kdt(uni.abs_parsed(r), r.ttl().as_secs()).map(|w| format!("D:{}", w)),
            ZoneUpdate::BeginBatchDelete(_) => Some("BD".to_string()),
            ZoneUpdate::BeginBatchAdd(r) => uni.kdt(uni.abs_parsed(r), r.ttl().as_secs()).map(|w| format!("BA:{}", w)),
            ZoneUpdate::Finished(r) => uni.kdt(uni.abs_parsed(r), r.ttl().as_secs()).map(|w| format!("F:{}", w)),
            _ => None,
        }).collect();
        if let Some(ops) = ops {
            if !ap.diff_txts.is_empty() {
                let dfcase = format!("df {} {}", if pubw.is_empty() { "-".to_string() } else { pubw.join(",") }, ops.join(","));
                // histories outside the known defect classes (the model proves the diff applies for them):
                // one batch, no DeleteAllRecords, published TTLs kept, only published-and-present records
                // deleted, only neither-published-nor-present records added
                let kdt = |w: &str| -> (u32, u64, u32) { let v: Vec<u64> = w.split('.').map(|x| x.parse().unwrap()).collect(); (v[0] as u32, v[1], v[2] as u32) };
                let mut pubm: BTreeMap<u32, (u32, BTreeSet<u64>)> = BTreeMap::new();
                for w in &pubw { let (k, d, t) = kdt(w); let e = pubm.entry(k).or_insert((t, BTreeSet::new())); e.1.insert(d); }
                let mut work = pubm.clone();
                // several batches: BD and F commit (the working copy becomes the published one)
                let mut good = z0_has_soa && ops.iter().any(|o| o == "BD" || o.starts_with("F:"));
                for o in &ops {
                    if !good { break; }
                    if o == "BD" || o.starts_with("F:") {
                        if let Some(arg) = o.strip_prefix("F:") { let (_, d, t) = kdt(arg); work.insert(0, (t, [d].into_iter().collect())); }
                        work.retain(|_, v| !v.1.is_empty());
                        pubm = work.clone();
                        continue;
                    }
                    let Some((op, arg)) = o.split_once(':') else { good = false; break; };
                    let (k, d, t) = kdt(arg);
                    if op == "BA" { work.insert(0, (t, [d].into_iter().collect())); continue; }
                    if op != "A" && op != "D" { good = false; break; }
                    let in_pub = pubm.get(&k).map_or(false, |p| p.1.contains(&d));
                    let ttl_ok = pubm.get(&k).map_or(true, |p| p.0 == t);
                    let w = work.entry(k).or_insert((t, BTreeSet::new()));
                    let ok = k != 0 && ttl_ok && if op == "A" { !in_pub && w.1.insert(d) } else { in_pub && w.1.remove(&d) };
                    w.0 = t;
                    if !ok { good = false; }
                }
                let suffix = if good {
                    let applies = ap.diff_bad.is_empty();
                    cx.chk(applies, "diff_good_history_wrong", &dfcase, "the diff does not apply although the history is outside the known defect classes");
                    format!(" good=1 applies={}", applies as u8)
                } else { " good=0".to_string() };
                cx.good_histories += good as u64;
                cx.out.case(&dfcase, &format!("{}{}", ap.diff_txts.join(" "), suffix), ap.diff_txts.iter().any(|d| d != "none"), "df");
            }
        }
    }
    cx.chk(ap.changed_outside_commit.is_none(), "partial_version_visible", &apcase,
        &format!("{}: readers saw a change after {:?}", label, ap.changed_outside_commit));
    for (cls, d) in &ap.diff_bad { cx.chk(false, cls, &apcase, d); }
    if ap.n_diffs > 0 && ap.diff_bad.is_empty() { cx.chk(true, "diff_not_applicable_other", &apcase, ""); }
    cx.diffs += ap.n_diffs;
    let n = run.upds.len();
    (run.st, ap, n)
}

fn valid_case(cx: &mut Ctx, r: &mut Rng, mode: u8, chain: &[Version], z0: &Version, z0_has_soa: bool, cuts: &[usize], comp: u8) {
    // mode 0 = AXFR, 1 = IXFR, 2 = AXFR-style fallback under an IXFR question
    let uni = cx.uni;
    let new = chain.last().unwrap().clone();
    {
        let mut ids: Vec<u32> = chain.iter().map(|v| v.soa).collect();
        if z0_has_soa { ids.push(z0.soa); }
        let kind = r.below(5);   // 0,4: plain; 1: across 2^32; 2: across 2^31; 3: from 0xFFFFFFFE
        cx.place(kind, &ids);
    }
    let recs = match mode { 1 => ixfr_records(chain), _ => axfr_records(&new, r) };
    let chunks = chunks_of(&recs, cuts);
    let qtype = if mode == 0 { 252 } else { 251 };
    let lone = mode != 0 && chunks.len() > 1 && chunks[0].len() == 1;
    let msgs = package(r, qtype, chunks);
    let label = ["axfr", "ixfr", "fallback"][mode as usize];
    let label = ["axfr", "ixfr", "fallback"][mode as usize];
    let kind = if cx.ttl_kind { "ttl" } else { label };
    let (st, ap, _) = run_stream(cx, label, &msgs, comp, z0, z0_has_soa, kind);
    let case = format!("{} new={} z0={} msgs={}", label, new.soa, z0.soa, msgs.iter().map(|m| m.words()).collect::<Vec<_>>().join(" "));
    if lone {
        // known finding: the first message of an IXFR-question stream holds exactly one
        // answer record and further messages follow -> the single-SOA signal fires
        cx.lone_soa += 1;
        let z0c = spec_content(uni, if z0_has_soa { Some(z0.soa) } else { None }, &z0.keys);
        cx.chk(st != St::Panic && ap.final_content == z0c, "partial_version_visible", &case, &format!("lone SOA first message: status {:?}", st));
        let want = spec_content(uni, Some(new.soa), &new.keys);
        cx.chk(st == St::Done && ap.final_content == want, "ixfr_lone_soa_first_message", &case,
            &format!("legal packaging rejected: status {:?}", st));
        return;
    }
    if mode == 2 && new.keys.is_empty() {
        // [SOA, SOA] under an IXFR question is an empty IXFR, not an AXFR of an empty zone
        cx.chk(st == St::Done, "ixfr_content_mismatch", &case, &format!("empty fallback: status {:?}", st));
        return;
    }
    let want = spec_content(uni, Some(new.soa), &new.keys);
    let cls = cx.valid_cls(mode);
    cx.chk(st == St::Done && ap.result == "Ok" && ap.fin, cls, &case, &format!("valid stream not completed: {:?} / {}", st, ap.result));
    cx.chk(ap.final_content == want, cls, &case, &format!("receiver {:?} sender {:?}", ap.final_content, want));
    // every visible state is a version of the chain (or the start zone)
    let mut versions: Vec<Content> = vec![spec_content(uni, if z0_has_soa { Some(z0.soa) } else { None }, &z0.keys)];
    if mode == 1 { for v in chain { versions.push(spec_content(uni, Some(v.soa), &v.keys)); } } else { versions.push(want.clone()); }
    let bad = ap.seen_contents.iter().find(|c| !versions.contains(c));
    cx.chk(bad.is_none(), "partial_version_visible", &case, &format!("readers saw {:?}", bad));
}

/// An IXFR along `chain` is aborted (updater dropped without Finished) after every number of
/// updates; then a complete IXFR from the version visible at that moment to a target (the end of
/// the chain, or `other`) is applied with a new updater.  Readers must see exactly a version of
/// the chain after the abort and exactly the target after the second transfer.
fn abort_case(cx: &mut Ctx, r: &mut Rng, chain: &[Version], other: Option<&Version>, comp: u8) {
    let uni = cx.uni;
    { let mut ids: Vec<u32> = chain.iter().map(|v| v.soa).collect(); if let Some(o) = other { ids.push(o.soa); } let k = r.below(4); cx.place(k, &ids); }
    let recs = ixfr_records(chain);
    let msgs1 = package(r, 251, vec![recs]);
    let wire1: Vec<Vec<u8>> = msgs1.iter().map(|m| build_msg(uni, m, comp)).collect();
    let run1 = run_interp(uni, &wire1);
    if run1.st != St::Done { cx.chk(false, "ixfr_content_mismatch", "abort_case", "first stream did not complete"); return; }
    let z0abs = { let mut z = vec![AR::Soa(chain[0].soa)]; z.extend(chain[0].keys.iter().map(|k| AR::Other(*k))); z };
    for p in 1..run1.upds.len() {
        let first = &run1.upds[..p];
        let n_bd = first.iter().filter(|u| u.1.starts_with("BD.")).count();
        let idx = if n_bd == 0 { 0 } else { n_bd - 1 };
        let vis = &chain[idx];
        let target = match other { Some(o) => o.clone(), None => chain.last().unwrap().clone() };
        if target.soa == vis.soa { continue; }
        // second transfer: from the visible version
        let chain2: Vec<Version> = match other { Some(o) => vec![vis.clone(), o.clone()], None => chain[idx..].to_vec() };
        let msgs2 = package(r, 251, vec![ixfr_records(&chain2)]);
        let wire2: Vec<Vec<u8>> = msgs2.iter().map(|m| build_msg(uni, m, comp)).collect();
        let run2 = run_interp(uni, &wire2);
        let t1 = first.iter().map(|u| u.1.clone()).collect::<Vec<_>>().join(",");
        let t2 = run2.upds.iter().map(|u| u.1.clone()).collect::<Vec<_>>().join(",");
        let case = format!("apm {} {} {}", abs_zone_str(&z0abs), t1, if t2.is_empty() { "-".to_string() } else { t2 });
        cx.out.begin(&case);
        let zone = build_zone(uni, Some(chain[0].soa), &chain[0].keys);
        let a1 = apply_updates(uni, cx.rt, &zone, first);      // the updater is dropped at the end: abort
        let a2 = apply_updates(uni, cx.rt, &zone, &run2.upds);
        let obs = if a1.result == "Ok" && a2.result == "Ok" { format!("Ok {} {}", abs_zone_str(&a1.final_abs), abs_zone_str(&a2.final_abs)) }
                  else if a1.result == "Panic" || a2.result == "Panic" { "Panic".to_string() } else { format!("{}/{}", a1.result, a2.result) };
        cx.out.case(&case, &obs, true, "apm");
        cx.chk(a1.result != "Panic" && a2.result != "Panic", "panic_xfr", &case, "ZoneUpdater panicked");
        cx.chk(a1.final_content == spec_content(uni, Some(vis.soa), &vis.keys), "partial_version_visible", &case,
            &format!("after the abort at update {} readers see {:?}", p, a1.final_content));
        cx.chk(run2.st == St::Done && a2.fin && a2.final_content == spec_content(uni, Some(target.soa), &target.keys),
            "aborted_transfer_leaks_into_next", &case,
            &format!("after abort at update {} and a complete IXFR {}->{} readers see {:?}", p, vis.soa, target.soa, a2.final_content));
        for (cls, d) in a1.diff_bad.iter().chain(a2.diff_bad.iter()) { cx.chk(false, cls, &case, d); }
    }
}

/// A transfer with more records than a 16-bit counter holds, spread over many messages
/// (interpreter only): exactly one DeleteAllRecords, every record as AddRecord in order, Finished.
fn large_case(cx: &mut Ctx, qtype: u16, total: u32, per: usize) {
    let uni = cx.uni;
    cx.place(0, &[0]);
    let case = format!("xl {} {} {}", qtype, total, per);
    cx.out.begin(&case);
    let mut recs: Vec<AR> = vec![AR::Soa(14)];
    recs.extend((0..total).map(|i| AR::Other(100_000 + i)));
    recs.push(AR::Soa(14));
    let wire: Vec<Vec<u8>> = recs.chunks(per).map(|c| build_msg(uni, &AMsg::good(true, true, qtype, c.to_vec()), 1)).collect();
    let run = run_interp(uni, &wire);
    let (mut da, mut ad, mut fi, mut ot, mut inorder, mut next) = (0u32, 0u32, 0u32, 0u32, true, 100_000u32);
    for (_, s, _) in &run.upds {
        if s == "DA" { da += 1 } else if let Some(k) = s.strip_prefix("A.O") { if k.parse::<u32>().ok() != Some(next) { inorder = false; } next += 1; ad += 1 }
        else if s.starts_with("F.") { fi += 1 } else { ot += 1 }
    }
    cx.out.case(&case, &format!("DA={} A={} inorder={} F={} other={} {}", da, ad, inorder as u8, fi, ot, st_str(&run.st)), true, "xl");
    cx.chk(run.st != St::Panic, "panic_xfr", &case, "interpreter panicked on a large valid transfer");
    cx.chk(run.st == St::Done && da == 1 && ad == total && inorder && fi == 1 && ot == 0,
        if qtype == 252 { "axfr_content_mismatch" } else { "ixfr_content_mismatch" }, &case,
        &format!("large transfer: status {:?} DeleteAll={} Add={} in order={} Finished={} other={}", run.st, da, ad, inorder, fi, ot));
}

// ---------------------------------------------------------------- the stream client (end-of-transfer detection)

/// Feeds the messages to the real stream transport (net/client/stream.rs) over an in-memory
/// duplex pipe and records what the requester gets: `m` a message, `w` WrongReplyForQuery,
/// `E` end of stream, `C` the connection was closed (by us, after the last message) first.
fn client_case(cx: &mut Ctx, msgs: &[AMsg], wire: &[Vec<u8>]) {
    let Some(q) = msgs.first().and_then(|m| m.qtype) else { return };
    if q != 252 && q != 251 { return; }
    // the model covers streams that answer the request with NOERROR
    // (and whose QDCOUNT matches the questions present: the record iterator would misparse otherwise)
    if !msgs[0].qr || msgs[0].qd != 1 || msgs.iter().any(|m| m.rcode != 0 || m.qd != m.qtype.is_some() as u16) { return; }
    let uni = cx.uni;
    let case = format!("cl {} {}", q, msgs.iter().map(|m| m.words()).collect::<Vec<_>>().join(" "));
    cx.out.begin(&case);
    let rt = cx.rt;
    let wire: Vec<Vec<u8>> = wire.to_vec();
    let res = catch_mut(|| rt.block_on(async {
        let (cli_io, mut srv_io) = tokio::io::duplex(1 << 22);
        let (conn, transport) = cstream::Connection::<RequestMessage<Vec<u8>>, RequestMessageMulti<Vec<u8>>>::new(cli_io);
        let th = tokio::spawn(transport.run());
        let mut qb = MessageBuilder::new_vec().question();
        qb.push((uni.apex.clone(), Rtype::from_int(q), Class::IN)).unwrap();
        let req = RequestMessageMulti::new(qb.into_message()).map_err(|e| e.to_string())?;
        let mut get = SendRequestMulti::send_request(&conn, req);
        // our side of the pipe: read the request, answer with its ID, close
        let srv = async {
            let mut len = [0u8; 2];
            srv_io.read_exact(&mut len).await.map_err(|e| e.to_string())?;
            let mut buf = vec![0u8; u16::from_be_bytes(len) as usize];
            srv_io.read_exact(&mut buf).await.map_err(|e| e.to_string())?;
            for w in &wire {
                let mut w = w.clone();
                w[0] = buf[0]; w[1] = buf[1];
                srv_io.write_all(&(w.len() as u16).to_be_bytes()).await.map_err(|e| e.to_string())?;
                srv_io.write_all(&w).await.map_err(|e| e.to_string())?;
            }
            srv_io.shutdown().await.map_err(|e| e.to_string())?;
            drop(srv_io);
            Ok::<(), String>(())
        };
        let cli = async {
            let mut obs = String::new();
            loop {
                match get.get_response().await {
                    Ok(Some(_)) => obs.push('m'),
                    Ok(None) => { obs.push('E'); break; }
                    Err(CErr::WrongReplyForQuery) => obs.push('w'),
                    Err(_) => { obs.push('C'); break; }
                }
                if obs.len() > wire.len() + 2 { obs.push('?'); break; }
            }
            obs
        };
        let (s, obs) = tokio::join!(srv, cli);
        s?;
        th.abort();
        Ok::<String, String>(obs)
    }));
    match res {
        Ok(Ok(obs)) => cx.out.case(&case, &obs, msgs.len() > 1, "cl"),
        Ok(Err(e)) => { cx.client_skipped += 1; let _ = e; }
        Err(_) => { cx.chk(false, "panic_xfr", &case, "the stream client panicked"); }
    }
}

// ---------------------------------------------------------------- sender side (XFR middleware)

#[derive(Clone)]
struct NextSvc;
impl Service<Vec<u8>, ()> for NextSvc {
    type Target = Vec<u8>;
    type Stream = futures_util::stream::Once<Ready<ServiceResult<Self::Target>>>;
    type Future = Ready<Self::Stream>;
    fn call(&self, _request: Request<Vec<u8>, ()>) -> Self::Future { unreachable!("XFR requests never reach the next service") }
}

#[derive(Clone)]
struct Provider { zone: Zone, diffs: Vec<Arc<InMemoryZoneDiff>>, compat: bool }
impl XfrDataProvider<()> for Provider {
    type Diff = Arc<InMemoryZoneDiff>;
    fn request<Octs>(&self, req: &Request<Octs, ()>, diff_from: Option<Serial>)
        -> Pin<Box<dyn Future<Output = Result<XfrData<Self::Diff>, XfrDataProviderError>> + Sync + Send>>
    where Octs: domain::dep::octseq::Octets + Send + Sync {
        let res = req.message().sole_question().map_err(XfrDataProviderError::ParseError).and_then(|q| {
            if q.qname() == self.zone.apex_name() {
                let diffs = if self.diffs.first().map(|d| d.start_serial) == diff_from { self.diffs.clone() } else { vec![] };
                Ok(XfrData::new(self.zone.clone(), diffs, self.compat))
            } else { Err(XfrDataProviderError::UnknownZone) }
        });
        Box::pin(ready(res))
    }
}

fn stored(uni: &Uni, a: AR) -> Record<StoredName, Data> { let (o, t, d) = uni.concrete(a); Record::new(o, Class::IN, t, d) }

/// header word + items of a real message, for the `x` T2 kind
fn words_of_wire(uni: &Uni, w: &[u8]) -> Option<String> {
    let msg = Message::from_octets(Bytes::from(w.to_vec())).ok()?;
    let h = msg.header(); let c = msg.header_counts();
    let qt = msg.qtype().map(|q| q.to_int().to_string()).unwrap_or("n".into());
    let mut items = vec![];
    for r in msg.answer().ok()?.limit_to::<ZoneRecordData<Bytes, domain::base::ParsedName<Bytes>>>() {
        match r { Ok(r) => items.push(ar_str(uni.abs_parsed(&r))), Err(_) => { items.push("B".into()); break; } }
    }
    Some(format!("{}:{}:{}:{}:{}:{}:{}:{} {}", h.qr() as u8, h.opcode().to_int(), h.rcode().to_int(), h.tc() as u8,
        c.qdcount(), c.ancount(), c.nscount(), qt, if items.is_empty() { "-".to_string() } else { items.join(".") }))
}

/// The sender is a real zone taken through `chain` with ZoneUpdater (so the diffs are the ones
/// the zone reports), served by XfrMiddlewareSvc; the receiver applies the response stream.
/// mode 0 = AXFR, 1 = IXFR with diffs, 2 = IXFR without diffs (AXFR-style fallback).
fn sender_case(cx: &mut Ctx, chain: &[Version], mode: u8, compat: bool, recv_start: &Version, place: u64) {
    let uni = cx.uni;
    { let mut ids: Vec<u32> = chain.iter().map(|v| v.soa).collect(); ids.push(recv_start.soa); cx.place(place, &ids); }
    let new = chain.last().unwrap().clone();
    let label = format!("sender:{}{}", ["axfr", "ixfr", "fallback"][mode as usize], if compat { ":compat" } else { "" });
    let case0 = format!("{} chain={:?} new={}", label, chain.iter().map(|v| v.soa).collect::<Vec<_>>(), new.soa);
    cx.out.begin(&case0);
    // a sender zone that does not change is stored with zone cuts / CNAME nodes (as loaded from a zone file)
    let szone = if chain.len() == 1 { build_zone_special(uni, Some(chain[0].soa), &chain[0].keys) } else { build_zone(uni, Some(chain[0].soa), &chain[0].keys) };
    let rt = cx.rt;
    let built = catch_mut(|| rt.block_on(async {
        let mut diffs = vec![];
        for w in chain.windows(2) {
            let mut up: ZoneUpdater<StoredName> = ZoneUpdater::new(szone.clone()).await.map_err(|e| e.to_string())?;
            up.apply(ZoneUpdate::BeginBatchDelete(stored(uni, AR::Soa(w[0].soa)))).await.map_err(|e| e.to_string())?;
            for k in w[0].keys.difference(&w[1].keys) { up.apply(ZoneUpdate::DeleteRecord(stored(uni, AR::Other(*k)))).await.map_err(|e| e.to_string())?; }
            up.apply(ZoneUpdate::BeginBatchAdd(stored(uni, AR::Soa(w[1].soa)))).await.map_err(|e| e.to_string())?;
            for k in w[1].keys.difference(&w[0].keys) { up.apply(ZoneUpdate::AddRecord(stored(uni, AR::Other(*k)))).await.map_err(|e| e.to_string())?; }
            match up.apply(ZoneUpdate::Finished(stored(uni, AR::Soa(w[1].soa)))).await.map_err(|e| e.to_string())? {
                Some(d) => diffs.push(Arc::new(d)),
                None => return Err("no diff reported".to_string()),
            }
        }
        // the request
        let mb = MessageBuilder::new_vec();
        let mut q = mb.question();
        q.push((uni.apex.clone(), if mode == 0 { Rtype::AXFR } else { Rtype::IXFR })).unwrap();
        let req_msg = if mode == 0 { q.into_message() } else {
            let mut au = q.authority();
            let (o, t, d) = uni.concrete(AR::Soa(chain[0].soa));
            au.push((o, Class::IN, t, d)).unwrap();
            au.into_message()
        };
        let req = Request::new("127.0.0.1:12345".parse().unwrap(), tokio::time::Instant::now(), req_msg,
            TransportSpecificContext::NonUdp(NonUdpTransportContext::new(None)), ());
        let provider = Provider { zone: szone.clone(), diffs: if mode == 2 { vec![] } else { diffs }, compat };
        let sem = || Arc::new(tokio::sync::Semaphore::new(1));
        let res = XfrMiddlewareSvc::<Vec<u8>, NextSvc, (), Provider>::preprocess(sem(), sem(), &req, provider).await;
        let mut stream = match res { Ok(ControlFlow::Break(s)) => s, Ok(ControlFlow::Continue(())) => return Err("not handled".to_string()), Err(rc) => return Err(format!("rcode {}", rc)) };
        let mut wire: Vec<Vec<u8>> = vec![];
        loop {
            match Ok::<_, ()>(stream.next().await) {
                Err(_) => return Err("sender stream timed out".to_string()),
                Ok(None) => break,
                Ok(Some(Err(e))) => return Err(format!("service error {:?}", e)),
                Ok(Some(Ok(cr))) => { if let Some(b) = cr.into_inner().0 { wire.push(b.as_message().as_slice().to_vec()); } }
            }
        }
        Ok(wire)
    }));
    let wire = match built {
        Ok(Ok(w)) => w,
        Ok(Err(e)) => { cx.chk(false, "sender_failed", &case0, &e); return; }
        Err(e) => { cx.chk(false, "panic_xfr", &case0, &format!("sender side panicked: {}", e)); return; }
    };
    let (sender_content, _) = walk_zone(uni, &szone);
    if chain.len() == 1 {
        // a zone that was only built: what its walk reports is what an AXFR sends
        cx.chk(sender_content == spec_content(uni, Some(new.soa), &new.keys), if mode == 0 { "axfr_content_mismatch" } else { "ixfr_content_mismatch" }, &case0,
            &format!("the sender's zone walk reports {:?} for a zone built from {:?}", sender_content, spec_content(uni, Some(new.soa), &new.keys)));
    } else {
        cx.chk(sender_content == spec_content(uni, Some(new.soa), &new.keys), "sender_failed", &case0, "the sender zone is not at the last version of the chain");
    }
    // receiver
    let words: Option<Vec<String>> = wire.iter().map(|w| words_of_wire(uni, w)).collect();
    let run = run_interp(uni, &wire);
    let upd_txt = if run.upds.is_empty() { "-".to_string() } else { run.upds.iter().map(|u| u.1.clone()).collect::<Vec<_>>().join(",") };
    let case = match &words { Some(w) => format!("x {}", w.join(" ")), None => case0.clone() };
    if words.is_some() { cx.out.case(&case, &format!("{} {}", upd_txt, st_str(&run.st)), true, "sender"); } else { cx.out.oracle_case(&case, true, "sender"); }
    // the record order the sender chose (runs of non-SOA records sorted: walk and hash-map order
    // are not part of the contract) against the model's sender functions
    if words.is_some() && run.st != St::Panic {
        let mut seq: Vec<String> = vec![]; let mut cur: Vec<String> = vec![];
        let mut ok = true;
        for w in &wire {
            let Ok(m) = Message::from_octets(Bytes::from(w.clone())) else { ok = false; break };
            let Ok(ans) = m.answer() else { ok = false; break };
            for r in ans.limit_to::<ZoneRecordData<Bytes, domain::base::ParsedName<Bytes>>>() {
                match r.map(|r| uni.abs_parsed(&r)) {
                    Ok(AR::Soa(s)) => { cur.sort(); seq.append(&mut cur); seq.push(format!("S{}", s)); }
                    Ok(AR::Other(k)) => cur.push(format!("O{:06}", k)),
                    Err(_) => ok = false,
                }
            }
        }
        cur.sort(); seq.append(&mut cur);
        if ok {
            let vstr = |v: &Version| format!("{}:{}", v.soa, if v.keys.is_empty() { "-".to_string() } else { v.keys.iter().map(|k| k.to_string()).collect::<Vec<_>>().join(".") });
            let sq = if mode == 1 { format!("sq i {}", chain.iter().map(vstr).collect::<Vec<_>>().join(";")) } else { format!("sq a {}", vstr(&new)) };
            cx.out.case(&sq, &seq.join("."), true, "sq");
        }
    }
    cx.sender_msgs += wire.len() as u64;
    if wire.len() > 1 { cx.sender_multi += 1; }
    cx.chk(run.st != St::Panic, "panic_xfr", &case, &label);
    let rzone = build_zone(uni, Some(recv_start.soa), &recv_start.keys);
    let ap = apply_updates(uni, cx.rt, &rzone, &run.upds);
    let cls = cx.valid_cls(mode);
    let short = format!("{} msgs={} {}", case0, wire.len(), if case.len() > 600 { &case[..600] } else { &case });
    cx.chk(run.st == St::Done && ap.result == "Ok" && ap.fin, cls, &short, &format!("sender-built stream not completed: {:?} / {}", run.st, ap.result));
    // [SOA, SOA] under an IXFR question is an empty IXFR, not an AXFR of an empty zone
    if !(mode == 2 && new.keys.is_empty()) {
    cx.chk(ap.final_content == sender_content, cls, &short, &format!("receiver {:?} sender {:?}", ap.final_content, sender_content));
    // and against the content the sender zone was built from (independent of the sender's zone walk)
    let want = spec_content(uni, Some(new.soa), &new.keys);
    cx.chk(ap.final_content == want, cls, &short, &format!("receiver {:?}, the sender zone holds {:?}", ap.final_content, want));
    }
    cx.chk(ap.changed_outside_commit.is_none(), "partial_version_visible", &short, "readers saw a change outside a commit");
    // the packaging the sender chose must be one the receiver accepts
    if mode != 0 && wire.len() > 1 {
        let first_an = Message::from_octets(Bytes::from(wire[0].clone())).map(|m| m.header_counts().ancount()).unwrap_or(0);
        cx.chk(first_an != 1, "sender_lone_soa_first_message", &short, "the sender put the SOA alone into the first message of a reply to an IXFR question");
    }
}

/// The zone is committed to a new version between the acceptance of an AXFR(-style) request and
/// the start of the zone walk (the only walk permit is held meanwhile).  What the receiver gets
/// must be one sender version in full: SOA framing and records from the same snapshot.
fn sender_race_case(cx: &mut Ctx, old: &Version, new: &Version, mode: u8, recv_start: &Version, place: u64) {
    let uni = cx.uni;
    cx.place(place, &[old.soa, new.soa, recv_start.soa, old.soa.saturating_sub(2)]);
    let label = format!("sender_race:{}", if mode == 0 { "axfr" } else { "fallback" });
    let case0 = format!("{} old={} new={} place={}", label, old.soa, new.soa, place);
    cx.out.begin(&case0);
    cx.out.oracle_case(&case0, true, "sender_race");
    let szone = build_zone(uni, Some(old.soa), &old.keys);
    let rt = cx.rt;
    let built = catch_mut(|| rt.block_on(async {
        let walk_sem = Arc::new(tokio::sync::Semaphore::new(1));
        let permit = walk_sem.clone().acquire_owned().await.map_err(|e| e.to_string())?;
        let mb = MessageBuilder::new_vec();
        let mut q = mb.question();
        q.push((uni.apex.clone(), if mode == 0 { Rtype::AXFR } else { Rtype::IXFR })).unwrap();
        let req_msg = if mode == 0 { q.into_message() } else {
            let mut au = q.authority();
            let (o, t, d) = uni.concrete(AR::Soa(old.soa.saturating_sub(2)));
            au.push((o, Class::IN, t, d)).unwrap();
            au.into_message()
        };
        let req = Request::new("127.0.0.1:12345".parse().unwrap(), tokio::time::Instant::now(), req_msg,
            TransportSpecificContext::NonUdp(NonUdpTransportContext::new(None)), ());
        let provider = Provider { zone: szone.clone(), diffs: vec![], compat: false };
        let res = XfrMiddlewareSvc::<Vec<u8>, NextSvc, (), Provider>::preprocess(walk_sem.clone(), Arc::new(tokio::sync::Semaphore::new(1)), &req, provider).await;
        let mut stream = match res { Ok(ControlFlow::Break(s)) => s, Ok(ControlFlow::Continue(())) => return Err("not handled".to_string()), Err(rc) => return Err(format!("rcode {}", rc)) };
        // let the spawned tasks run up to the permit
        for _ in 0..5 { tokio::task::yield_now().await; }
        // the zone moves on while the transfer waits
        {
            let mut up: ZoneUpdater<StoredName> = ZoneUpdater::new(szone.clone()).await.map_err(|e| e.to_string())?;
            up.apply(ZoneUpdate::BeginBatchDelete(stored(uni, AR::Soa(old.soa)))).await.map_err(|e| e.to_string())?;
            for k in old.keys.difference(&new.keys) { up.apply(ZoneUpdate::DeleteRecord(stored(uni, AR::Other(*k)))).await.map_err(|e| e.to_string())?; }
            up.apply(ZoneUpdate::BeginBatchAdd(stored(uni, AR::Soa(new.soa)))).await.map_err(|e| e.to_string())?;
            for k in new.keys.difference(&old.keys) { up.apply(ZoneUpdate::AddRecord(stored(uni, AR::Other(*k)))).await.map_err(|e| e.to_string())?; }
            up.apply(ZoneUpdate::Finished(stored(uni, AR::Soa(new.soa)))).await.map_err(|e| e.to_string())?;
        }
        for _ in 0..5 { tokio::task::yield_now().await; }
        drop(permit);
        let mut wire: Vec<Vec<u8>> = vec![];
        loop {
            match Ok::<_, ()>(stream.next().await) {
                Err(_) => return Err("sender stream timed out".to_string()),
                Ok(None) => break,
                Ok(Some(Err(e))) => return Err(format!("service error {:?}", e)),
                Ok(Some(Ok(cr))) => { if let Some(b) = cr.into_inner().0 { wire.push(b.as_message().as_slice().to_vec()); } }
            }
        }
        Ok(wire)
    }));
    let wire = match built {
        Ok(Ok(w)) => w,
        Ok(Err(e)) => { cx.chk(false, "sender_failed", &case0, &e); return; }
        Err(e) => { cx.chk(false, "panic_xfr", &case0, &format!("sender side panicked: {}", e)); return; }
    };
    let (sender_now, _) = walk_zone(uni, &szone);
    cx.chk(sender_now == spec_content(uni, Some(new.soa), &new.keys), "sender_failed", &case0, "the sender zone did not move to the new version");
    let run = run_interp(uni, &wire);
    let rzone = build_zone(uni, Some(recv_start.soa), &recv_start.keys);
    let ap = apply_updates(uni, cx.rt, &rzone, &run.upds);
    cx.chk(run.st != St::Panic && ap.result != "Panic", "panic_xfr", &case0, "");
    let (vo, vn) = (spec_content(uni, Some(old.soa), &old.keys), spec_content(uni, Some(new.soa), &new.keys));
    let upd_txt = run.upds.iter().map(|u| u.1.clone()).collect::<Vec<_>>().join(",");
    cx.chk(run.st == St::Done && ap.fin && (ap.final_content == vo || ap.final_content == vn), "axfr_mixed_versions", &case0,
        &format!("status {:?}; updates {}; receiver has {:?}; sender versions {:?} / {:?}", run.st, upd_txt, ap.final_content, vo, vn));
}

// ---------------------------------------------------------------- the middleware's decision table

#[derive(Clone)]
struct DcProvider { zone: Zone, diffs: Vec<Arc<InMemoryZoneDiff>>, compat: bool, mode: u8 }
impl XfrDataProvider<()> for DcProvider {
    type Diff = Arc<InMemoryZoneDiff>;
    fn request<Octs>(&self, _req: &Request<Octs, ()>, _diff_from: Option<Serial>)
        -> Pin<Box<dyn Future<Output = Result<XfrData<Self::Diff>, XfrDataProviderError>> + Sync + Send>>
    where Octs: domain::dep::octseq::Octets + Send + Sync {
        let res = match self.mode {
            0 => Ok(XfrData::new(self.zone.clone(), self.diffs.clone(), self.compat)),
            1 => Err(XfrDataProviderError::ParseError(domain::base::wire::ParseError::ShortInput)),
            2 => Err(XfrDataProviderError::UnknownZone),
            3 => Err(XfrDataProviderError::TemporarilyUnavailable),
            _ => Err(XfrDataProviderError::Refused),
        };
        Box::pin(ready(res))
    }
}

/// One request against XfrMiddlewareSvc::preprocess: what kind of answer comes back.
#[allow(clippy::too_many_arguments)]
fn decision_case(cx: &mut Ctx, place: u64, relevant: u8, qtype: u16, qser: Option<u32>, udp: bool, mode: u8, with_diff: bool, compat: bool, qname_in_zone: bool) {
    let uni = cx.uni;
    let v0 = Version { soa: 40, keys: [0u32, 1, 5].into_iter().collect() };
    let v1 = Version { soa: 44, keys: [0u32, 1, 6, 9].into_iter().collect() };
    cx.place(place, &[v0.soa.saturating_sub(8), v1.soa + 8]);
    let real = |id: u32| -> u32 { (id >> 1).wrapping_add(uni.offset.get()) };
    let zs = real(v1.soa);
    let qser_real = qser.map(|d| zs.wrapping_add(d));    // relative to the zone serial
    let prw = match mode { 0 => format!("ok:{}:{}", with_diff as u8, compat as u8), 1 => "parse".into(), 2 => "unknown".into(), 3 => "unavail".into(), _ => "refused".into() };
    let case = format!("dc {} {} {} {} {} {}", (relevant == 0) as u8, qtype, qser_real.map_or("n".to_string(), |x| x.to_string()), udp as u8, prw,
        if qname_in_zone { zs.to_string() } else { "n".to_string() });
    cx.out.begin(&case);
    let szone = build_zone(uni, Some(v0.soa), &v0.keys);
    let rt = cx.rt;
    let res = catch_mut(|| rt.block_on(async {
        // v0 -> v1 through the updater: the zone's own diff
        let mut up: ZoneUpdater<StoredName> = ZoneUpdater::new(szone.clone()).await.map_err(|e| e.to_string())?;
        up.apply(ZoneUpdate::BeginBatchDelete(stored(uni, AR::Soa(v0.soa)))).await.map_err(|e| e.to_string())?;
        for k in v0.keys.difference(&v1.keys) { up.apply(ZoneUpdate::DeleteRecord(stored(uni, AR::Other(*k)))).await.map_err(|e| e.to_string())?; }
        up.apply(ZoneUpdate::BeginBatchAdd(stored(uni, AR::Soa(v1.soa)))).await.map_err(|e| e.to_string())?;
        for k in v1.keys.difference(&v0.keys) { up.apply(ZoneUpdate::AddRecord(stored(uni, AR::Other(*k)))).await.map_err(|e| e.to_string())?; }
        let d = up.apply(ZoneUpdate::Finished(stored(uni, AR::Soa(v1.soa)))).await.map_err(|e| e.to_string())?.ok_or("no diff")?;
        let mb = MessageBuilder::new_vec();
        let mut q = mb.question();
        match relevant { 1 => q.header_mut().set_qr(true), 2 => q.header_mut().set_opcode(domain::base::iana::Opcode::NOTIFY), _ => {} }
        let qname = if qname_in_zone { uni.apex.clone() } else { nm("www.example.test.") };
        q.push((qname.clone(), Rtype::from_int(qtype))).unwrap();
        if relevant == 3 { q.push((qname.clone(), Rtype::A)).unwrap(); }
        let mut au = q.authority();
        if let Some(sr) = qser_real {
            let soa: Data = ZoneRecordData::Soa(Soa::new(nm("ns1.example.test."), nm("admin.example.test."), Serial(sr),
                Ttl::from_secs(3600), Ttl::from_secs(600), Ttl::from_secs(86400), Ttl::from_secs(300)));
            au.push((uni.apex.clone(), Class::IN, Ttl::from_secs(3600), soa)).unwrap();
        }
        let ctx = if udp { TransportSpecificContext::Udp(domain::net::server::message::UdpTransportContext::new(None)) }
                  else { TransportSpecificContext::NonUdp(NonUdpTransportContext::new(None)) };
        let req = Request::new("127.0.0.1:12345".parse().unwrap(), tokio::time::Instant::now(), au.into_message(), ctx, ());
        let provider = DcProvider { zone: szone.clone(), diffs: if with_diff { vec![Arc::new(d)] } else { vec![] }, compat, mode };
        let sem = || Arc::new(tokio::sync::Semaphore::new(1));
        let r = XfrMiddlewareSvc::<Vec<u8>, NextSvc, (), DcProvider>::preprocess(sem(), sem(), &req, provider).await;
        let mut stream = match r {
            Ok(ControlFlow::Continue(())) => return Ok("continue".to_string()),
            Err(rc) => return Ok(format!("err{}", rc.to_int())),
            Ok(ControlFlow::Break(s)) => s,
        };
        let mut msgs: Vec<Vec<u8>> = vec![];
        loop {
            match Ok::<_, ()>(stream.next().await) {
                Err(_) => return Err("timeout".to_string()),
                Ok(None) => break,
                Ok(Some(Err(e))) => return Err(format!("service error {:?}", e)),
                Ok(Some(Ok(cr))) => { if let Some(b) = cr.into_inner().0 { msgs.push(b.as_message().as_slice().to_vec()); } }
            }
        }
        // classify the answer
        let mut rcode = 0u8; let mut soas = 0usize; let mut total = 0usize; let mut one_per_msg = true;
        for w in &msgs {
            let m = Message::from_octets(Bytes::from(w.clone())).map_err(|_| "short")?;
            rcode = m.header().rcode().to_int();
            let n = m.header_counts().ancount() as usize;
            if n != 1 { one_per_msg = false; }
            total += n;
            for r in m.answer().map_err(|_| "answer")?.limit_to::<ZoneRecordData<Bytes, domain::base::ParsedName<Bytes>>>() {
                if let Ok(r) = r { if r.rtype() == Rtype::SOA { soas += 1; } }
            }
        }
        Ok(if rcode == 4 { "notimp".to_string() }
           else if rcode != 0 { format!("rcode{}", rcode) }
           else if total == 1 && soas == 1 { "single".to_string() }
           else if soas == 2 { format!("axfr{}", (one_per_msg && msgs.len() > 1) as u8) }
           else if soas >= 4 { "ixfr".to_string() }
           else { format!("unclassified:{}:{}", total, soas) })
    }));
    match res {
        Ok(Ok(obs)) => cx.out.case(&case, &obs, true, "dc"),
        Ok(Err(e)) => { cx.chk(false, "sender_failed", &case, &e); }
        Err(_) => cx.out.case(&case, "panic", true, "dc"),
    }
}

// ---------------------------------------------------------------- TSIG signed transfers

fn build_additional(uni: &Uni, m: &AMsg) -> AdditionalBuilder<BytesMut> {
    let mut mb = MessageBuilder::from_target(BytesMut::new()).unwrap();
    mb.header_mut().set_id(0x1234);
    mb.header_mut().set_qr(true);
    mb.header_mut().set_aa(true);
    let mut q = mb.question();
    if let Some(qt) = m.qtype { q.push((uni.apex.clone(), Rtype::from_int(qt), Class::IN)).unwrap(); }
    let mut an = q.answer();
    for r in &m.recs { let (o, t, d) = uni.concrete(*r); an.push((o, Class::IN, t, d)).unwrap(); }
    an.additional()
}

/// The stream is signed message by message with ServerSequence and validated with
/// ClientSequence before each message reaches the interpreter.  A valid stream must come
/// through unchanged; with a message dropped, duplicated or moved the validation must refuse
/// (TSIG chains every MAC to the previous one), before Finished reaches the updater.
fn tsig_case(cx: &mut Ctx, r: &mut Rng, mode: u8, chain: &[Version], z0: &Version, cuts: &[usize], fault: &str) {
    let uni = cx.uni;
    { let mut ids: Vec<u32> = chain.iter().map(|v| v.soa).collect(); ids.push(z0.soa); let k = r.below(4); cx.place(k, &ids); }
    let new = chain.last().unwrap().clone();
    let recs = match mode { 1 => ixfr_records(chain), _ => axfr_records(&new, r) };
    let mut chunks = chunks_of(&recs, cuts);
    if mode != 0 && chunks.len() > 1 && chunks[0].len() == 1 { let c = chunks.remove(1); chunks[0].extend(c); }
    let qtype = if mode == 0 { 252 } else { 251 };
    let msgs = package(r, qtype, chunks);
    let label = format!("tsig:{}:{}", ["axfr", "ixfr", "fallback"][mode as usize], fault);
    let case = format!("{} :: {}", label, msgs.iter().map(|m| m.words()).collect::<Vec<_>>().join(" "));
    cx.out.begin(&case);
    cx.out.oracle_case(&case, true, "tsig");
    let key = Key::new(Algorithm::Sha256, b"0123456789abcdef0123456789abcdef", KeyName::from_str("xfr-key.").unwrap(), None, None).unwrap();
    let now = Time48::from_u64(1_700_000_000);
    // request
    let mut q = MessageBuilder::new_vec().question();
    q.header_mut().set_id(0x1234);
    q.push((uni.apex.clone(), Rtype::from_int(qtype), Class::IN)).unwrap();
    let mut reqb = q.additional();
    let Ok(mut cs) = ClientSequence::request(&key, &mut reqb, now) else { cx.chk(false, "tsig_stream_rejected", &case, "cannot sign the request"); return; };
    let mut reqm = Message::from_octets(reqb.finish()).unwrap();
    let Ok(Some(mut ss)) = ServerSequence::request(&&key, &mut reqm, now) else { cx.chk(false, "tsig_stream_rejected", &case, "server refuses the signed request"); return; };
    let mut wire: Vec<Vec<u8>> = vec![];
    for m in &msgs {
        let mut ab = build_additional(uni, m);
        if ss.answer(&mut ab, now).is_err() { cx.chk(false, "tsig_stream_rejected", &case, "cannot sign a response"); return; }
        wire.push(ab.finish().to_vec());
    }
    let n = wire.len();
    match fault {
        "none" => {}
        "drop_middle" => { if n < 3 { return; } let i = 1 + r.below(n as u64 - 2) as usize; wire.remove(i); }
        "dup_middle" => { if n < 3 { return; } let i = 1 + r.below(n as u64 - 2) as usize; let w = wire[i].clone(); wire.insert(i, w); }
        "swap" => { if n < 3 { return; } let i = 1 + r.below(n as u64 - 2) as usize; let j = if i + 1 < n - 1 { i + 1 } else { i - 1 }; if i == j || j == 0 { return; } wire.swap(i, j); }
        _ => { if n < 2 { return; } wire.remove(n - 1); }   // drop_last
    }
    let plain = run_interp(uni, &msgs.iter().map(|m| build_msg(uni, m, 0)).collect::<Vec<_>>());
    let mut refused = false;
    let run = run_interp_with(uni, &wire, &mut |_, w| {
        let mut m = Message::from_octets(w).ok()?;
        match cs.answer(&mut m, now) { Ok(()) => Some(m.as_slice().to_vec()), Err(_) => { refused = true; None } }
    });
    let done_ok = cs.done().is_ok();
    let zone = build_zone(uni, Some(z0.soa), &z0.keys);
    let ap = apply_updates(uni, cx.rt, &zone, &run.upds);
    cx.chk(run.st != St::Panic && ap.result != "Panic", "panic_xfr", &case, "");
    let old_content = spec_content(uni, Some(z0.soa), &z0.keys);
    if fault == "none" {
        let same = run.upds.iter().map(|u| &u.1).eq(plain.upds.iter().map(|u| &u.1));
        cx.chk(!refused && done_ok && run.st == St::Done && same, "tsig_stream_rejected", &case, &format!("status {:?} refused={} done_ok={}", run.st, refused, done_ok));
        cx.chk(ap.final_content == spec_content(uni, Some(new.soa), &new.keys), if mode == 0 { "axfr_content_mismatch" } else { "ixfr_content_mismatch" }, &case, "signed stream");
    } else if fault == "drop_last" {
        cx.chk(run.st != St::Done, "fault_accepted_tsig_drop_last", &case, &format!("{:?}", run.st));
    } else {
        // the MAC chain is broken at the first message that is out of place
        cx.chk(refused && run.st == St::Err(20), &format!("fault_accepted_tsig_{}", fault), &case, &format!("status {:?}", run.st));
        if mode != 1 { cx.chk(ap.final_content == old_content, "partial_version_visible", &case, "readers do not see the old version"); }
    }
}

const HDR_FAULTS: [&str; 12] = ["rcode", "tc", "qr0", "opcode", "ancount0", "nscount", "qd0_first", "qd2", "wrong_question", "no_question_type", "first_not_soa", "ancount_gt"];

fn fault_case(cx: &mut Ctx, r: &mut Rng, mode: u8, chain: &[Version], cuts: &[usize], comp: u8, fault: &str) {
    let uni = cx.uni;
    { let ids: Vec<u32> = chain.iter().map(|v| v.soa).collect(); let k = r.below(4); cx.place(k, &ids); }
    let new = chain.last().unwrap().clone();
    let z0 = chain[0].clone();
    let recs = match mode { 1 => ixfr_records(chain), _ => axfr_records(&new, r) };
    let qtype = if mode == 0 { 252 } else { 251 };
    let mut chunks = chunks_of(&recs, cuts);
    if mode != 0 && chunks.len() > 1 && chunks[0].len() == 1 { let c = chunks.remove(1); chunks[0].extend(c); }
    let old_content = spec_content(uni, Some(z0.soa), &z0.keys);
    let label = format!("{}:{}", ["axfr", "ixfr", "fallback"][mode as usize], fault);
    let mut versions: Vec<Content> = vec![old_content.clone()];
    if mode == 1 { for v in chain { versions.push(spec_content(uni, Some(v.soa), &v.keys)); } }
    let new_content = spec_content(uni, Some(new.soa), &new.keys);
    let kind = format!("fault_{}", fault);
    match fault {
        "rcode" | "tc" | "qr0" | "opcode" | "ancount0" | "nscount" | "qd0_first" | "qd2" | "wrong_question" | "no_question_type" | "first_not_soa" | "ancount_gt" => {
            let mut msgs = package(r, qtype, chunks);
            let first_only = matches!(fault, "qd0_first" | "wrong_question" | "no_question_type" | "first_not_soa");
            let i = if first_only { 0 } else if fault == "qd2" { if msgs.len() < 2 { return; } 1 + r.below(msgs.len() as u64 - 1) as usize } else { r.below(msgs.len() as u64) as usize };
            {
                let m = &mut msgs[i];
                match fault {
                    "rcode" => m.rcode = *r.pick(&[1u8, 2, 3, 5, 9, 15]),
                    "tc" => m.tc = true,
                    "qr0" => m.qr = false,
                    "opcode" => m.opcode = *r.pick(&[1u8, 2, 4, 5]),
                    "ancount0" => { m.recs.clear(); }
                    "nscount" => m.ns = 1 + r.below(3) as u16,
                    "qd0_first" => { m.qd = 0; m.qtype = None; }
                    "qd2" => { m.qd = 2 + r.below(3) as u16; m.qtype = Some(qtype); }
                    "wrong_question" => m.qtype = Some(*r.pick(&[1u16, 6, 255, 250, 253, 0, 65535])),
                    "no_question_type" => m.qtype = Some(if qtype == 252 { 2 } else { 28 }),
                    "first_not_soa" => { let k = r.below(uni.n() as u64) as u32; m.recs[0] = AR::Other(k); }
                    _ => { m.an_override = Some(m.recs.len() as u16 + 1 + r.below(2) as u16); }
                }
            }
            // updates expected before the faulty message: those of the clean prefix
            let (st, ap, _) = run_stream(cx, &label, &msgs, comp, &z0, true, &kind);
            let case = format!("{} at msg {} :: {}", label, i, msgs.iter().map(|m| m.words()).collect::<Vec<_>>().join(" "));
            let cls = format!("fault_accepted_{}", fault);
            if fault == "ancount_gt" {
                // the records present still parse; the error comes when the iterator runs dry
                cx.chk(matches!(st, St::Err(_)) || st == St::Done, &cls, &case, &format!("status {:?}", st));
                if let St::Err(_) = st { cx.chk(versions.contains(&ap.final_content) || ap.final_content == new_content, "partial_version_visible", &case, "readers see a non-version"); }
            } else {
                let want = if fault == "first_not_soa" { St::Err(1) } else { St::Err(1) };
                // the stream may legitimately have finished before message i only if the final SOA came earlier (never here)
                cx.chk(st == want, &cls, &case, &format!("status {:?}", st));
                cx.chk(versions.contains(&ap.final_content) && (i > 0 || ap.final_content == old_content), "partial_version_visible", &case, "readers do not see the old version");
                if mode != 1 { cx.chk(ap.final_content == old_content, "partial_version_visible", &case, "AXFR: readers do not see the old version"); }
            }
        }
        "truncate" | "mismatched_soa" | "mismatched_soa_fields" | "drop_last" => {
            let mut recs2 = recs.clone();
            match fault {
                "truncate" => { let keep = 1 + r.below(recs.len() as u64 - 1) as usize; recs2.truncate(keep); }
                "mismatched_soa" => { let l = recs2.len() - 1; recs2[l] = AR::Soa(new.soa + 2 + 2 * r.below(3) as u32); }
                "mismatched_soa_fields" => { let l = recs2.len() - 1; recs2[l] = AR::Soa(new.soa ^ 1); }
                _ => { if chunks.len() < 2 { return; } let l = chunks.last().unwrap().len(); recs2.truncate(recs.len() - l); }
            }
            // an IXFR whose intermediate "old" SOA equals the final SOA cannot occur (serials increase)
            let mut ch = chunks_of(&recs2, cuts);
            if mode != 0 && ch.len() > 1 && ch[0].len() == 1 { let c = ch.remove(1); ch[0].extend(c); }
            let msgs = package(r, qtype, ch);
            let (st, ap, _) = run_stream(cx, &label, &msgs, comp, &z0, true, &kind);
            let case = format!("{} :: {}", label, msgs.iter().map(|m| m.words()).collect::<Vec<_>>().join(" "));
            let cls = format!("fault_accepted_{}", fault);
            // a one-record IXFR prefix is the "single SOA" answer: reported as Err14
            cx.chk(st != St::Done && st != St::Panic, &cls, &case, &format!("status {:?}", st));
            cx.chk(!ap.fin, &cls, &case, "updater finished");
            cx.chk(versions.contains(&ap.final_content), "partial_version_visible", &case, &format!("readers see {:?}", ap.final_content));
            if mode != 1 { cx.chk(ap.final_content == old_content, "partial_version_visible", &case, "AXFR: readers do not see the old version"); }
        }
        "dup_last" | "dup_middle" | "drop_middle" | "swap" | "dup_first" | "drop_first" => {
            let mut msgs = package(r, qtype, chunks);
            let n = msgs.len();
            match fault {
                "dup_last" => { let m = msgs[n - 1].clone(); msgs.push(m); }
                "dup_middle" => { if n < 3 { return; } let i = 1 + r.below(n as u64 - 2) as usize; let m = msgs[i].clone(); msgs.insert(i, m); }
                "drop_middle" => { if n < 3 { return; } let i = 1 + r.below(n as u64 - 2) as usize; msgs.remove(i); }
                "swap" => { if n < 2 { return; } let i = r.below(n as u64) as usize; let mut j = r.below(n as u64) as usize; if i == j { j = (j + 1) % n; } msgs.swap(i, j); }
                "dup_first" => { let m = msgs[0].clone(); msgs.insert(1, m); }
                _ => { if n < 2 { return; } msgs.remove(0); }
            }
            let (st, ap, _) = run_stream(cx, &label, &msgs, comp, &z0, true, &kind);
            let case = format!("{} :: {}", label, msgs.iter().map(|m| m.words()).collect::<Vec<_>>().join(" "));
            let cls = format!("fault_accepted_{}", fault);
            match fault {
                "dup_last" => {
                    // the transfer completes, then the extra message is refused
                    cx.chk(st == St::Err(3), &cls, &case, &format!("status {:?}", st));
                    cx.chk(ap.final_content == new_content, if mode == 0 { "axfr_content_mismatch" } else { "ixfr_content_mismatch" }, &case, "content after refused extra message");
                }
                "dup_middle" if mode != 1 => {
                    // RFC 5936: duplicates must be ignored by the client; as a set the content is the sender's
                    let dedup: Content = ap.final_content.iter().map(|(k, v)| { let mut d = v.1.clone(); d.dedup(); (k.clone(), (v.0, d)) }).collect();
                    cx.chk(st == St::Done && dedup == new_content, "axfr_content_mismatch", &case, &format!("status {:?}", st));
                }
                _ => {
                    if st == St::Done || ap.fin { *cx.undetected.entry(fault.to_string()).or_insert(0) += 1; }
                    else if mode == 1 {
                        // a scrambled IXFR stream is committed batch by batch (BeginBatchDelete commits by
                        // design; neither the interpreter nor the updater checks that the SOAs of successive
                        // difference sequences chain): counted, not asserted
                        if !versions.contains(&ap.final_content) { *cx.undetected.entry(format!("ixfr_unchained_commit_{}", fault)).or_insert(0) += 1; }
                    }
                    else { cx.chk(versions.contains(&ap.final_content), "partial_version_visible", &case, &format!("readers see {:?}", ap.final_content)); }
                }
            }
        }
        _ => unreachable!(),
    }
}

fn all_cuts(n: usize) -> Vec<Vec<usize>> {
    // every subset of the n-1 possible cut positions
    (0u32..(1 << (n - 1))).map(|m| (1..n).filter(|i| m & (1 << (i - 1)) != 0).collect()).collect()
}

fn main() {
    let a = args();
    let mut out = Out::new(&a, "C10", 60);
    let mut r = Rng::new(a.seed);
    let uni = Uni::new();
    let rt = tokio::runtime::Builder::new_current_thread().enable_all().build().unwrap();
    let mut cx = Ctx { client_skipped: 0, good_histories: 0, force_place: None, wrapped: false, wrap_cases: 0, sender_msgs: 0, sender_multi: 0, fails: BTreeMap::new(), uni: &uni, rt: &rt, out: &mut out, ttl_kind: false, lone_soa: 0, undetected: BTreeMap::new(), diffs: 0 };
    let ks = |v: &[u32]| -> BTreeSet<u32> { v.iter().cloned().collect() };

    // ---- corpus ----
    let v10 = Version { soa: 20, keys: ks(&[0, 1, 3, 5, 6, 9]) };
    let v11 = Version { soa: 22, keys: ks(&[0, 1, 3, 5, 7, 9, 11]) };
    let v12 = Version { soa: 26, keys: ks(&[0, 1, 5, 7, 11, 12, 15]) };
    let empty = Version { soa: 0, keys: ks(&[]) };
    for comp in 0..3u8 {
        valid_case(&mut cx, &mut r, 0, &[v10.clone()], &empty, false, &[], comp);
        valid_case(&mut cx, &mut r, 0, &[v10.clone()], &v12, true, &[1, 3], comp);
        valid_case(&mut cx, &mut r, 1, &[v10.clone(), v11.clone()], &v10, true, &[], comp);
        valid_case(&mut cx, &mut r, 1, &[v10.clone(), v11.clone(), v12.clone()], &v10, true, &[2, 5, 6], comp);
        valid_case(&mut cx, &mut r, 2, &[v11.clone()], &v10, true, &[3], comp);
        // lone SOA first message under an IXFR question (documented limit)
        valid_case(&mut cx, &mut r, 2, &[v11.clone()], &v10, true, &[1], comp);
        valid_case(&mut cx, &mut r, 1, &[v10.clone(), v11.clone()], &v10, true, &[1, 4], comp);
    }
    // serial chains across the wrap: 0xFFFFFFFE -> 0xFFFFFFFF -> 2 -> 7 (place 3), across 2^32 and 2^31 in the middle
    {
        let c0 = Version { soa: 200, keys: ks(&[0, 1, 5, 9]) };
        let c1 = Version { soa: 202, keys: ks(&[0, 1, 5, 11]) };
        let c2 = Version { soa: 208, keys: ks(&[0, 1, 12, 15]) };
        let c3 = Version { soa: 218, keys: ks(&[0, 1, 12, 13]) };
        for place in [3u64, 1, 2] {
            cx.force_place = Some(place);
            for comp in 0..3u8 {
                valid_case(&mut cx, &mut r, 1, &[c0.clone(), c1.clone(), c2.clone(), c3.clone()], &c0, true, &[3, 7], comp);
                valid_case(&mut cx, &mut r, 1, &[c0.clone(), c1.clone()], &c0, true, &[], comp);
                valid_case(&mut cx, &mut r, 0, &[c3.clone()], &c0, true, &[2], comp);      // AXFR refresh across the wrap
                valid_case(&mut cx, &mut r, 2, &[c3.clone()], &c1, true, &[2], comp);
            }
            abort_case(&mut cx, &mut r, &[c0.clone(), c1.clone(), c2.clone(), c3.clone()], None, 1);
            unchained_case(&mut cx, &mut r, &[c0.clone(), c1.clone(), c2.clone(), c3.clone()], "middle", 0, 1);
            unchained_case(&mut cx, &mut r, &[c0.clone(), c1.clone(), c2.clone()], "base", 0, 1);
            sender_case(&mut cx, &[c0.clone(), c1.clone(), c2.clone(), c3.clone()], 1, false, &c0, place);
            sender_case(&mut cx, &[c3.clone()], 0, false, &c0, place);
            sender_case(&mut cx, &[c0.clone(), c3.clone()], 2, false, &c0, place);
        }
        cx.force_place = None;
    }
    // IXFR delete sections that empty RRsets of two and three records one record at a time
    {
        let wa = Version { soa: 60, keys: ks(&[0, 1, 5, 6, 7, 9]) };
        let wb = Version { soa: 62, keys: ks(&[9]) };
        let wc = Version { soa: 64, keys: ks(&[0, 5, 9, 11]) };
        for comp in 0..3u8 {
            valid_case(&mut cx, &mut r, 1, &[wa.clone(), wb.clone()], &wa, true, &[], comp);
            valid_case(&mut cx, &mut r, 1, &[wa.clone(), wb.clone(), wc.clone()], &wa, true, &[4], comp);
            valid_case(&mut cx, &mut r, 1, &[wa.clone(), wc.clone()], &wa, true, &[], comp);
        }
    }
    // single SOA IXFR answer ("up to date" / retry over TCP)
    {
        cx.place(0, &[0]);
        let msgs = vec![AMsg::good(true, true, 251, vec![AR::Soa(20)])];
        let (st, ap, _) = run_stream(&mut cx, "ixfr_single_soa", &msgs, 1, &v10, true, "corpus");
        cx.chk(st == St::Err(14) && ap.final_content == spec_content(&uni, Some(20), &v10.keys), "ixfr_single_soa", "x single soa", &format!("{:?}", st));
        // regression: question type A with a SOA answer (was unreachable!())
        let msgs = vec![AMsg::good(true, true, 1, vec![AR::Soa(20)])];
        let (st, _, _) = run_stream(&mut cx, "qtype_a", &msgs, 0, &v10, true, "corpus");
        cx.chk(st == St::Err(1), "xfr_non_xfr_question_unreachable", "x qtype A + SOA", &format!("{:?}", st));
    }

    // ---- exhaustive packagings of short sequences ----
    let max_len = if a.thorough { 9 } else { 7 };
    for mode in 0..3u8 {
        let chain: Vec<Version> = match mode {
            1 => vec![Version { soa: 40, keys: ks(&[0, 5]) }, Version { soa: 42, keys: ks(&[0, 6]) }, Version { soa: 44, keys: ks(&[0, 6, 9]) }],
            _ => vec![Version { soa: 40, keys: ks(&[0, 5, 6, 13, 16]) }],
        };
        let z0 = if mode == 1 { chain[0].clone() } else { Version { soa: 30, keys: ks(&[0, 2, 9, 14]) } };
        let n = match mode { 1 => ixfr_records(&chain).len(), _ => chain[0].keys.len() + 2 };
        if n > max_len + 2 { continue; }
        for cuts in all_cuts(n) {
            valid_case(&mut cx, &mut r, mode, &chain, &z0, true, &cuts, (cuts.len() % 3) as u8);
        }
    }

    // ---- random valid streams ----
    let n_valid = (if a.thorough { 6000 } else { 500 }) * a.scale;
    for i in 0..n_valid {
        if !cx.out.wants(i) { continue; }
        let mode = r.below(3) as u8;
        let mut fr = r.fork();
        let mut base = Version { soa: 2 * (1 + fr.below(1000) as u32) + fr.below(2) as u32, keys: rand_keys(&mut fr, &uni, 10) };
        if fr.chance(1, 2) { for k in [0u32, 1, 5, 6, 7] { base.keys.insert(k); } }
        let comp = fr.below(3) as u8;
        match mode {
            1 => {
                let steps = 1 + fr.below(4);
                let mut chain = vec![base.clone()];
                for _ in 0..steps { let nx = mutate(&mut fr, &uni, chain.last().unwrap()); chain.push(nx); }
                let n = ixfr_records(&chain).len();
                let cuts = rand_cuts(&mut fr, n);
                valid_case(&mut cx, &mut fr, 1, &chain, &base, true, &cuts, comp);
            }
            _ => {
                let z0 = Version { soa: 2 * fr.below(500) as u32, keys: rand_keys(&mut fr, &uni, 8) };
                let has = fr.chance(4, 5);
                let n = base.keys.len() + 2;
                let cuts = rand_cuts(&mut fr, n);
                let z0 = if has { z0 } else { Version { soa: 0, keys: BTreeSet::new() } };
                valid_case(&mut cx, &mut fr, mode, &[base], &z0, has, &cuts, comp);
            }
        }
    }

    // ---- aborted transfers followed by another transfer ----
    {
        let wa = Version { soa: 60, keys: ks(&[0, 1, 5, 6, 7, 9]) };
        let wb = Version { soa: 62, keys: ks(&[0, 5, 9, 11]) };
        let wc = Version { soa: 64, keys: ks(&[0, 5, 12, 15]) };
        let wd = Version { soa: 70, keys: ks(&[1, 5, 9, 13]) };
        abort_case(&mut cx, &mut r, &[wa.clone(), wb.clone(), wc.clone()], Some(&wd), 1);
        abort_case(&mut cx, &mut r, &[wa.clone(), wb.clone(), wc.clone()], None, 2);
        // an aborted batch that removed every RRset of some names (update-then-remove of the RRsets within
        // one unpublished version), then a successful IXFR that reuses that version number and touches
        // the same names again
        let xa = Version { soa: 80, keys: ks(&[0, 1, 5, 6, 7, 11, 12, 13]) };
        let xb = Version { soa: 82, keys: ks(&[0, 1, 5, 6, 7, 9, 11, 12, 13]) };
        let xc = Version { soa: 84, keys: ks(&[0, 1, 9]) };
        let xd = Version { soa: 90, keys: ks(&[0, 1, 5, 9, 11, 14]) };
        for place in [0u64, 1] {
            cx.force_place = Some(place);
            abort_case(&mut cx, &mut r, &[xa.clone(), xb.clone(), xc.clone()], Some(&xd), 0);
            abort_case(&mut cx, &mut r, &[xa.clone(), xb.clone(), xc.clone()], None, 2);
            abort_case(&mut cx, &mut r, &[xa.clone(), xb.clone(), xc.clone(), xd.clone()], None, 1);
        }
        cx.force_place = None;
        let n_abort = (if a.thorough { 150 } else { 10 }) * a.scale;
        for _ in 0..n_abort {
            let mut fr = r.fork();
            let mut base = Version { soa: 2 * (1 + fr.below(1000) as u32), keys: rand_keys(&mut fr, &uni, 8) };
            if fr.chance(1, 2) { for k in [0u32, 1, 5, 6, 7] { base.keys.insert(k); } }
            let mut chain = vec![base];
            for _ in 0..(2 + fr.below(3)) { let nx = mutate(&mut fr, &uni, chain.last().unwrap()); chain.push(nx); }
            let other = if fr.chance(1, 2) { Some(Version { soa: chain.last().unwrap().soa + 10, keys: rand_keys(&mut fr, &uni, 8) }) } else { None };
            let comp = fr.below(3) as u8;
            abort_case(&mut cx, &mut fr, &chain, other.as_ref(), comp);
        }
    }

    // ---- the middleware's decision table ----
    {
        let sers: [Option<u32>; 6] = [None, Some(0), Some(1), Some(u32::MAX), Some(0x7FFF_FFFF), Some(0x8000_0000)];   // relative to the zone serial
        let mut n = 0u64;
        for qtype in [252u16, 251, 1] { for qs in sers { for udp in [false, true] { for with_diff in [false, true] { for compat in [false, true] {
            // a diff handed out for an AXFR question reaches unreachable!(): provider contract, kept out of the quick sweep
            if qtype == 252 && with_diff && !udp { continue; }
            decision_case(&mut cx, n % 4, 0, qtype, qs, udp, 0, with_diff, compat, true);
            n += 1;
        } } } } }
        for mode in 1..5u8 { for qtype in [252u16, 251] { decision_case(&mut cx, n % 4, 0, qtype, Some(u32::MAX), false, mode, false, false, true); n += 1; } }
        for rel in 1..4u8 { decision_case(&mut cx, 0, rel, 252, None, false, 0, false, false, true); }
        decision_case(&mut cx, 0, 0, 252, None, false, 0, false, false, false);       // no SOA at the qname
        decision_case(&mut cx, 1, 0, 251, Some(u32::MAX), false, 0, true, false, false);
        decision_case(&mut cx, 0, 0, 252, None, false, 0, true, false, true);         // diffs for an AXFR question: unreachable!()
    }

    // ---- transfers with more than 65535 records in all ----
    large_case(&mut cx, 252, 70_000, 2_000);
    large_case(&mut cx, 251, 65_535, 2_000);
    if a.thorough {
        for t in [65_533u32, 65_534, 65_535, 65_536, 131_073] { large_case(&mut cx, 252, t, 2_000); large_case(&mut cx, 251, t, 1_999); }
    }

    // ---- streams produced by the real sender (XfrMiddlewareSvc + batcher) ----
    {
        let va = Version { soa: 80, keys: ks(&[0, 1, 3, 5, 6, 9]) };
        let vb = Version { soa: 82, keys: ks(&[0, 1, 3, 5, 7, 9, 11]) };
        let vc = Version { soa: 86, keys: ks(&[0, 1, 5, 7, 11, 12, 15]) };
        let other = Version { soa: 30, keys: ks(&[0, 2, 9, 14]) };
        sender_case(&mut cx, &[va.clone()], 0, false, &other, 0);
        sender_case(&mut cx, &[va.clone()], 0, true, &other, 1);          // one record per message
        sender_case(&mut cx, &[va.clone(), vb.clone()], 1, false, &va, 2);
        sender_case(&mut cx, &[va.clone(), vb.clone(), vc.clone()], 1, false, &va, 3);
        sender_case(&mut cx, &[va.clone(), vb.clone()], 2, false, &va, 0);
        sender_case(&mut cx, &[va.clone(), vb.clone()], 2, true, &va, 1);  // compat mode must not apply to IXFR questions
        // a delegation stored as a zone cut with in-domain glue under other owner names, a CNAME node
        let vz = Version { soa: 88, keys: ks(&[0, 1, 5, 16, 17, 18, 22, 23]) };
        for (i, (mode, compat)) in [(0u8, false), (0, true), (2, false), (2, true)].into_iter().enumerate() {
            sender_case(&mut cx, &[vz.clone()], mode, compat, &other, i as u64);
        }
        // big zones: several messages (64 KiB each)
        let bulk = |from: u32, n: u32| -> BTreeSet<u32> { (0..n).map(|i| 1000 + from + i).chain([0u32, 1, 5]).collect() };
        let ba = Version { soa: 90, keys: bulk(0, 420) };
        let bb = Version { soa: 92, keys: bulk(300, 420) };
        sender_case(&mut cx, &[ba.clone()], 0, false, &other, 2);
        sender_case(&mut cx, &[ba.clone(), bb.clone()], 1, false, &ba, 3);   // multi-message IXFR
        sender_case(&mut cx, &[ba.clone(), bb.clone()], 2, false, &ba, 0);   // multi-message fallback
        // the zone changes between the request and the walk
        sender_race_case(&mut cx, &va, &vc, 0, &other, 0);
        sender_race_case(&mut cx, &va, &vc, 2, &va, 1);
        sender_race_case(&mut cx, &ba, &bb, 0, &other, 3);
        let n_r = (if a.thorough { 100 } else { 8 }) * a.scale;
        for i in 0..n_r {
            let mut fr = r.fork();
            let mut o = Version { soa: 2 * (2 + fr.below(1000) as u32), keys: rand_keys(&mut fr, &uni, 10) };
            o.keys.insert(0);   // [SOA, SOA] under an IXFR question is an empty IXFR, not an AXFR of an empty zone
            let mut nw = mutate(&mut fr, &uni, &o);
            nw.keys.insert(1);
            let start = Version { soa: 2 * fr.below(500) as u32, keys: rand_keys(&mut fr, &uni, 6) };
            let pl = fr.below(4);
            sender_race_case(&mut cx, &o, &nw, if i % 2 == 0 { 0 } else { 2 }, &start, pl);
        }
        let n_s = (if a.thorough { 300 } else { 25 }) * a.scale;
        for i in 0..n_s {
            let mut fr = r.fork();
            let base = Version { soa: 2 * (1 + fr.below(1000) as u32), keys: rand_keys(&mut fr, &uni, 10) };
            let mut chain = vec![base.clone()];
            for _ in 0..(1 + fr.below(3)) { let nx = mutate(&mut fr, &uni, chain.last().unwrap()); chain.push(nx); }
            let mode = (i % 3) as u8;
            let compat = fr.chance(1, 3);
            let start = if mode == 0 { Version { soa: 2 * fr.below(500) as u32, keys: rand_keys(&mut fr, &uni, 8) } } else { base };
            if mode == 0 || (mode == 2 && fr.chance(1, 2)) { let mut last = chain.last().unwrap().clone(); if fr.chance(1, 2) { for k in [17u32, 18, 22] { last.keys.insert(k); } } let st2 = if mode == 0 { start.clone() } else { last.clone() }; sender_case(&mut cx, &[last], mode, compat, &st2, fr.below(4)); }
            else { sender_case(&mut cx, &chain, mode, compat, &start, fr.below(4)); }
        }
    }

    // ---- TSIG signed streams ----
    {
        let n_t = (if a.thorough { 150 } else { 12 }) * a.scale;
        for i in 0..n_t {
            for fault in ["none", "drop_middle", "dup_middle", "swap", "drop_last"] {
                let mut fr = r.fork();
                let mode = (i % 3) as u8;
                let mut base = Version { soa: 2 * (1 + fr.below(1000) as u32), keys: rand_keys(&mut fr, &uni, 8) };
                base.keys.insert(0);
                let mut chain = vec![base.clone()];
                for _ in 0..(1 + fr.below(3)) { let nx = mutate(&mut fr, &uni, chain.last().unwrap()); chain.push(nx); }
                if mode != 1 { let mut nw = chain.last().unwrap().clone(); nw.keys.insert(3); nw.keys.insert(9); nw.keys.insert(12); chain = vec![nw]; }
                let nrec = match mode { 1 => ixfr_records(&chain).len(), _ => chain[0].keys.len() + 2 };
                let cuts: Vec<usize> = if fault == "none" { rand_cuts(&mut fr, nrec) } else { (1..nrec).filter(|_| fr.chance(2, 3)).collect() };
                tsig_case(&mut cx, &mut fr, mode, &chain, &base, &cuts, fault);
            }
        }
    }

    // ---- IXFR difference sequences that do not chain ----
    {
        let wa = Version { soa: 60, keys: ks(&[0, 1, 5, 9]) };
        let wb = Version { soa: 62, keys: ks(&[0, 1, 5, 11]) };
        let wc = Version { soa: 64, keys: ks(&[0, 1, 12, 15]) };
        let wd = Version { soa: 66, keys: ks(&[0, 1, 12, 13]) };
        unchained_case(&mut cx, &mut r, &[wa.clone(), wb.clone(), wc.clone()], "base", 0, 1);
        unchained_case(&mut cx, &mut r, &[wa.clone(), wb.clone(), wc.clone(), wd.clone()], "middle", 0, 2);
        let n_un = (if a.thorough { 200 } else { 20 }) * a.scale;
        for i in 0..n_un {
            let mut fr = r.fork();
            let base = Version { soa: 2 * (1 + fr.below(1000) as u32), keys: rand_keys(&mut fr, &uni, 8) };
            let mut chain = vec![base];
            for _ in 0..(3 + fr.below(2)) { let nx = mutate(&mut fr, &uni, chain.last().unwrap()); chain.push(nx); }
            let seed = fr.next(); let comp = fr.below(3) as u8;
            unchained_case(&mut cx, &mut fr, &chain, if i % 2 == 0 { "base" } else { "middle" }, seed, comp);
        }
    }

    // ---- TTL changes (oracle only: the abstract updater model has no TTLs) ----
    cx.ttl_kind = true;
    {
        let va = Version { soa: 50, keys: ks(&[0, 1, 5, 6]) };
        let vb = Version { soa: 52, keys: ks(&[0, 1, 105, 106]) };
        let vc = Version { soa: 50, keys: ks(&[0, 9]) };
        let vd = Version { soa: 54, keys: ks(&[0, 109]) };
        valid_case(&mut cx, &mut r, 1, &[va.clone(), vb.clone()], &va, true, &[], 1);
        valid_case(&mut cx, &mut r, 1, &[vc.clone(), vd.clone()], &vc, true, &[], 1);
        valid_case(&mut cx, &mut r, 0, &[vb.clone()], &va, true, &[], 1);
        valid_case(&mut cx, &mut r, 0, &[vd.clone()], &vc, true, &[3], 2);
        let n_ttl = (if a.thorough { 600 } else { 60 }) * a.scale;
        for _ in 0..n_ttl {
            let mut fr = r.fork();
            let base = Version { soa: 2 * (1 + fr.below(1000) as u32), keys: rand_keys(&mut fr, &uni, 8) };
            let mut nx = mutate(&mut fr, &uni, &base);
            // re-TTL whole RRsets: all records of an (owner, type) move together
            let pick: Vec<u32> = nx.keys.iter().cloned().filter(|_| fr.chance(1, 2)).collect();
            for k in pick {
                let (o, _, d) = uni.concrete(AR::Other(k));
                let same: Vec<u32> = nx.keys.iter().cloned().filter(|j| { let (o2, _, d2) = uni.concrete(AR::Other(*j)); o2 == o && d2.rtype() == d.rtype() }).collect();
                for j in same { if j < 100 { nx.keys.remove(&j); nx.keys.insert(j + 100); } }
            }
            let mode = fr.below(2) as u8;
            let chain = if mode == 1 { vec![base.clone(), nx.clone()] } else { vec![nx.clone()] };
            let n = if mode == 1 { ixfr_records(&chain).len() } else { nx.keys.len() + 2 };
            let mut cuts = rand_cuts(&mut fr, n);
            if mode == 1 { cuts.retain(|c| *c != 1); }
            let comp = fr.below(3) as u8; valid_case(&mut cx, &mut fr, mode, &chain, &base, true, &cuts, comp);
        }
    }
    cx.ttl_kind = false;

    // ---- faults ----
    let faults: Vec<&str> = HDR_FAULTS.iter().cloned().chain(["truncate", "mismatched_soa", "mismatched_soa_fields", "drop_last",
        "dup_last", "dup_middle", "drop_middle", "swap", "dup_first", "drop_first"].iter().cloned()).collect();
    let n_fault = (if a.thorough { 400 } else { 30 }) * a.scale;
    for f in &faults {
        for i in 0..n_fault {
            let mut fr = r.fork();
            let mode = (i % 3) as u8;
            let base = Version { soa: 2 * (1 + fr.below(1000) as u32), keys: rand_keys(&mut fr, &uni, 8) };
            let mut chain = vec![base.clone()];
            if mode == 2 && chain[0].keys.is_empty() { chain[0].keys.insert(0); }
            let steps = 1 + fr.below(3);
            for _ in 0..steps { let nx = mutate(&mut fr, &uni, chain.last().unwrap()); chain.push(nx); }
            if mode != 1 {
                // AXFR: chain = [start zone, new zone]; new must be non-empty for the fallback
                let mut nw = chain.last().unwrap().clone();
                if nw.keys.is_empty() { nw.keys.insert(3); }
                chain = vec![chain[0].clone(), nw];
            }
            let n = match mode { 1 => ixfr_records(&chain).len(), _ => chain.last().unwrap().keys.len() + 2 };
            let cuts = rand_cuts(&mut fr, n);
            let comp = fr.below(3) as u8;
            fault_case(&mut cx, &mut fr, mode, &chain, &cuts, comp, f);
        }
    }

    cx.place(0, &[0]);
    // ---- random garbage record streams (totality, T2) ----
    let n_junk = (if a.thorough { 4000 } else { 400 }) * a.scale;
    for _ in 0..n_junk {
        let mut fr = r.fork();
        let qtype = *fr.pick(&[252u16, 251, 251]);
        let len = 1 + fr.below(9) as usize;
        let soas = [10u32, 10, 12, 14, 11];
        let recs: Vec<AR> = (0..len).map(|i| if fr.chance(2, 5) || (i == 0 && fr.chance(9, 10)) { AR::Soa(*fr.pick(&soas)) } else { AR::Other(fr.below(6) as u32) }).collect();
        let cuts = rand_cuts(&mut fr, len);
        let msgs = package(&mut fr, qtype, chunks_of(&recs, &cuts));
        let z0 = Version { soa: 10, keys: ks(&[0, 1, 2, 3]) };
        let (st, ap, _) = run_stream(&mut cx, "junk", &msgs, fr.below(3) as u8, &z0, true, "junk");
        let _ = (st, ap);
    }

    let lone = cx.lone_soa; let diffs = cx.diffs;
    let und = format!("{{{}}}", cx.undetected.iter().map(|(k, v)| format!("{}: {}", json_str(k), v)).collect::<Vec<_>>().join(","));
    let fc = format!("{{{}}}", cx.fails.iter().map(|(k, v)| format!("{}: {}", json_str(k), v)).collect::<Vec<_>>().join(","));
    let (smsgs, smulti) = (cx.sender_msgs, cx.sender_multi);
    let wraps = cx.wrap_cases; let goods = cx.good_histories;
    let cskip = cx.client_skipped;
    out.finish(&[("client_cases_skipped", cskip.to_string()), ("good_diff_histories", goods.to_string()), ("serial_wrap_cases", wraps.to_string()), ("sender_messages", smsgs.to_string()), ("sender_multi_message_streams", smulti.to_string()), ("failures_by_class", fc), ("lone_soa_first_msg", lone.to_string()), ("undetected_by_design", und), ("diffs_checked", diffs.to_string())]);
}
