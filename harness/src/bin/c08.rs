//! C08 -- in-memory zone answers follow RFC 1034 4.3.2 / RFC 4592 and depend
//! only on the zone's current content.
//!
//! T2: every case is `<ops...> ? <qname> <qtype>`; the ops build a zone
//! (ZoneBuilder, parsed::Zonefile, ZoneUpdater, write interface) and the
//! observation is the canonicalised answer message.  The extracted Coq model
//! replays the same ops on its tree and must print the same line.
//!
//! Oracle (independent of the model): an RFC 1034/4592 lookup written here on a
//! flat record set, compared with (a) zones built from a record set and (b)
//! zones reached through update histories ending in that record set, and (c)
//! history-built zone vs directly built zone.
use bytes::Bytes;
use domain::base::iana::{Class, DigestAlgorithm, Rcode, Rtype, SecurityAlgorithm};
use domain::base::name::{Label, Name, ParsedName, ToLabelIter, ToName};
use domain::base::rdata::RecordData;
use domain::base::net::{Ipv4Addr, Ipv6Addr};
use domain::base::{Message, MessageBuilder, Record, Serial, Ttl};
use domain::rdata::{Aaaa, Cname, Ds, Ns, Soa, Txt, ZoneRecordData, A};
use domain::zonetree::parsed::Zonefile;
use domain::zonetree::types::{StoredRecord, StoredRecordData, ZoneCut, ZoneUpdate};
use domain::zonetree::update::ZoneUpdater;
use domain::zonetree::{Rrset, SharedRr, SharedRrset, WritableZone, WritableZoneNode, Zone, ZoneBuilder};
use dv_harness::*;
use std::collections::{BTreeMap, BTreeSet};

const APEX: &str = "zone.test.";
/// How names are spelled towards the implementation (DNS names compare case-insensitively, so
/// nothing may depend on it): bit 0 = the zone is created with a mixed-case apex name, bit 1 = the apex
/// part of owner names in operations is spelled differently, bit 2 = the relative labels of owner
/// names are upper-cased.  The model only ever sees lower-cased relative names.
static SPELL: std::sync::atomic::AtomicU8 = std::sync::atomic::AtomicU8::new(0);
fn spell() -> u8 { SPELL.load(std::sync::atomic::Ordering::SeqCst) }
fn apex_for_zone() -> Name<Bytes> { Name::bytes_from_str(if spell() & 1 != 0 { "Zone.TEST." } else { APEX }).unwrap() }
fn mixed(s: &str) -> String { s.chars().enumerate().map(|(i, c)| if i % 2 == 0 { c.to_ascii_uppercase() } else { c }).collect() }

const T_A: u16 = 1;
const T_NS: u16 = 2;
const T_CNAME: u16 = 5;
const T_SOA: u16 = 6;
const T_TXT: u16 = 16;
const T_AAAA: u16 = 28;
const T_DS: u16 = 43;
const T_ANY: u16 = 255;

// ---------------------------------------------------------------- names

/// A name relative to the apex, labels from the apex downwards.
#[derive(Clone, PartialEq, Eq, Hash, PartialOrd, Ord, Debug, Default)]
struct Rel(Vec<String>);

impl Rel {
    fn apex() -> Rel { Rel(vec![]) }
    fn parse(s: &str) -> Rel {
        if s == "@" { return Rel(vec![]); }
        let mut v: Vec<String> = s.split('.').map(|x| x.to_string()).collect();
        v.reverse();
        Rel(v)
    }
    fn show(&self) -> String {
        if self.0.is_empty() { return "@".into(); }
        let mut v = self.0.clone();
        v.reverse();
        v.join(".")
    }
    fn child(&self, l: &str) -> Rel { let mut v = self.0.clone(); v.push(l.to_string()); Rel(v) }
    fn parent(&self) -> Rel { let mut v = self.0.clone(); v.pop(); Rel(v) }
    fn is_prefix_of(&self, o: &Rel) -> bool { o.0.len() >= self.0.len() && o.0[..self.0.len()] == self.0[..] }
    fn abs(&self) -> Name<Bytes> {
        let sp = spell();
        let apex = if sp & 2 != 0 { "zONE.tesT." } else { APEX };
        if self.0.is_empty() { return Name::bytes_from_str(apex).unwrap(); }
        let rel = if sp & 4 != 0 { self.show().to_ascii_uppercase() } else { self.show() };
        Name::bytes_from_str(&format!("{}.{}", rel, apex)).unwrap()
    }
    /// the name as a client might spell it: 1 = apex labels upper-case, 2 = every label in mixed case
    fn abs_query(&self, variant: u8) -> Name<Bytes> {
        let (rel, apex) = match variant { 1 => (self.show(), "ZONE.TEST.".to_string()), 2 => (mixed(&self.show()), mixed(APEX)), _ => (self.show(), APEX.to_string()) };
        if self.0.is_empty() { return Name::bytes_from_str(&apex).unwrap(); }
        Name::bytes_from_str(&format!("{}.{}", rel, apex)).unwrap()
    }
    fn from_abs(n: &impl ToName) -> Option<Rel> {
        let apex = Name::bytes_from_str(APEX).unwrap();
        let mut labels: Vec<&Label> = n.iter_labels().collect();
        let mut ap: Vec<&Label> = apex.iter_labels().collect();
        labels.reverse(); ap.reverse();
        if labels.len() < ap.len() { return None; }
        for i in 0..ap.len() { if labels[i] != ap[i] { return None; } }
        Some(Rel(labels[ap.len()..].iter().map(|l| {
            String::from_utf8_lossy(l.as_slice()).to_ascii_lowercase()
        }).collect()))
    }
}

// ---------------------------------------------------------------- rdata

/// Abstract rdata: a token, or (NS / CNAME) a target inside the zone.
#[derive(Clone, PartialEq, Eq, Hash, PartialOrd, Ord, Debug)]
enum Rd { Tok(u32), Tgt(Rel) }

impl Rd {
    fn show(&self) -> String { match self { Rd::Tok(t) => t.to_string(), Rd::Tgt(r) => format!("@{}", r.show()) } }
    fn parse(s: &str) -> Rd { if let Some(r) = s.strip_prefix('@') { Rd::Tgt(Rel::parse(r)) } else { Rd::Tok(s.parse().unwrap()) } }
    fn name(&self) -> Name<Bytes> {
        match self {
            Rd::Tgt(r) => r.abs(),
            Rd::Tok(t) => Name::bytes_from_str(&format!("h{}.other.test.", t)).unwrap(),
        }
    }
    fn of_name(n: &impl ToName) -> Rd {
        if let Some(r) = Rel::from_abs(n) { return Rd::Tgt(r); }
        let first = n.iter_labels().next().unwrap();
        let s = String::from_utf8_lossy(first.as_slice()).to_string();
        Rd::Tok(s[1..].parse().unwrap_or(999_999))
    }
}

fn mk_data(rtype: u16, rd: &Rd) -> StoredRecordData {
    let tok = match rd { Rd::Tok(t) => *t, Rd::Tgt(_) => 0 };
    match rtype {
        T_A => ZoneRecordData::A(A::new(Ipv4Addr::new(10, (tok >> 16) as u8, (tok >> 8) as u8, tok as u8))),
        T_AAAA => ZoneRecordData::Aaaa(Aaaa::new(Ipv6Addr::new(0x2001, 0xdb8, 0, 0, 0, 0, (tok >> 16) as u16, tok as u16))),
        T_NS => ZoneRecordData::Ns(Ns::new(rd.name())),
        T_CNAME => ZoneRecordData::Cname(Cname::new(rd.name())),
        T_SOA => {
            let ap = Name::bytes_from_str(APEX).unwrap();
            ZoneRecordData::Soa(Soa::new(ap.clone(), ap, Serial(tok), Ttl::from_secs(1), Ttl::from_secs(2), Ttl::from_secs(3), Ttl::from_secs(4)))
        }
        T_DS => ZoneRecordData::Ds(Ds::new(tok as u16, SecurityAlgorithm::RSASHA256, DigestAlgorithm::SHA256,
            Bytes::from(vec![(tok >> 16) as u8, 1, 2, 3])).unwrap()),
        _ => ZoneRecordData::Txt(Txt::<Bytes>::build_from_slice(format!("t{}", tok).as_bytes()).unwrap()),
    }
}

/// Inverse of `mk_data` for everything this harness creates.
fn rd_of<N: ToName>(d: &ZoneRecordData<Bytes, N>) -> (u16, Rd) {
    match d {
        ZoneRecordData::A(a) => { let o = a.addr().octets(); (T_A, Rd::Tok(((o[1] as u32) << 16) | ((o[2] as u32) << 8) | o[3] as u32)) }
        ZoneRecordData::Aaaa(a) => { let s = a.addr().segments(); (T_AAAA, Rd::Tok(((s[6] as u32) << 16) | s[7] as u32)) }
        ZoneRecordData::Ns(n) => (T_NS, Rd::of_name(n.nsdname())),
        ZoneRecordData::Cname(n) => (T_CNAME, Rd::of_name(n.cname())),
        ZoneRecordData::Soa(s) => (T_SOA, Rd::Tok(s.serial().0)),
        ZoneRecordData::Ds(d) => (T_DS, Rd::Tok(d.key_tag() as u32 | ((d.digest().as_ref()[0] as u32) << 16))),
        ZoneRecordData::Txt(t) => {
            let v: Vec<u8> = t.text::<Vec<u8>>();
            let s = String::from_utf8_lossy(&v).to_string();
            (T_TXT, Rd::Tok(s[1..].parse().unwrap_or(999_999)))
        }
        other => (other.rtype().to_int(), Rd::Tok(999_998)),
    }
}

#[derive(Clone, PartialEq, Eq, Hash, PartialOrd, Ord, Debug)]
struct Rec { owner: Rel, rtype: u16, ttl: u32, rd: Rd }

impl Rec {
    fn show(&self) -> String { format!("{}:{}:{}:{}", self.owner.show(), self.rtype, self.ttl, self.rd.show()) }
    fn show_slash(&self) -> String { format!("{}/{}/{}/{}", self.owner.show(), self.rtype, self.ttl, self.rd.show()) }
    fn stored(&self) -> StoredRecord {
        Record::new(self.owner.abs(), Class::IN, Ttl::from_secs(self.ttl), mk_data(self.rtype, &self.rd))
    }
    fn parsed(&self) -> Record<ParsedName<Bytes>, ZoneRecordData<Bytes, ParsedName<Bytes>>> {
        let tok = match &self.rd { Rd::Tok(t) => *t, Rd::Tgt(_) => 0 };
        let pn = |n: Name<Bytes>| ParsedName::from(n);
        let data: ZoneRecordData<Bytes, ParsedName<Bytes>> = match self.rtype {
            T_NS => ZoneRecordData::Ns(Ns::new(pn(self.rd.name()))),
            T_CNAME => ZoneRecordData::Cname(Cname::new(pn(self.rd.name()))),
            T_SOA => {
                let ap = Name::bytes_from_str(APEX).unwrap();
                ZoneRecordData::Soa(Soa::new(pn(ap.clone()), pn(ap), Serial(tok), Ttl::from_secs(1), Ttl::from_secs(2), Ttl::from_secs(3), Ttl::from_secs(4)))
            }
            T_A => match mk_data(T_A, &self.rd) { ZoneRecordData::A(a) => ZoneRecordData::A(a), _ => unreachable!() },
            T_AAAA => match mk_data(T_AAAA, &self.rd) { ZoneRecordData::Aaaa(a) => ZoneRecordData::Aaaa(a), _ => unreachable!() },
            T_DS => match mk_data(T_DS, &self.rd) { ZoneRecordData::Ds(a) => ZoneRecordData::Ds(a), _ => unreachable!() },
            _ => match mk_data(T_TXT, &self.rd) { ZoneRecordData::Txt(a) => ZoneRecordData::Txt(a), _ => unreachable!() },
        };
        Record::new(pn(self.owner.abs()), Class::IN, Ttl::from_secs(self.ttl), data)
    }
}

#[derive(Clone, PartialEq, Eq, Debug)]
struct RrsetD { rtype: u16, ttl: u32, rds: Vec<Rd> }

impl RrsetD {
    fn shared(&self) -> SharedRrset {
        let mut r = Rrset::new(Rtype::from_int(self.rtype), Ttl::from_secs(self.ttl));
        for d in &self.rds { r.push_data(mk_data(self.rtype, d)); }
        SharedRrset::new(r)
    }
    fn show_rds(&self) -> String { if self.rds.is_empty() { "-".into() } else { self.rds.iter().map(|r| r.show()).collect::<Vec<_>>().join(",") } }
}

#[derive(Clone, PartialEq, Eq, Debug)]
struct CutD { name: Rel, ns: RrsetD, ds: Option<RrsetD>, glue: Vec<Rec> }

impl CutD {
    fn show(&self) -> String {
        let ds = match &self.ds { None => "-".to_string(), Some(d) => format!("{}+{}", d.ttl, d.rds.iter().map(|r| r.show()).collect::<Vec<_>>().join("+")) };
        let glue = if self.glue.is_empty() { "-".to_string() } else { self.glue.iter().map(|g| g.show_slash()).collect::<Vec<_>>().join(",") };
        format!("{}:{}:{}:{}:{}", self.name.show(), self.ns.ttl, self.ns.show_rds(), ds, glue)
    }
    fn zonecut(&self) -> ZoneCut {
        ZoneCut { name: self.name.abs(), ns: self.ns.shared(), ds: self.ds.as_ref().map(|d| d.shared()), glue: self.glue.iter().map(|g| g.stored()).collect() }
    }
}

// ---------------------------------------------------------------- ops

#[derive(Clone, Debug)]
enum Op {
    Spell(u8),
    BRr(Rel, RrsetD),
    BCut(CutD),
    BCname(Rel, u32, Rd),
    ZRec(Rec),
    UNew, UAdd(Rec), UDel(Rec), UDelAll, UBatchDel(u32), UBatchAdd(u32), UFin(u32), UDrop,
    WOpen, WRr(Rel, RrsetD), WRm(Rel, u16), WCut(Rel, CutD), WCname(Rel, u32, Rd), WRegular(Rel), WRemoveAll(Rel), WCommit, WDrop,
}

impl Op {
    fn show(&self) -> String {
        match self {
            Op::Spell(n) => format!("sp:{}", n),
            Op::BRr(n, r) => format!("b:{}:{}:{}:{}", n.show(), r.rtype, r.ttl, r.show_rds()),
            Op::BCut(c) => format!("c:{}", c.show()),
            Op::BCname(n, ttl, rd) => format!("n:{}:{}:{}", n.show(), ttl, rd.show()),
            Op::ZRec(r) => format!("z:{}", r.show()),
            Op::UNew => "un".into(),
            Op::UAdd(r) => format!("u+:{}", r.show()),
            Op::UDel(r) => format!("u-:{}", r.show()),
            Op::UDelAll => "ux".into(),
            Op::UBatchDel(t) => format!("ub:{}", t),
            Op::UBatchAdd(t) => format!("ua:{}", t),
            Op::UFin(t) => format!("uf:{}", t),
            Op::UDrop => "ud".into(),
            Op::WOpen => "wo".into(),
            Op::WRr(n, r) => format!("wr:{}:{}:{}:{}", n.show(), r.rtype, r.ttl, r.show_rds()),
            Op::WRm(n, t) => format!("wm:{}:{}", n.show(), t),
            Op::WCut(n, c) => format!("wc:{}:{}", n.show(), c.show()),
            Op::WCname(n, ttl, rd) => format!("wn:{}:{}:{}", n.show(), ttl, rd.show()),
            Op::WRegular(n) => format!("wg:{}", n.show()),
            Op::WRemoveAll(n) => format!("wx:{}", n.show()),
            Op::WCommit => "wk".into(),
            Op::WDrop => "wd".into(),
        }
    }
    fn is_history(&self) -> bool { !matches!(self, Op::Spell(_) | Op::BRr(..) | Op::BCut(..) | Op::BCname(..) | Op::ZRec(..)) }
}

fn show_ops(ops: &[Op]) -> String { ops.iter().map(|o| o.show()).collect::<Vec<_>>().join(" ") }

// ---------------------------------------------------------------- running ops on the implementation

struct Built { zone: Zone, errs: Vec<String> }

/// Serial (token) of the zone's SOA, if it has one.
fn soa_tok(z: &Flat) -> Option<u32> {
    z.m.get(&(Rel::apex(), T_SOA)).and_then(|(_, rds)| rds.iter().next().and_then(|rd| if let Rd::Tok(t) = rd { Some(*t) } else { None }))
}

fn soa_rec(tok: u32) -> Rec { Rec { owner: Rel::apex(), rtype: T_SOA, ttl: 60, rd: Rd::Tok(tok) } }

async fn node_at(root: &Box<dyn WritableZoneNode>, path: &Rel) -> Option<Box<dyn WritableZoneNode>> {
    let mut cur: Option<Box<dyn WritableZoneNode>> = None;
    for l in &path.0 {
        let lab = Label::from_slice(l.as_bytes()).unwrap();
        let next = match &cur { None => root.update_child(lab).await.unwrap(), Some(n) => n.update_child(lab).await.unwrap() };
        cur = Some(next);
    }
    cur
}

async fn run_ops(ops: &[Op]) -> Built {
    SPELL.store(match ops.first() { Some(Op::Spell(n)) => *n, _ => 0 }, std::sync::atomic::Ordering::SeqCst);
    let apex = apex_for_zone();
    let mut errs: Vec<String> = vec![];
    let mut builder: Option<ZoneBuilder> = Some(ZoneBuilder::new(apex.clone(), Class::IN));
    let mut zonefile: Option<Zonefile> = None;
    let mut zone: Option<Zone> = None;
    let mut updater: Option<ZoneUpdater<ParsedName<Bytes>>> = None;
    let mut wz: Option<Box<dyn WritableZone>> = None;
    let mut wroot: Option<Box<dyn WritableZoneNode>> = None;
    for (i, op) in ops.iter().enumerate() {
        if op.is_history() && zone.is_none() {
            zone = Some(finish_build(&mut builder, &mut zonefile, &mut errs, i));
        }
        match op {
            Op::Spell(_) => {}
            Op::BRr(n, r) => { if let Err(_) = builder.as_mut().unwrap().insert_rrset(&n.abs(), r.shared()) { errs.push(format!("{}:OutOfZone", i)); } }
            Op::BCut(c) => {
                let zc = c.zonecut();
                if let Err(e) = builder.as_mut().unwrap().insert_zone_cut(&c.name.abs(), zc.ns, zc.ds, zc.glue) {
                    errs.push(format!("{}:{}", i, match e { domain::zonetree::error::ZoneCutError::ZoneCutAtApex => "CutAtApex", _ => "OutOfZone" }));
                }
            }
            Op::BCname(n, ttl, rd) => {
                let rr = SharedRr::new(Ttl::from_secs(*ttl), mk_data(T_CNAME, rd));
                if let Err(e) = builder.as_mut().unwrap().insert_cname(&n.abs(), rr) {
                    errs.push(format!("{}:{}", i, match e { domain::zonetree::error::CnameError::CnameAtApex => "CnameAtApex", _ => "OutOfZone" }));
                }
            }
            Op::ZRec(r) => {
                if zonefile.is_none() { zonefile = Some(Zonefile::new(apex.clone(), Class::IN)); }
                if let Err(e) = zonefile.as_mut().unwrap().insert(r.stored()) {
                    use domain::zonetree::error::RecordError as E;
                    errs.push(format!("{}:{}", i, match e { E::IllegalZoneCut(..) => "IllegalZoneCut", E::IllegalRecord(..) => "IllegalRecord",
                        E::IllegalCname(..) => "IllegalCname", E::MultipleCnames(..) => "MultipleCnames", _ => "OtherRecordError" }));
                }
            }
            Op::UNew => { updater = Some(ZoneUpdater::new(zone.clone().unwrap()).await.unwrap()); }
            Op::UAdd(_) | Op::UDel(_) | Op::UDelAll | Op::UBatchDel(_) | Op::UBatchAdd(_) | Op::UFin(_) => {
                let u = updater.as_mut().unwrap();
                let upd = match op {
                    Op::UAdd(r) => ZoneUpdate::AddRecord(r.parsed()),
                    Op::UDel(r) => ZoneUpdate::DeleteRecord(r.parsed()),
                    Op::UDelAll => ZoneUpdate::DeleteAllRecords,
                    Op::UBatchDel(t) => ZoneUpdate::BeginBatchDelete(soa_rec(*t).parsed()),
                    Op::UBatchAdd(t) => ZoneUpdate::BeginBatchAdd(soa_rec(*t).parsed()),
                    Op::UFin(t) => ZoneUpdate::Finished(soa_rec(*t).parsed()),
                    _ => unreachable!(),
                };
                if let Err(e) = u.apply(upd).await {
                    use domain::zonetree::update::Error as E;
                    errs.push(format!("{}:{}", i, match e { E::Finished => "Finished", E::OutOfZone => "OutOfZone", E::NotSoaRecord => "NotSoa", E::IoError(_) => "Io", E::SoaMismatch => "SoaMismatch" }));
                }
            }
            Op::UDrop => { updater = None; }
            Op::WOpen => {
                let w = zone.as_ref().unwrap().write().await;
                wroot = Some(w.open(false).await.unwrap());
                wz = Some(w);
            }
            Op::WRr(n, r) => {
                let root = wroot.as_ref().unwrap();
                let res = match node_at(root, n).await { Some(nd) => nd.update_rrset(r.shared()).await, None => root.update_rrset(r.shared()).await };
                if res.is_err() { errs.push(format!("{}:Io", i)); }
            }
            Op::WRm(n, t) => {
                let root = wroot.as_ref().unwrap();
                let res = match node_at(root, n).await { Some(nd) => nd.remove_rrset(Rtype::from_int(*t)).await, None => root.remove_rrset(Rtype::from_int(*t)).await };
                if res.is_err() { errs.push(format!("{}:Io", i)); }
            }
            Op::WCut(n, c) => {
                let root = wroot.as_ref().unwrap();
                let res = match node_at(root, n).await { Some(nd) => nd.make_zone_cut(c.zonecut()).await, None => root.make_zone_cut(c.zonecut()).await };
                if res.is_err() { errs.push(format!("{}:NotAllowed", i)); }
            }
            Op::WCname(n, ttl, rd) => {
                let root = wroot.as_ref().unwrap();
                let rr = SharedRr::new(Ttl::from_secs(*ttl), mk_data(T_CNAME, rd));
                let res = match node_at(root, n).await { Some(nd) => nd.make_cname(rr).await, None => root.make_cname(rr).await };
                if res.is_err() { errs.push(format!("{}:NotAllowed", i)); }
            }
            Op::WRegular(n) => {
                let root = wroot.as_ref().unwrap();
                let res = match node_at(root, n).await { Some(nd) => nd.make_regular().await, None => root.make_regular().await };
                if res.is_err() { errs.push(format!("{}:Io", i)); }
            }
            Op::WRemoveAll(n) => {
                let root = wroot.as_ref().unwrap();
                let res = match node_at(root, n).await { Some(nd) => nd.remove_all().await, None => root.remove_all().await };
                if res.is_err() { errs.push(format!("{}:Io", i)); }
            }
            Op::WCommit => {
                wroot = None;
                if let Some(w) = wz.as_mut() { let _ = w.commit(false).await; }
                wz = None;
            }
            Op::WDrop => { wroot = None; wz = None; }
        }
    }
    if zone.is_none() { zone = Some(finish_build(&mut builder, &mut zonefile, &mut errs, ops.len())); }
    drop(updater); drop(wroot); drop(wz);
    Built { zone: zone.unwrap(), errs }
}

fn finish_build(builder: &mut Option<ZoneBuilder>, zonefile: &mut Option<Zonefile>, errs: &mut Vec<String>, i: usize) -> Zone {
    if let Some(zf) = zonefile.take() {
        match ZoneBuilder::try_from(zf) {
            Ok(b) => b.build(),
            Err(_) => { errs.push(format!("{}:ZoneErrors", i)); builder.take().unwrap().build() }
        }
    } else {
        builder.take().unwrap().build()
    }
}

// ---------------------------------------------------------------- observation

#[derive(Clone, PartialEq, Eq, Debug, Default)]
struct Obs {
    rcode: u8,
    aa: bool,
    answer: BTreeSet<String>,     // type/ttl/rd
    authority: BTreeSet<String>,  // owner/type/ttl/rd
    additional: BTreeSet<String>, // owner/type/ttl/rd
    n_answer: usize, n_auth: usize, n_add: usize,
    /// answer and authority sections in message order (the additional section's order follows a hash map)
    answer_seq: Vec<String>, auth_seq: Vec<String>,
    out_of_zone: bool,
}

fn set_show(s: &BTreeSet<String>) -> String { if s.is_empty() { "-".into() } else { s.iter().cloned().collect::<Vec<_>>().join(",") } }

impl Obs {
    fn kind(&self) -> &'static str {
        if self.out_of_zone { return "outofzone"; }
        if self.rcode == 3 { return "nxdomain"; }
        if !self.aa { return "referral"; }
        if self.answer.iter().any(|r| r.starts_with("5/")) { return "cname_or_data"; }
        if self.answer.is_empty() { "nodata" } else { "data" }
    }
    /// canonical T2 line; ANY data answers are replaced by a placeholder
    fn line(&self, errs: &[String], qtype: u16) -> String {
        if self.out_of_zone { return "OutOfZone".into(); }
        // which RRset an ANY query returns depends on hash order: placeholder here, membership in the oracle
        let an = if qtype == T_ANY && self.aa && self.rcode == 0 && !self.answer.is_empty() { "ANY".to_string() } else { set_show(&self.answer) };
        let seq = |v: &Vec<String>| if v.is_empty() { "-".to_string() } else { v.join(";") };
        let ans = if an == "ANY" { "ANY".to_string() } else { seq(&self.answer_seq) };
        format!("{} {} AN={} AU={} AD={} ANS={} AUS={} E={}", self.rcode, self.aa as u8, an, set_show(&self.authority), set_show(&self.additional),
            ans, seq(&self.auth_seq), if errs.is_empty() { "-".to_string() } else { errs.join(",") })
    }
    fn dup_free(&self) -> bool { self.n_answer == self.answer.len() && self.n_auth == self.authority.len() && self.n_add == self.additional.len() }
}

fn observe(zone: &Zone, q: &Rel, qtype: u16, oz: bool) -> Obs { observe_v(zone, q, qtype, oz, 0) }
fn observe_v(zone: &Zone, q: &Rel, qtype: u16, oz: bool, variant: u8) -> Obs {
    let qname = if oz { Name::bytes_from_str("x.elsewhere.test.").unwrap() } else { q.abs_query(variant) };
    let rt = Rtype::from_int(qtype);
    let ans = match zone.read().query(qname.clone(), rt) { Ok(a) => a, Err(_) => return Obs { out_of_zone: true, ..Default::default() } };
    let mut qb = MessageBuilder::new_vec().question();
    qb.push((qname, rt)).unwrap();
    let qmsg: Message<Vec<u8>> = qb.into();
    let msg: Message<Bytes> = ans.to_message(&qmsg, MessageBuilder::new_bytes()).into();
    let mut o = Obs { rcode: msg.header().rcode().to_int(), aa: msg.header().aa(), ..Default::default() };
    debug_assert!(ans.rcode() == Rcode::NOERROR || ans.rcode() == Rcode::NXDOMAIN);
    for r in msg.answer().unwrap().limit_to::<ZoneRecordData<_, ParsedName<_>>>() {
        let r = r.unwrap();
        let (t, rd) = rd_of(r.data());
        o.n_answer += 1;
        o.answer_seq.push(format!("{}/{}/{}", t, r.ttl().as_secs(), rd.show()));
        o.answer.insert(format!("{}/{}/{}", t, r.ttl().as_secs(), rd.show()));
    }
    for r in msg.authority().unwrap().limit_to::<ZoneRecordData<_, ParsedName<_>>>() {
        let r = r.unwrap();
        let (t, rd) = rd_of(r.data());
        let owner = Rel::from_abs(r.owner()).map(|x| x.show()).unwrap_or_else(|| "!".into());
        o.n_auth += 1;
        o.auth_seq.push(format!("{}/{}/{}/{}", owner, t, r.ttl().as_secs(), rd.show()));
        o.authority.insert(format!("{}/{}/{}/{}", owner, t, r.ttl().as_secs(), rd.show()));
    }
    for r in msg.additional().unwrap().limit_to::<ZoneRecordData<_, ParsedName<_>>>() {
        let r = r.unwrap();
        let (t, rd) = rd_of(r.data());
        let owner = Rel::from_abs(r.owner()).map(|x| x.show()).unwrap_or_else(|| "!".into());
        o.n_add += 1;
        o.additional.insert(format!("{}/{}/{}/{}", owner, t, r.ttl().as_secs(), rd.show()));
    }
    o
}

fn observe_walk(zone: &Zone) -> Vec<String> {
    let acc: std::sync::Arc<std::sync::Mutex<Vec<String>>> = Default::default();
    let acc2 = acc.clone();
    zone.read().walk(Box::new(move |owner: Name<Bytes>, rrset: &SharedRrset, at_cut: bool| {
        let o = Rel::from_abs(&owner).map(|x| x.show()).unwrap_or_else(|| "!".into());
        let mut v = acc2.lock().unwrap();
        for d in rrset.data() {
            let (t, rd) = rd_of(d);
            v.push(format!("{}/{}/{}/{}/{}", o, t, rrset.ttl().as_secs(), rd.show(), at_cut as u8));
        }
    }));
    let mut v = acc.lock().unwrap().clone();
    v.sort();
    v
}

// ---------------------------------------------------------------- flat content and the RFC spec

/// The zone as a flat record set: (owner, type) -> (ttl, rdata set).
#[derive(Clone, PartialEq, Eq, Debug, Default)]
struct Flat { m: BTreeMap<(Rel, u16), (u32, BTreeSet<Rd>)> }

impl Flat {
    fn add(&mut self, r: &Rec) { let e = self.m.entry((r.owner.clone(), r.rtype)).or_insert((r.ttl, BTreeSet::new())); e.0 = r.ttl; e.1.insert(r.rd.clone()); }
    fn del(&mut self, r: &Rec) {
        let k = (r.owner.clone(), r.rtype);
        if let Some(e) = self.m.get_mut(&k) { e.1.remove(&r.rd); if e.1.is_empty() { self.m.remove(&k); } }
    }
    fn set(&mut self, n: &Rel, r: &RrsetD) {
        if r.rds.is_empty() { self.m.remove(&(n.clone(), r.rtype)); } else { self.m.insert((n.clone(), r.rtype), (r.ttl, r.rds.iter().cloned().collect())); }
    }
    fn remove_below(&mut self, n: &Rel) { self.m.retain(|k, _| !n.is_prefix_of(&k.0)); }
    fn records(&self) -> Vec<Rec> {
        let mut v = vec![];
        for ((o, t), (ttl, rds)) in &self.m { for rd in rds { v.push(Rec { owner: o.clone(), rtype: *t, ttl: *ttl, rd: rd.clone() }); } }
        v
    }
    fn has(&self, n: &Rel, t: u16) -> bool { self.m.contains_key(&(n.clone(), t)) }
    fn owns(&self, n: &Rel) -> bool { self.m.keys().any(|k| &k.0 == n) }
    fn has_descendant(&self, n: &Rel) -> bool { self.m.keys().any(|k| n.is_prefix_of(&k.0) && &k.0 != n) }
    fn exists(&self, n: &Rel) -> bool { n.0.is_empty() || self.owns(n) || self.has_descendant(n) }
    fn rrset_strs(&self, n: &Rel, t: u16, with_owner: Option<&Rel>) -> BTreeSet<String> {
        let mut s = BTreeSet::new();
        if let Some((ttl, rds)) = self.m.get(&(n.clone(), t)) {
            for rd in rds {
                s.insert(match with_owner { None => format!("{}/{}/{}", t, ttl, rd.show()), Some(o) => format!("{}/{}/{}/{}", o.show(), t, ttl, rd.show()) });
            }
        }
        s
    }
    fn types_at(&self, n: &Rel) -> Vec<u16> { self.m.keys().filter(|k| &k.0 == n).map(|k| k.1).collect() }
    /// Zone is acceptable to parsed::Zonefile and unambiguous for RFC 4592.
    fn wf(&self) -> bool {
        for (o, t) in self.m.keys() {
            let ts = self.types_at(o);
            if *t == T_CNAME && (o.0.is_empty() || ts.len() != 1 || self.m[&(o.clone(), *t)].1.len() != 1) { return false; }
            if !o.0.is_empty() && (*t == T_NS || *t == T_DS) {
                if !ts.contains(&T_NS) { return false; }
                if ts.iter().any(|x| ![T_NS, T_DS, T_A, T_AAAA].contains(x)) { return false; }
                if o.0.last().map(|l| l == "*").unwrap_or(false) { return false; }
            }
            if o.0.is_empty() && *t == T_DS { return false; }
        }
        true
    }
}

#[derive(Clone, PartialEq, Eq, Debug)]
struct Expect {
    what: &'static str, // data nodata cname referral nxdomain wild_data wild_nodata wild_cname ent_nodata cut_ds
    rcode: u8, aa: bool,
    /// acceptable answer sections (more than one only for ANY)
    answers: Vec<BTreeSet<String>>,
    authority: BTreeSet<String>,
    additional: BTreeSet<String>,
}

/// RFC 1034 4.3.2 + RFC 4592 on the flat record set.
fn spec(z: &Flat, q: &Rel, qtype: u16) -> Expect {
    let apex = Rel::apex();
    let soa: BTreeSet<String> = {
        // the SOA record goes into the authority section of negative answers
        let mut s = BTreeSet::new();
        if let Some((ttl, rds)) = z.m.get(&(apex.clone(), T_SOA)) {
            // one SOA record (a zone has exactly one)
            if let Some(rd) = rds.iter().next() { if rds.len() == 1 { s.insert(format!("@/{}/{}/{}", T_SOA, ttl, rd.show())); } else { for rd in rds { s.insert(format!("@/{}/{}/{}", T_SOA, ttl, rd.show())); } } }
        }
        s
    };
    let neg = |what: &'static str, rcode: u8| Expect { what, rcode, aa: true, answers: vec![BTreeSet::new()], authority: soa.clone(), additional: BTreeSet::new() };
    let pos = |what: &'static str, answers: Vec<BTreeSet<String>>| Expect { what, rcode: 0, aa: true, answers, authority: BTreeSet::new(), additional: BTreeSet::new() };
    // 4.3.2 step 3b: a delegation on the way down (topmost NS below the apex)
    for k in 1..=q.0.len() {
        let p = Rel(q.0[..k].to_vec());
        if z.has(&p, T_NS) {
            if k == q.0.len() && qtype == T_DS {
                // the parent side is authoritative for DS
                let ds = z.rrset_strs(&p, T_DS, None);
                return if ds.is_empty() { neg("cut_ds_nodata", 0) } else { pos("cut_ds", vec![ds]) };
            }
            let mut authority = z.rrset_strs(&p, T_NS, Some(&p));
            authority.extend(z.rrset_strs(&p, T_DS, Some(&p)));
            let mut additional = BTreeSet::new();
            if let Some((_, rds)) = z.m.get(&(p.clone(), T_NS)) {
                for rd in rds {
                    if let Rd::Tgt(t) = rd {
                        // glue: addresses of in-zone name servers that are available in the zone
                        if z.has(t, T_CNAME) { continue; }
                        additional.extend(z.rrset_strs(t, T_A, Some(t)));
                        additional.extend(z.rrset_strs(t, T_AAAA, Some(t)));
                    }
                }
            }
            return Expect { what: "referral", rcode: 0, aa: false, answers: vec![BTreeSet::new()], authority, additional };
        }
    }
    let at = |n: &Rel, w: bool| -> Expect {
        if z.has(n, T_CNAME) && !n.0.is_empty() {
            return pos(if w { "wild_cname" } else { "cname" }, vec![z.rrset_strs(n, T_CNAME, None)]);
        }
        if qtype == T_ANY {
            let c: Vec<BTreeSet<String>> = z.types_at(n).into_iter().map(|t| z.rrset_strs(n, t, None)).collect();
            return if c.is_empty() { neg(if w { "wild_nodata" } else { "ent_nodata" }, 0) } else { pos(if w { "wild_data" } else { "data" }, c) };
        }
        let d = z.rrset_strs(n, qtype, None);
        if d.is_empty() { neg(if w { "wild_nodata" } else if z.owns(n) || n.0.is_empty() { "nodata" } else { "ent_nodata" }, 0) }
        else { pos(if w { "wild_data" } else { "data" }, vec![d]) }
    };
    if z.exists(q) { return at(q, false); }
    // closest encloser and source of synthesis
    let mut ce = apex;
    for k in (0..q.0.len()).rev() { let p = Rel(q.0[..k].to_vec()); if z.exists(&p) { ce = p; break; } }
    let w = ce.child("*");
    if z.exists(&w) { return at(&w, true); }
    neg("nxdomain", 3)
}

fn matches(e: &Expect, o: &Obs) -> bool {
    !o.out_of_zone && o.rcode == e.rcode && o.aa == e.aa && e.answers.iter().any(|a| a == &o.answer) && o.authority == e.authority && o.additional == e.additional
}

/// Name the way a history-built zone deviates (the known-finding classes).
/// No delegation / alias record (NS or DS below the apex, CNAME) anywhere in the operations.
fn is_plain(case: &str) -> bool {
    !case.split(' ').take_while(|w| *w != "?").any(|w| { let f: Vec<&str> = w.split(':').collect();
        f.len() >= 4 && f[1] != "@" && (f[2] == "2" || f[2] == "5" || f[2] == "43") })
}

/// The delegation / alias state (`Special`) of a node, as canonical strings.
#[derive(Clone, PartialEq, Eq, Debug)]
enum Sp { Cut { ns: BTreeSet<String>, ds: BTreeSet<String>, glue: BTreeSet<String> }, Cname(BTreeSet<String>) }

fn sp_of_cut(c: &CutD) -> Sp {
    let strs = |r: &RrsetD| -> BTreeSet<String> { r.rds.iter().map(|d| format!("{}/{}/{}", r.rtype, r.ttl, d.show())).collect() };
    Sp::Cut { ns: strs(&c.ns), ds: c.ds.as_ref().map(strs).unwrap_or_default(), glue: c.glue.iter().map(|g| g.show_slash()).collect() }
}

/// What a zone built directly from `z` holds as special at `n`.
fn expected_special(z: &Flat, n: &Rel) -> Option<Sp> {
    if n.0.is_empty() { return None; }
    if z.has(n, T_NS) {
        let mut glue = BTreeSet::new();
        for rd in &z.m[&(n.clone(), T_NS)].1 {
            if let Rd::Tgt(t) = rd { if !z.has(t, T_CNAME) { glue.extend(z.rrset_strs(t, T_A, Some(t))); glue.extend(z.rrset_strs(t, T_AAAA, Some(t))); } }
        }
        return Some(Sp::Cut { ns: z.rrset_strs(n, T_NS, None), ds: z.rrset_strs(n, T_DS, None), glue });
    }
    if z.has(n, T_CNAME) { return Some(Sp::Cname(z.rrset_strs(n, T_CNAME, None))); }
    None
}

/// Content and per-node special state a sequence of operations leads to, by the
/// meaning of the operations (independent of the implementation and of the model).
/// `content`: what the zone is meant to contain; `special`: the Special each node holds; `pstore`: the
/// delegation / alias typed RRsets (NS, DS below the apex; CNAME) that sit in a node's plain RRset store.
struct Replayed { content: Flat, special: BTreeMap<Rel, Sp>, pstore: Flat }

fn is_special_key(n: &Rel, t: u16) -> bool { (!n.0.is_empty() && (t == T_NS || t == T_DS)) || t == T_CNAME }

fn replay(ops: &[Op]) -> Replayed {
    let mut comm = Flat::default();
    let mut sh: BTreeMap<Rel, Sp> = BTreeMap::new();
    let mut ps = Flat::default();
    let mut work: Option<(Flat, BTreeMap<Rel, Sp>, Flat)> = None;
    let mut built = false;
    let mut zseen = false;
    let mut fin = false;
    for op in ops {
        if op.is_history() && !built {
            built = true;
            if zseen { sh.clear(); let owners: BTreeSet<Rel> = comm.m.keys().map(|k| k.0.clone()).collect();
                for o in owners { if let Some(x) = expected_special(&comm, &o) { sh.insert(o, x); } } }
        }
        match op {
            Op::Spell(_) => {}
            Op::BRr(n, r) => { comm.set(n, r); if is_special_key(n, r.rtype) { ps.set(n, r); } }
            Op::BCut(c) => { if !c.name.0.is_empty() { comm.set(&c.name, &c.ns); if let Some(d) = &c.ds { comm.set(&c.name, d); } sh.insert(c.name.clone(), sp_of_cut(c)); } }
            Op::BCname(n, ttl, rd) => { if !n.0.is_empty() { let r = RrsetD { rtype: T_CNAME, ttl: *ttl, rds: vec![rd.clone()] }; comm.set(n, &r);
                sh.insert(n.clone(), Sp::Cname([format!("5/{}/{}", ttl, rd.show())].into_iter().collect())); } }
            Op::ZRec(r) => { zseen = true; comm.add(r); }
            Op::UNew => { work = Some((comm.clone(), sh.clone(), ps.clone())); fin = false; }
            Op::WOpen => { work = Some((comm.clone(), sh.clone(), ps.clone())); }
            Op::UAdd(r) => { if !fin { if let Some(w) = work.as_mut() { w.0.add(r); if is_special_key(&r.owner, r.rtype) { w.2.add(r); } } } }
            Op::UDel(r) => { if !fin { if let Some(w) = work.as_mut() { w.0.del(r); w.2.del(r); } } }
            Op::UDelAll => { if !fin { if let Some(w) = work.as_mut() { w.0 = Flat::default(); w.1.clear(); w.2 = Flat::default(); } } }
            // BeginBatchDelete commits only if its SOA has the serial of the working copy (else SoaMismatch)
            Op::UBatchDel(t) => { if !fin { if let Some(w) = work.as_ref() { if soa_tok(&w.0) == Some(*t) { comm = w.0.clone(); sh = w.1.clone(); ps = w.2.clone(); } } } }
            Op::UBatchAdd(t) => { if !fin { if let Some(w) = work.as_mut() { w.0.m.remove(&(Rel::apex(), T_SOA)); w.0.add(&soa_rec(*t)); } } }
            Op::UFin(t) => { if !fin { if let Some(mut w) = work.take() { w.0.m.remove(&(Rel::apex(), T_SOA)); w.0.add(&soa_rec(*t)); comm = w.0; sh = w.1; ps = w.2; } fin = true; } }
            Op::UDrop | Op::WDrop => { work = None; fin = false; }
            Op::WRr(n, r) => { if let Some(w) = work.as_mut() { w.0.set(n, r); if is_special_key(n, r.rtype) { w.2.set(n, r); } } }
            Op::WRm(n, t) => { if let Some(w) = work.as_mut() { w.0.m.remove(&(n.clone(), *t)); w.2.m.remove(&(n.clone(), *t)); } }
            Op::WCut(n, c) => { if let Some(w) = work.as_mut() { if !n.0.is_empty() {
                w.0.m.remove(&(n.clone(), T_NS)); w.0.m.remove(&(n.clone(), T_DS)); w.0.m.remove(&(n.clone(), T_CNAME));
                w.0.set(n, &c.ns); if let Some(d) = &c.ds { w.0.set(n, d); } w.1.insert(n.clone(), sp_of_cut(c)); } } }
            Op::WCname(n, ttl, rd) => { if let Some(w) = work.as_mut() { if !n.0.is_empty() {
                w.0.m.remove(&(n.clone(), T_NS)); w.0.m.remove(&(n.clone(), T_DS));
                w.0.set(n, &RrsetD { rtype: T_CNAME, ttl: *ttl, rds: vec![rd.clone()] });
                w.1.insert(n.clone(), Sp::Cname([format!("5/{}/{}", ttl, rd.show())].into_iter().collect())); } } }
            Op::WRegular(n) => { if let Some(w) = work.as_mut() { w.1.remove(n); } }
            Op::WRemoveAll(n) => { if let Some(w) = work.as_mut() { w.0.remove_below(n); w.1.retain(|k, _| !n.is_prefix_of(k)); w.2.remove_below(n); } }
            Op::WCommit => { if let Some(w) = work.take() { comm = w.0; sh = w.1; ps = w.2; } }
        }
    }
    if !built && zseen { sh.clear(); let owners: BTreeSet<Rel> = comm.m.keys().map(|k| k.0.clone()).collect();
        for o in owners { if let Some(x) = expected_special(&comm, &o) { sh.insert(o, x); } } }
    Replayed { content: comm, special: sh, pstore: ps }
}

#[derive(Clone, Copy, PartialEq, Eq, Debug)]
enum Disagree { PlainNs, PlainCname, Stale }

/// Nodes whose delegation / alias state differs from what the records at the node say.
fn disagreeing(rp: &Replayed) -> Vec<(Rel, Disagree)> {
    let mut names: BTreeSet<Rel> = rp.special.keys().cloned().collect();
    for k in rp.content.m.keys() { names.insert(k.0.clone()); }
    for k in rp.pstore.m.keys() { names.insert(k.0.clone()); }
    let mut v = vec![];
    for n in names {
        // a delegation / alias typed RRset in the node's plain store (put there by ZoneUpdater or an
        // RRset-level write) is never looked at as such by queries, and is listed as data by walks
        if rp.pstore.has(&n, T_NS) || rp.pstore.has(&n, T_DS) { v.push((n, Disagree::PlainNs)); continue; }
        if rp.pstore.has(&n, T_CNAME) { v.push((n, Disagree::PlainCname)); continue; }
        let have = rp.special.get(&n);
        let want = expected_special(&rp.content, &n);
        if have == want.as_ref() { continue; }
        v.push((n, match (have, &want) { (None, Some(Sp::Cut { .. })) => Disagree::PlainNs, (None, Some(Sp::Cname(_))) => Disagree::PlainCname, _ => Disagree::Stale }));
    }
    v
}

/// Is node `n` on, above or below the lookup path of `q` (its ancestors-or-self and their `*` children)?
fn related(q: &Rel, n: &Rel) -> bool {
    let mut path: Vec<Rel> = vec![];
    for k in 0..=q.0.len() { let pfx = Rel(q.0[..k].to_vec()); path.push(pfx.child("*")); if k > 0 { path.push(pfx); } }
    path.iter().any(|m| m.is_prefix_of(n) || n.is_prefix_of(m))
}

/// Name the way a history-built zone deviates.  The three known classes are
/// used only when the lookup of `q` touches a node whose `Special` disagrees
/// with the node's records (root cause: ZoneUpdater / RRset-level writes do not
/// maintain `Special`); everything else gets a class of its own and is an alarm.
fn history_class(z: &Flat, q: &Rel, e: &Expect, o: &Obs, dis: &[(Rel, Disagree)]) -> &'static str {
    let rel: Vec<Disagree> = dis.iter().filter(|(n, _)| related(q, n)).map(|(_, d)| *d).collect();
    if !rel.is_empty() {
        if (e.what == "referral" || e.what.starts_with("cut_ds")) && rel.contains(&Disagree::PlainNs) { return "updater_ns_not_cut"; }
        if (e.what == "cname" || e.what == "wild_cname") && rel.contains(&Disagree::PlainCname) { return "updater_cname_not_special"; }
        if rel.contains(&Disagree::Stale) { return "special_survives_delete"; }
        if rel.contains(&Disagree::PlainNs) { return "updater_ns_not_cut"; }
        return "updater_cname_not_special";
    }
    if o.rcode == 3 && e.rcode != 3 {
        if e.what.starts_with("wild_") { return "deleted_name_shadows_wildcard"; }
        if e.what == "ent_nodata" && !z.owns(q) { return "updater_ent_nxdomain"; }
        return "updater_descendant_nxdomain";
    }
    if e.what.starts_with("wild_") { return "deleted_name_shadows_wildcard"; }
    if e.rcode == 3 && o.rcode == 0 { return "stale_node_nodata"; }
    if e.what == "referral" || e.what.starts_with("cut_ds") { return "history_referral_wrong"; }
    if e.what == "cname" || e.what == "wild_cname" { return "history_cname_wrong"; }
    "history_dependent_other"
}

// ---------------------------------------------------------------- generators

const ALPHA: [&str; 4] = ["a", "b", "c", "*"];

fn gen_name(r: &mut Rng, pool: &[Rel], maxdepth: usize) -> Rel {
    // extend an existing name or start from the apex, so that prefixes are shared
    let base = if !pool.is_empty() && r.chance(2, 3) { r.pick(pool).clone() } else { Rel::apex() };
    let mut n = if r.chance(1, 3) && !base.0.is_empty() { base.parent() } else { base };
    let extra = 1 + r.below(2) as usize;
    for _ in 0..extra { if n.0.len() < maxdepth { n = n.child(if r.chance(1, 6) { "*" } else { *r.pick(&ALPHA[..3]) }); } }
    if n.0.is_empty() { n = n.child(*r.pick(&ALPHA)); }
    n
}

/// A well-formed zone content (acceptable to parsed::Zonefile).
fn gen_flat(r: &mut Rng) -> Flat {
    let mut z = Flat::default();
    let mut tok = 1u32;
    let mut next = |r: &mut Rng| { tok += 1 + r.below(3) as u32; tok };
    if !r.chance(1, 12) { z.add(&soa_rec(next(r))); }
    if r.chance(3, 4) { z.add(&Rec { owner: Rel::apex(), rtype: T_NS, ttl: 300, rd: Rd::Tok(next(r)) }); }
    if r.chance(1, 3) { z.add(&Rec { owner: Rel::apex(), rtype: T_A, ttl: 300, rd: Rd::Tok(next(r)) }); }
    let n_owners = r.range(1, 7);
    let mut pool: Vec<Rel> = vec![];
    // name servers that live below a delegation: later delegations may share them (their glue is then
    // an address that is itself occluded by the other delegation)
    let mut ns_below_cut: Vec<Rel> = vec![];
    for _ in 0..n_owners {
        let n = gen_name(r, &pool, 4);
        if z.owns(&n) { continue; }
        pool.push(n.clone());
        let wild = n.0.last().unwrap() == "*";
        match r.below(10) {
            0 | 1 if !wild => {
                // delegation
                let ttl = *r.pick(&[300u32, 600]);
                let k = r.range(1, 2);
                for _ in 0..k {
                    let rd = match if !ns_below_cut.is_empty() && r.chance(1, 3) { 9 } else { r.below(4) } {
                        9 => Rd::Tgt(r.pick(&ns_below_cut).clone()),    // a name server below another delegation
                        0 => Rd::Tok(next(r)),
                        1 => { ns_below_cut.push(n.child("a")); Rd::Tgt(n.child("a")) }  // glue below the cut
                        2 => Rd::Tgt(n.clone()),                        // glue at the cut itself
                        _ => if pool.len() > 1 && r.chance(1, 2) { Rd::Tgt(r.pick(&pool).clone()) } else { Rd::Tgt(Rel::apex().child("c").child("a")) },
                    };
                    z.add(&Rec { owner: n.clone(), rtype: T_NS, ttl, rd });
                }
                if r.chance(1, 2) { z.add(&Rec { owner: n.clone(), rtype: T_DS, ttl: 120, rd: Rd::Tok(next(r)) }); }
                // addresses for the in-zone targets (glue), where that is legal
                let tgts: Vec<Rel> = z.m[&(n.clone(), T_NS)].1.iter().filter_map(|rd| if let Rd::Tgt(t) = rd { Some(t.clone()) } else { None }).collect();
                for t in tgts {
                    if r.chance(3, 4) && !z.has(&t, T_CNAME) && !t.0.is_empty() {
                        let ty = if r.chance(2, 3) { T_A } else { T_AAAA };
                        z.add(&Rec { owner: t.clone(), rtype: ty, ttl: 77, rd: Rd::Tok(next(r)) });
                        pool.push(t);
                    }
                }
                // occluded data below the cut
                if r.chance(1, 2) { z.add(&Rec { owner: n.child("b"), rtype: T_TXT, ttl: 50, rd: Rd::Tok(next(r)) }); }
            }
            2 => {
                let rd = if r.chance(1, 2) { Rd::Tok(next(r)) } else { Rd::Tgt(gen_name(r, &pool, 3)) };
                z.add(&Rec { owner: n.clone(), rtype: T_CNAME, ttl: 200, rd });
            }
            _ => {
                let k = r.range(1, 3);
                for _ in 0..k {
                    let ty = *r.pick(&[T_A, T_A, T_AAAA, T_TXT]);
                    let ttl = 100 + ty as u32;
                    let m = r.range(1, 2);
                    for _ in 0..m { z.add(&Rec { owner: n.clone(), rtype: ty, ttl, rd: Rd::Tok(next(r)) }); }
                }
            }
        }
    }
    // repair: addresses may have landed on CNAME / below... keep only well-formed zones
    if !z.wf() {
        // drop offending owners until well-formed (rare)
        let owners: Vec<Rel> = z.m.keys().map(|k| k.0.clone()).collect();
        for o in owners {
            if z.wf() { break; }
            if o.0.is_empty() { continue; }
            let mut t = z.clone();
            t.m.retain(|k, _| k.0 != o);
            if t.wf() || t.m.len() < z.m.len() { z = t; }
        }
    }
    z
}

fn gen_queries(r: &mut Rng, z: &Flat, extra_names: &[Rel], n: usize) -> Vec<(Rel, u16)> {
    let mut names: BTreeSet<Rel> = BTreeSet::new();
    let mut base: BTreeSet<Rel> = z.m.keys().map(|k| k.0.clone()).collect();
    for e in extra_names { base.insert(e.clone()); }
    for o in &base {
        for k in 0..=o.0.len() {
            let p = Rel(o.0[..k].to_vec());
            for l in ["a", "b", "c", "*", "q"] { names.insert(p.child(l)); }
            names.insert(p);
        }
        names.insert(o.child("q").child("a"));
    }
    let names: Vec<Rel> = names.into_iter().filter(|n| n.0.len() <= 6).collect();
    let types = [T_A, T_A, T_AAAA, T_TXT, T_NS, T_DS, T_CNAME, T_SOA, T_ANY];
    let mut qs = vec![];
    // every owner name with one of its types, then a random sample of the closure
    for ((o, t), _) in z.m.iter() { if r.chance(1, 2) { qs.push((o.clone(), *t)); } }
    while qs.len() < n { qs.push((r.pick(&names).clone(), *r.pick(&types))); }
    qs.truncate(n.max(1));
    qs
}

/// Builder calls equivalent to parsed::Zonefile's classification (done here, independently).
fn builder_ops(z: &Flat, r: &mut Rng) -> Vec<Op> {
    let mut ops = vec![];
    let rrset = |n: &Rel, t: u16| -> RrsetD { let (ttl, rds) = &z.m[&(n.clone(), t)]; RrsetD { rtype: t, ttl: *ttl, rds: rds.iter().cloned().collect() } };
    let owners: BTreeSet<Rel> = z.m.keys().map(|k| k.0.clone()).collect();
    for o in &owners {
        let is_cut = !o.0.is_empty() && z.has(o, T_NS);
        for t in z.types_at(o) {
            if is_cut && (t == T_NS || t == T_DS) { continue; }
            if t == T_CNAME && !o.0.is_empty() {
                let rs = rrset(o, t);
                ops.push(Op::BCname(o.clone(), rs.ttl, rs.rds[0].clone()));
            } else { ops.push(Op::BRr(o.clone(), rrset(o, t))); }
        }
        if is_cut {
            let ns = rrset(o, T_NS);
            let mut glue = vec![];
            for rd in &ns.rds { if let Rd::Tgt(t) = rd { if !z.has(t, T_CNAME) { for ty in [T_A, T_AAAA] { if z.has(t, ty) { let g = rrset(t, ty); for d in g.rds { glue.push(Rec { owner: t.clone(), rtype: ty, ttl: g.ttl, rd: d }); } } } } } }
            ops.push(Op::BCut(CutD { name: o.clone(), ns, ds: if z.has(o, T_DS) { Some(rrset(o, T_DS)) } else { None }, glue }));
        }
    }
    // insertion order must not matter
    for i in (1..ops.len()).rev() { let j = r.below(i as u64 + 1) as usize; ops.swap(i, j); }
    ops
}

fn zonefile_ops(z: &Flat, r: &mut Rng) -> Vec<Op> {
    let mut recs = z.records();
    for i in (1..recs.len()).rev() { let j = r.below(i as u64 + 1) as usize; recs.swap(i, j); }
    recs.into_iter().map(Op::ZRec).collect()
}

/// An update history (ZoneUpdater) that starts from `start` (built through the
/// zone-file path) and ends in content `target`.
fn gen_updater_history(r: &mut Rng, start: &Flat, target: &Flat) -> (Vec<Op>, Flat) {
    let mut ops = zonefile_ops(start, r);
    let mut cur = start.clone();
    let mut committed = start.clone();
    let mut tok = 5000u32;
    ops.push(Op::UNew);
    let full_replace = r.chance(1, 4);
    if full_replace {
        ops.push(Op::UDelAll);
        cur = Flat::default();
    }
    // optional detour: add and delete scratch records, possibly in a batch that is rolled back
    if r.chance(1, 3) {
        let n = gen_name(r, &target.m.keys().map(|k| k.0.clone()).collect::<Vec<_>>(), 4);
        let rec = Rec { owner: n, rtype: T_TXT, ttl: 116, rd: Rd::Tok(tok) };
        tok += 1;
        if !cur.has(&rec.owner, T_CNAME) && !(cur.has(&rec.owner, T_NS) && !rec.owner.0.is_empty()) {
            ops.push(Op::UAdd(rec.clone())); cur.add(&rec);
            if r.chance(1, 2) {
                // roll the scratch work back
                ops.push(Op::UDrop); cur = committed.clone();
                ops.push(Op::UNew);
                if full_replace { ops.push(Op::UDelAll); cur = Flat::default(); }
            } else {
                ops.push(Op::UDel(rec.clone())); cur.del(&rec);
            }
        }
    }
    // deletions then additions (IXFR style), possibly split into batches
    let cur_recs = cur.records();
    let tgt_recs = target.records();
    let mut dels: Vec<Rec> = cur_recs.iter().filter(|x| !tgt_recs.contains(x) && x.rtype != T_SOA).cloned().collect();
    let mut adds: Vec<Rec> = tgt_recs.iter().filter(|x| !cur_recs.contains(x) && x.rtype != T_SOA).cloned().collect();
    for i in (1..dels.len()).rev() { let j = r.below(i as u64 + 1) as usize; dels.swap(i, j); }
    for i in (1..adds.len()).rev() { let j = r.below(i as u64 + 1) as usize; adds.swap(i, j); }
    for d in dels { ops.push(Op::UDel(d.clone())); cur.del(&d); }
    if r.chance(1, 3) {
        // mostly the SOA of the version being edited, sometimes a wrong one (rejected: SoaMismatch, nothing committed)
        let right = soa_tok(&cur);
        let t = if r.chance(1, 5) || right.is_none() { tok } else { right.unwrap() };
        tok += 1;
        ops.push(Op::UBatchDel(t));
        if right == Some(t) { committed = cur.clone(); }
    }
    for a in adds { ops.push(Op::UAdd(a.clone())); cur.add(&a); }
    // final SOA: the target's SOA (or a fresh one when the target has none -- then target gets it too)
    let soa_tok = target.m.get(&(Rel::apex(), T_SOA)).and_then(|(_, rds)| rds.iter().next().cloned());
    let mut final_content = cur.clone();
    let st = match soa_tok { Some(Rd::Tok(t)) => t, _ => tok };
    final_content.m.remove(&(Rel::apex(), T_SOA));
    final_content.add(&soa_rec(st));
    ops.push(Op::UFin(st));
    let _ = committed;
    (ops, final_content)
}

/// A zone with delegations / aliases built through the zone-file path, then a few RRset-level updates that
/// leave every delegation, alias and glue address alone ("safe" operations): the delegation state stays
/// consistent, so the zone must answer like the rebuilt one.
fn gen_safe_delta_history(r: &mut Rng, start: &Flat) -> (Vec<Op>, Flat) {
    let mut ops = zonefile_ops(start, r);
    let mut cur = start.clone();
    let glue_targets: BTreeSet<Rel> = start.m.iter().filter(|(k, _)| k.1 == T_NS && !k.0 .0.is_empty())
        .flat_map(|(_, v)| v.1.iter().filter_map(|rd| if let Rd::Tgt(t) = rd { Some(t.clone()) } else { None })).collect();
    let special_owner = |z: &Flat, n: &Rel| !n.0.is_empty() && (z.has(n, T_NS) || z.has(n, T_CNAME));
    ops.push(Op::UNew);
    let mut tok = 9000u32;
    let pool: Vec<Rel> = start.m.keys().map(|k| k.0.clone()).collect();
    let steps = r.range(1, 6);
    for _ in 0..steps {
        if r.chance(1, 2) {
            // add a record at a fresh or existing ordinary name (possibly below an empty non-terminal, below a cut, next to a wildcard)
            let n = gen_name(r, &pool, 4);
            if special_owner(&cur, &n) || glue_targets.contains(&n) { continue; }
            let ty = *r.pick(&[T_TXT, T_A, T_AAAA]);
            if (ty == T_A || ty == T_AAAA) && glue_targets.contains(&n) { continue; }
            let ttl = cur.m.get(&(n.clone(), ty)).map(|e| e.0).unwrap_or(100 + ty as u32);
            let rec = Rec { owner: n, rtype: ty, ttl, rd: Rd::Tok(tok) };
            tok += 1;
            ops.push(Op::UAdd(rec.clone())); cur.add(&rec);
        } else {
            // delete an ordinary record (possibly the last one of its name)
            let cands: Vec<Rec> = cur.records().into_iter().filter(|x| !x.owner.0.is_empty() && ![T_NS, T_DS, T_CNAME, T_SOA].contains(&x.rtype)
                && !glue_targets.contains(&x.owner)).collect();
            if cands.is_empty() { continue; }
            let rec = r.pick(&cands).clone();
            ops.push(Op::UDel(rec.clone())); cur.del(&rec);
        }
        if r.chance(1, 5) {
            let right = soa_tok(&cur);
            let t = if r.chance(1, 5) || right.is_none() { tok } else { right.unwrap() };
            tok += 1;
            ops.push(Op::UBatchDel(t));
        }
    }
    let st = match cur.m.get(&(Rel::apex(), T_SOA)).and_then(|(_, rds)| rds.iter().next().cloned()) { Some(Rd::Tok(t)) => t, _ => tok };
    cur.m.remove(&(Rel::apex(), T_SOA));
    cur.add(&soa_rec(st));
    ops.push(Op::UFin(st));
    (ops, cur)
}

/// One uncommitted version touches the same RRsets more than once: replace-all followed by re-adding
/// unchanged RRsets, add-then-delete and delete-then-add of one record in one batch, the same for the
/// write interface (update / remove / update of one RRset within one open).
fn gen_same_version_history(r: &mut Rng, start: &Flat) -> Vec<Op> {
    let mut ops = zonefile_ops(start, r);
    let recs: Vec<Rec> = start.records().into_iter().filter(|x| x.rtype != T_SOA).collect();
    let mut tok = 9500u32;
    let ordinary: Vec<Rec> = recs.iter().filter(|x| !x.owner.0.is_empty() && ![T_NS, T_DS, T_CNAME].contains(&x.rtype)).cloned().collect();
    if r.chance(1, 2) {
        ops.push(Op::UNew);
        if r.chance(1, 2) {
            // AXFR-style replacement by (almost) the same content
            ops.push(Op::UDelAll);
            let mut back = recs.clone();
            for i in (1..back.len()).rev() { let j = r.below(i as u64 + 1) as usize; back.swap(i, j); }
            if r.chance(1, 2) && !back.is_empty() { back.pop(); }
            for x in back { ops.push(Op::UAdd(x)); }
        }
        for _ in 0..r.range(1, 3) {
            if !ordinary.is_empty() && r.chance(1, 2) {
                // delete an existing record and add it back (and possibly delete it again)
                let x = r.pick(&ordinary).clone();
                ops.push(Op::UDel(x.clone())); ops.push(Op::UAdd(x.clone()));
                if r.chance(1, 3) { ops.push(Op::UDel(x)); }
            } else {
                // add a new record and delete it again, at a new name or next to existing data
                let n = if !ordinary.is_empty() && r.chance(1, 2) { r.pick(&ordinary).owner.clone() } else { gen_name(r, &[], 3) };
                if (start.has(&n, T_NS) && !n.0.is_empty()) || start.has(&n, T_CNAME) { continue; }
                let x = Rec { owner: n, rtype: T_TXT, ttl: start.m.get(&(r.pick(&[Rel::apex()]).clone(), T_TXT)).map(|e| e.0).unwrap_or(116), rd: Rd::Tok(tok) };
                tok += 1;
                let ttl = start.m.get(&(x.owner.clone(), T_TXT)).map(|e| e.0).unwrap_or(116);
                let x = Rec { ttl, ..x };
                ops.push(Op::UAdd(x.clone())); ops.push(Op::UDel(x.clone()));
                if r.chance(1, 3) { ops.push(Op::UAdd(x)); }
            }
        }
        let st = soa_tok(start).unwrap_or(tok);
        ops.push(Op::UFin(st));
    } else {
        ops.push(Op::WOpen);
        for _ in 0..r.range(1, 3) {
            let n = if !ordinary.is_empty() && r.chance(2, 3) { r.pick(&ordinary).owner.clone() } else { gen_name(r, &[], 3) };
            if (start.has(&n, T_NS) && !n.0.is_empty()) || start.has(&n, T_CNAME) { continue; }
            let rs1 = RrsetD { rtype: T_TXT, ttl: 116, rds: vec![Rd::Tok(tok), Rd::Tok(tok + 1)] };
            let rs2 = RrsetD { rtype: T_TXT, ttl: 116, rds: vec![Rd::Tok(tok + 2)] };
            tok += 3;
            ops.push(Op::WRr(n.clone(), rs1.clone()));
            match r.below(4) {
                0 => { ops.push(Op::WRr(n.clone(), rs2)); }
                1 => { ops.push(Op::WRm(n.clone(), T_TXT)); ops.push(Op::WRr(n.clone(), rs2)); }
                2 => { ops.push(Op::WRm(n.clone(), T_TXT)); }
                _ => { ops.push(Op::WRr(n.clone(), RrsetD { rtype: T_TXT, ttl: 1, rds: vec![] })); ops.push(Op::WRr(n.clone(), rs1)); }
            }
        }
        ops.push(Op::WCommit);
    }
    ops
}

/// Write-interface calls that change the delegation / alias state: make_zone_cut (glue as the zone has it
/// at that moment), make_cname, make_regular, remove_all at a node, mixed with RRset writes and a
/// replace-all through the updater.
fn gen_write_special_history(r: &mut Rng, start: &Flat) -> Vec<Op> {
    let mut ops = zonefile_ops(start, r);
    let mut cur = start.clone();
    let mut tok = 9800u32;
    if r.chance(1, 4) {
        ops.push(Op::UNew); ops.push(Op::UDelAll);
        let keep: Vec<Rec> = start.records().into_iter().filter(|x| x.rtype != T_SOA && r.chance(2, 3)).collect();
        cur = Flat::default();
        for x in keep { cur.add(&x); ops.push(Op::UAdd(x)); }
        let st = soa_tok(start).unwrap_or(1);
        cur.add(&soa_rec(st));
        ops.push(Op::UFin(st));
    }
    ops.push(Op::WOpen);
    let pool: Vec<Rel> = start.m.keys().map(|k| k.0.clone()).filter(|n| !n.0.is_empty()).collect();
    for _ in 0..r.range(1, 4) {
        let n = if !pool.is_empty() && r.chance(1, 2) { r.pick(&pool).clone() } else { gen_name(r, &pool, 3) };
        if n.0.last().map(|l| l == "*").unwrap_or(true) { continue; }
        match r.below(6) {
            0 | 1 => {
                // a delegation; the node may hold addresses only
                if cur.types_at(&n).iter().any(|t| ![T_A, T_AAAA, T_NS, T_DS].contains(t)) { continue; }
                let tgt = match r.below(3) { 0 => Rd::Tok(tok), 1 => Rd::Tgt(n.child("a")), _ => if pool.is_empty() { Rd::Tok(tok) } else { Rd::Tgt(r.pick(&pool).clone()) } };
                tok += 1;
                let ns = RrsetD { rtype: T_NS, ttl: 300, rds: vec![tgt.clone()] };
                let ds = if r.chance(1, 3) { tok += 1; Some(RrsetD { rtype: T_DS, ttl: 120, rds: vec![Rd::Tok(tok)] }) } else { None };
                let mut glue = vec![];
                if let Rd::Tgt(t) = &tgt { if !cur.has(t, T_CNAME) { for ty in [T_A, T_AAAA] { if let Some((ttl, rds)) = cur.m.get(&(t.clone(), ty)) { for d in rds { glue.push(Rec { owner: t.clone(), rtype: ty, ttl: *ttl, rd: d.clone() }); } } } } }
                let c = CutD { name: n.clone(), ns, ds, glue };
                cur.m.remove(&(n.clone(), T_NS)); cur.m.remove(&(n.clone(), T_DS));
                cur.set(&n, &c.ns); if let Some(d) = &c.ds { cur.set(&n, d); }
                ops.push(Op::WCut(n.clone(), c));
            }
            2 => {
                if !cur.types_at(&n).is_empty() && !cur.has(&n, T_CNAME) { continue; }
                tok += 1;
                let rd = if r.chance(1, 2) { Rd::Tok(tok) } else { Rd::Tgt(gen_name(r, &pool, 3)) };
                cur.set(&n, &RrsetD { rtype: T_CNAME, ttl: 200, rds: vec![rd.clone()] });
                ops.push(Op::WCname(n.clone(), 200, rd));
            }
            3 => { ops.push(Op::WRegular(n.clone())); }
            4 => { cur.remove_below(&n); ops.push(Op::WRemoveAll(n.clone())); }
            _ => {
                if (cur.has(&n, T_NS)) || cur.has(&n, T_CNAME) { continue; }
                tok += 1;
                let rs = RrsetD { rtype: T_TXT, ttl: 116, rds: vec![Rd::Tok(tok)] };
                cur.set(&n, &rs); ops.push(Op::WRr(n.clone(), rs));
            }
        }
    }
    ops.push(if r.chance(1, 6) { Op::WDrop } else { Op::WCommit });
    ops
}

/// Two writer sessions: the first one adds names through the updater / write interface (so the tree gets
/// nodes, empty non-terminals and markers that only writers create) and publishes them; the second one
/// replaces the whole content (DeleteAllRecords, or remove_all at the apex or at a node) by `target`.
fn gen_two_session_history(r: &mut Rng, start: &Flat, target: &Flat) -> Vec<Op> {
    let mut ops = zonefile_ops(start, r);
    let mut tok = 9900u32;
    let pool: Vec<Rel> = start.m.keys().map(|k| k.0.clone()).collect();
    let mut added: Vec<Rel> = vec![];
    let via_updater = r.chance(2, 3);
    ops.push(if via_updater { Op::UNew } else { Op::WOpen });
    for _ in 0..r.range(1, 4) {
        // deep names: their ancestors become empty non-terminals created by a writer
        let mut n = gen_name(r, &pool, 2);
        for _ in 0..r.range(1, 2) { n = n.child(*r.pick(&["a", "b", "c"])); }
        if (1..=n.0.len()).any(|k| { let p = Rel(n.0[..k].to_vec()); start.has(&p, T_NS) || start.has(&p, T_CNAME) }) { continue; }
        tok += 1;
        let ttl = start.m.get(&(n.clone(), T_A)).map(|e| e.0).unwrap_or(101);
        let x = Rec { owner: n.clone(), rtype: T_A, ttl, rd: Rd::Tok(tok) };
        if via_updater { ops.push(Op::UAdd(x)); } else { ops.push(Op::WRr(n.clone(), RrsetD { rtype: T_A, ttl, rds: vec![Rd::Tok(tok)] })); }
        added.push(n);
    }
    let st = soa_tok(start).unwrap_or(1);
    ops.push(if via_updater { Op::UFin(st) } else { Op::WCommit });
    // second session: replace
    match r.below(3) {
        0 => {
            ops.push(Op::UNew); ops.push(Op::UDelAll);
            for x in target.records() { if x.rtype != T_SOA { ops.push(Op::UAdd(x)); } }
            ops.push(Op::UFin(soa_tok(target).unwrap_or(st)));
        }
        1 => {
            ops.push(Op::WOpen); ops.push(Op::WRemoveAll(Rel::apex()));
            let keys: Vec<(Rel, u16)> = target.m.keys().cloned().collect();
            for k in keys { let b = &target.m[&k]; ops.push(Op::WRr(k.0.clone(), RrsetD { rtype: k.1, ttl: b.0, rds: b.1.iter().cloned().collect() })); }
            ops.push(Op::WCommit);
        }
        _ => {
            // remove_all at the parent of one of the names added by the first session
            ops.push(Op::WOpen);
            if let Some(n) = added.first() { ops.push(Op::WRemoveAll(n.parent())); }
            ops.push(Op::WCommit);
        }
    }
    ops
}

/// A write-interface history ending in `target` (only RRset-level calls, so that
/// the content is well defined).
fn gen_write_history(r: &mut Rng, start: &Flat, target: &Flat) -> (Vec<Op>, Flat) {
    let mut ops = zonefile_ops(start, r);
    let mut cur = start.clone();
    ops.push(Op::WOpen);
    if r.chance(1, 4) {
        // aborted attempt first
        let n = gen_name(r, &[], 3);
        if !cur.has(&n, T_CNAME) && !cur.has(&n, T_NS) {
            ops.push(Op::WRr(n.clone(), RrsetD { rtype: T_TXT, ttl: 9, rds: vec![Rd::Tok(7000)] }));
        }
        ops.push(Op::WDrop);
        ops.push(Op::WOpen);
    }
    if r.chance(1, 5) { ops.push(Op::WRemoveAll(Rel::apex())); cur = Flat::default(); }
    let keys: BTreeSet<(Rel, u16)> = cur.m.keys().chain(target.m.keys()).cloned().collect();
    let mut keys: Vec<(Rel, u16)> = keys.into_iter().collect();
    for i in (1..keys.len()).rev() { let j = r.below(i as u64 + 1) as usize; keys.swap(i, j); }
    for k in keys {
        match (cur.m.get(&k), target.m.get(&k)) {
            (Some(a), Some(b)) if a == b => {}
            (_, Some(b)) => { let rs = RrsetD { rtype: k.1, ttl: b.0, rds: b.1.iter().cloned().collect() }; cur.set(&k.0, &rs); ops.push(Op::WRr(k.0.clone(), rs)); }
            (Some(_), None) => {
                if r.chance(1, 2) { ops.push(Op::WRm(k.0.clone(), k.1)); } else { ops.push(Op::WRr(k.0.clone(), RrsetD { rtype: k.1, ttl: 1, rds: vec![] })); }
                cur.m.remove(&k);
            }
            (None, None) => {}
        }
    }
    ops.push(Op::WCommit);
    (ops, cur)
}

// ---------------------------------------------------------------- to_message into a target that is too small

/// `Answer::to_message` for a legal answer that does not fit the target: 40 A records (640 octets of
/// answer) with a push limit of 512 (a UDP response), and an RRset of more than 64 KiB into a stream
/// target.  Whatever it does (truncate, set TC), it must not panic.
fn to_message_small_target(cx: &mut Ctx) {
    let apex = Name::bytes_from_str(APEX).unwrap();
    // (owner label, type, number of records, rdata length)
    let shapes: [(&str, u16, u32, usize); 6] = [("many", T_A, 40, 4), ("m15", T_A, 15, 4), ("m16", T_A, 16, 4), ("one", T_A, 1, 4), ("big", T_TXT, 300, 241), ("b245", T_TXT, 245, 241)];
    let mut b = ZoneBuilder::new(apex.clone(), Class::IN);
    for (l, ty, n, rdlen) in shapes {
        let mut rs = Rrset::new(Rtype::from_int(ty), Ttl::from_secs(60));
        for i in 0..n {
            if ty == T_A { rs.push_data(mk_data(T_A, &Rd::Tok(i + 1))); } else {
                let mut v = format!("{:05}", i).into_bytes(); v.resize(rdlen - 1, b'x');
                rs.push_data(ZoneRecordData::Txt(Txt::<Bytes>::build_from_slice(&v).unwrap()));
            }
        }
        b.insert_rrset(&Name::bytes_from_str(&format!("{}.{}", l, APEX)).unwrap(), SharedRrset::new(rs)).unwrap();
    }
    let zone = b.build();
    let mut runs: Vec<(&str, Option<usize>, bool)> = vec![];
    for l in ["many", "m15", "m16", "one"] { for lim in [None, Some(512usize), Some(100), Some(62), Some(61), Some(30)] { runs.push((l, lim, false)); } }
    for l in ["big", "b245", "many"] { runs.push((l, None, true)); runs.push((l, Some(512), true)); }
    for (qn, limit, stream) in runs {
        let (_, ty, full, rdlen) = *shapes.iter().find(|x| x.0 == qn).unwrap();
        let qt = Rtype::from_int(ty);
        let qname = Name::bytes_from_str(&format!("{}.{}", qn, APEX)).unwrap();
        let ans = zone.read().query(qname.clone(), qt).unwrap();
        let mut qb = MessageBuilder::new_vec().question();
        qb.push((qname, qt)).unwrap();
        let qmsg: Message<Vec<u8>> = qb.into();
        let case = format!("tomsg {} {} {}.zone.test {} {} {}", limit.map(|l| l.to_string()).unwrap_or_else(|| "-".into()), stream as u8, qn, ty, full, rdlen);
        cx.out.begin(&case);
        let r = catch_mut(|| {
            if stream {
                let mut builder = MessageBuilder::new_stream_vec();
                if let Some(l) = limit { builder.set_push_limit(l); }
                let m = ans.to_message(&qmsg, builder);
                (m.counts().ancount(), m.header().tc())
            } else {
                let mut builder = MessageBuilder::new_vec();
                if let Some(l) = limit { builder.set_push_limit(l); }
                let m = ans.to_message(&qmsg, builder);
                (m.counts().ancount(), m.header().tc())
            }
        });
        let question_fits = limit.map(|l| l > 12 + qn.len() + 1 + 11 + 4).unwrap_or(true);
        match r {
            Err(e) => {
                cx.out.case(&case, "Panic", true, "to_message/small_target");
                // a question that does not fit is a caller error (documented panic); an answer that does not fit is not
                if question_fits { cx.out.check(false, "to_message_panics_when_answer_does_not_fit", &case, &format!("panic: {}", e)); }
            }
            Ok((an, tc)) => {
                cx.out.case(&case, &format!("an={} tc={}", an, tc as u8), true, "to_message/small_target");
                cx.out.check(true, "ok", &case, "");
                // everything fits: complete and not truncated; otherwise TC must say so
                cx.out.check((an as u32 == full && !tc) || ((an as u32) < full && tc), "to_message_truncation_not_flagged", &case, &format!("ancount={} tc={}", an, tc));
            }
        }
    }
}

// ---------------------------------------------------------------- ZoneTree (the set of zones)

#[derive(Clone, Debug)]
enum TOp { Ins(String, u32, u16), Rem(String, u16) }

fn tname(s: &str) -> Name<Bytes> { Name::bytes_from_str(s).unwrap() }
/// labels of an absolute name, top-most first
fn tlabels(s: &str) -> Vec<String> { let mut v: Vec<String> = s.split('.').filter(|x| !x.is_empty()).map(|x| x.to_string()).collect(); v.reverse(); v }

fn gen_tname(r: &mut Rng) -> String {
    let d = r.below(4);
    if d == 0 { return ".".to_string(); }
    let mut v = vec![];
    for _ in 0..d { v.push(*r.pick(&["a", "b", "c"])); }
    format!("{}.", v.join("."))
}

fn tree_cases(cx: &mut Ctx, r: &mut Rng, n_trees: u64) {
    use domain::zonetree::ZoneTree;
    // corpus: zone-less intermediate nodes (a deeper zone inserted and removed again), removal of names
    // that are no zone, re-insertion, the same apex in several classes
    let i = |n: &str, k: u32| TOp::Ins(n.to_string(), k, 1);
    let d = |n: &str| TOp::Rem(n.to_string(), 1);
    let corpus: Vec<Vec<TOp>> = vec![
        vec![i("a.", 1), i("c.b.a.", 2), d("c.b.a.")],
        vec![i("c.b.a.", 2), d("c.b.a.")],
        vec![i("c.b.a.", 2), d("c.b.a."), i("b.a.", 3)],
        vec![i("a.", 1), i("c.b.a.", 2), d("b.a.")],
        vec![i("a.", 1), i("c.b.a.", 2), d("a.")],
        vec![i(".", 1), i("b.a.", 2), d("."), i("a.", 3), d("b.a."), d("b.a.")],
        vec![i("a.", 1), d("a."), i("a.", 2), i("a.", 3)],
        vec![i("a.a.", 1), i("a.", 2), d("a.a."), d("q.")],
        vec![i("a.", 1), TOp::Ins("a.".into(), 2, 3), TOp::Ins("b.a.".into(), 3, 3), TOp::Ins("a.".into(), 4, 4), d("a."), TOp::Rem("b.a.".into(), 4), TOp::Rem("a.".into(), 255)],
        vec![TOp::Ins("a.".into(), 2, 3), TOp::Rem("a.".into(), 1), TOp::Rem("a.".into(), 3), TOp::Rem("a.".into(), 3)],
    ];
    let n_corpus = corpus.len() as u64;
    for ti in 0..(n_trees + n_corpus) {
        let mut ops: Vec<TOp> = vec![];
        let multi = ti % 3 == 2;
        let cls = |r: &mut Rng| -> u16 { if multi { *r.pick(&[1u16, 1, 3, 4]) } else { 1 } };
        if ti < n_corpus { ops = corpus[ti as usize].clone(); } else {
        let n_ops = r.range(1, 8);
        let mut used: Vec<String> = vec![];
        for k in 0..n_ops {
            if !used.is_empty() && r.chance(1, 3) && ti % 2 == 1 {
                // mostly a zone that is there, sometimes an ancestor / descendant of one, sometimes anything
                let nm = match r.below(6) { 0 => gen_tname(r), 1 => { let u = r.pick(&used).clone(); format!("{}.{}", r.pick(&["a", "b"]), u).replace("..", ".") }
                    2 => { let u = r.pick(&used).clone(); match u.find('.') { Some(ix) if ix + 1 < u.len() => u[ix + 1..].to_string(), _ => u } } _ => r.pick(&used).clone() };
                ops.push(TOp::Rem(nm, cls(r)));
            } else {
                let nm = if !used.is_empty() && r.chance(1, 5) { r.pick(&used).clone() } else { gen_tname(r) };
                used.push(nm.clone());
                ops.push(TOp::Ins(nm, 100 + k as u32, cls(r)));
            }
        }
        }
        let ops_s = ops.iter().map(|o| match o { TOp::Ins(n, i, c) => format!("ti:{}:{}:{}", n, i, c), TOp::Rem(n, c) => format!("tr:{}:{}", n, c) }).collect::<Vec<_>>().join(" ");
        cx.out.begin(&ops_s);
        // implementation
        let mut tree = ZoneTree::new();
        let mut ids: BTreeMap<(String, u16), u32> = BTreeMap::new();
        let mut errs: Vec<String> = vec![];
        // specification: a set of (class, apex)
        let mut set: BTreeMap<(u16, Vec<String>), u32> = BTreeMap::new();
        for (i, op) in ops.iter().enumerate() {
            match op {
                TOp::Ins(n, id, c) => {
                    let z = ZoneBuilder::new(tname(n), Class::from_int(*c)).build();
                    let res = tree.insert_zone(z);
                    let want_ok = !set.contains_key(&(*c, tlabels(n)));
                    match &res { Ok(()) => { ids.insert((tname(n).to_string().to_ascii_lowercase(), *c), *id); } Err(_) => errs.push(format!("{}:ZoneExists", i)) }
                    cx.verdict(res.is_ok() == want_ok, "zonetree_insert_result", &ops_s, &format!("op {} returned {:?}", i, res.is_ok()));
                    if want_ok { set.insert((*c, tlabels(n)), *id); }
                }
                TOp::Rem(n, c) => {
                    let res = tree.remove_zone(&tname(n), Class::from_int(*c));
                    if res.is_err() { errs.push(format!("{}:ZoneDoesNotExist", i)); }
                    let want_ok = set.remove(&(*c, tlabels(n))).is_some();
                    cx.verdict(res.is_ok() == want_ok, "zonetree_remove_zone_not_recursive", &ops_s, &format!("remove op {} returned ok={} expected ok={}", i, res.is_ok(), want_ok));
                }
            }
        }
        let es = if errs.is_empty() { "-".to_string() } else { errs.join(",") };
        let idof = |z: Option<&Zone>| -> String { match z { Some(z) => ids.get(&(z.apex_name().to_string().to_ascii_lowercase(), z.class().to_int())).map(|i| i.to_string()).unwrap_or_else(|| "?".into()), None => "-".into() } };
        // every name over the alphabet to depth 3 (+ one deeper) as find / get queries, in every class used
        let mut qs: Vec<String> = vec![".".into()];
        for a in ["a", "b", "c", "q"] { qs.push(format!("{}.", a)); for b2 in ["a", "b", "c"] { qs.push(format!("{}.{}.", b2, a)); if r.chance(1, 3) { for c2 in ["a", "b", "c", "q"] { qs.push(format!("{}.{}.{}.", c2, b2, a)); } } } }
        qs.push("a.a.a.a.".into());
        let classes: Vec<u16> = if multi || ti < n_corpus { vec![1, 3, 4] } else { vec![1] };
        for c in &classes { for q in &qs {
            if *c != 1 && !r.chance(1, 2) { continue; }
            let f = idof(tree.find_zone(&tname(q), Class::from_int(*c)));
            cx.out.case(&format!("tree {} ? f {} {}", ops_s, q, c), &format!("F={} E={}", f, es), f != "-", "tree/find");
            // closest enclosing zone of the class: the zone with the longest apex that is an ancestor-or-self of q
            let ql = tlabels(q);
            let want = (0..=ql.len()).rev().find_map(|k| set.get(&(*c, ql[..k].to_vec()))).map(|i| i.to_string()).unwrap_or_else(|| "-".into());
            cx.verdict(f == want, "zonetree_find_not_closest_zone", &format!("tree {} ? f {} {}", ops_s, q, c), &format!("find_zone gives {} expected {}", f, want));
            if r.chance(1, 3) {
                let g = idof(tree.get_zone(&tname(q), Class::from_int(*c)));
                cx.out.case(&format!("tree {} ? g {} {}", ops_s, q, c), &format!("G={} E={}", g, es), g != "-", "tree/get");
                let want = set.get(&(*c, ql.clone())).map(|i| i.to_string()).unwrap_or_else(|| "-".into());
                cx.verdict(g == want, "zonetree_get_wrong", &format!("tree {} ? g {} {}", ops_s, q, c), &format!("get_zone gives {} expected {}", g, want));
            }
        } }
        let mut l: Vec<u32> = tree.iter_zones().map(|z| *ids.get(&(z.apex_name().to_string().to_ascii_lowercase(), z.class().to_int())).unwrap_or(&0)).collect();
        l.sort();
        let ls = if l.is_empty() { "-".to_string() } else { l.iter().map(|x| x.to_string()).collect::<Vec<_>>().join(",") };
        cx.out.case(&format!("tree {} ? l", ops_s), &format!("L={} E={}", ls, es), !l.is_empty(), "tree/list");
        let mut want: Vec<u32> = set.values().cloned().collect(); want.sort();
        cx.verdict(l == want, "zonetree_iter_wrong", &format!("tree {} ? l", ops_s), &format!("iter_zones gives {:?} expected {:?}", l, want));
    }
}

// ---------------------------------------------------------------- main

struct Ctx { out: Out, rt: tokio::runtime::Runtime, seen: BTreeMap<String, u32> }

const KNOWN: [&str; 4] = ["updater_ns_not_cut", "updater_cname_not_special", "special_survives_delete", "zonetree_remove_zone_not_recursive"];

impl Ctx {
    /// Oracle verdict.  The shared collector keeps the first 200 failure lines only, so failures of the
    /// classes that are known findings are reported 4 times per class and counted afterwards; every
    /// other failure is always reported.
    fn verdict(&mut self, ok: bool, class: &str, case: &str, detail: &str) {
        if !ok && KNOWN.contains(&class) {
            // "plain": no delegation / alias record anywhere in the history, so the failure is not a
            // consequence of the Special-vs-RRset duality (K3) but of node bookkeeping alone
            let plain = is_plain(case);
            if plain { self.out.count(&format!("known_class_plain/{}", class)); }
            let n = self.seen.entry(class.to_string()).or_insert(0);
            *n += 1;
            if *n > 4 { self.out.count(&format!("known_class_more/{}", class)); self.out.check(true, "ok", case, ""); return; }
        }
        self.out.check(ok, class, case, detail);
    }

    fn run(&mut self, ops: &[Op]) -> Option<Built> {
        let rt = &self.rt;
        catch_mut(|| rt.block_on(run_ops(ops))).ok()
    }

    /// T2 cases + spec oracle for a zone given by `ops`; `content` is what the zone should contain.
    fn eval(&mut self, kind: &str, ops: &[Op], content: Option<&Flat>, queries: &[(Rel, u16)], reference: Option<&Zone>) {
        let ops_s = show_ops(ops);
        self.out.begin(&ops_s);
        let built = match self.run(ops) {
            Some(b) => b,
            None => {
                self.out.check(false, "panic_building_zone", &ops_s, "panic while applying the operations");
                let c = format!("{} ? @ 1", ops_s);
                self.out.case(&c, "Panic", true, kind);
                return;
            }
        };
        let history = ops.iter().any(|o| o.is_history());
        let rp = replay(ops);
        let dis = disagreeing(&rp);
        if let Some(z) = content {
            // the generators' idea of the final content and the replay of the operations must agree
            self.out.check(rp.content == *z, "harness_content_mismatch", &ops_s, "generator content differs from the replayed operations");
        }
        if history { self.out.count(if dis.is_empty() { "history/special_consistent" } else { "history/special_disagrees" }); }
        // walk mode: every RRset of the reader's version with owner and at-zone-cut flag, as a sorted multiset
        {
            let case = format!("{} ? walk", ops_s);
            let zone = built.zone.clone();
            match catch_mut(move || observe_walk(&zone)) {
                Ok(w) => {
                    let line = format!("W={} E={}", if w.is_empty() { "-".to_string() } else { w.join(",") }, if built.errs.is_empty() { "-".to_string() } else { built.errs.join(",") });
                    self.out.case(&case, &line, !w.is_empty(), &format!("{}/walk", kind));
                    if let Some(z) = content { if z.wf() && dis.is_empty() {
                        // with consistent delegation state the walk lists exactly the zone's records that are not
                        // hidden below a delegation, glue being listed (again) at the delegation
                        let mut want: BTreeSet<String> = BTreeSet::new();
                        for r in z.records() {
                            let occluded = (1..=r.owner.0.len()).any(|k| { let pfx = Rel(r.owner.0[..k].to_vec()); z.has(&pfx, T_NS) && (k < r.owner.0.len()) });
                            if !occluded { want.insert(r.show_slash()); }
                        }
                        for (n, sp) in rp.special.iter() { if let Sp::Cut { glue, .. } = sp {
                            let hidden = (1..n.0.len()).any(|k| z.has(&Rel(n.0[..k].to_vec()), T_NS));
                            if !hidden { for g in glue { want.insert(g.clone()); } } } }
                        let got: BTreeSet<String> = w.iter().map(|x| x.rsplitn(2, '/').nth(1).unwrap().to_string()).collect();
                        self.out.check(got == want, "walk_differs_from_content", &case, &format!("walk {:?} expected {:?}", got, want));
                    } }
                }
                Err(e) => { self.out.check(false, "walk_panics", &case, &e); self.out.case(&case, "Panic", true, kind); }
            }
        }
        // every owner and query name of this harness lies inside the zone, however it is spelled
        self.out.check(!built.errs.iter().any(|e| e.ends_with(":OutOfZone")), "in_zone_owner_rejected_out_of_zone", &ops_s, &format!("errors: {:?}", built.errs));
        for (qi, (q, t)) in queries.iter().enumerate() {
            // every fifth query spells the name differently (upper-case apex labels / mixed case throughout)
            let qv: u8 = if qi % 5 == 4 { 1 + ((qi / 5) % 2) as u8 } else { 0 };
            let case = if qv == 0 { format!("{} ? {} {}", ops_s, q.show(), t) } else { format!("{} ? {} {} v{}", ops_s, q.show(), t, qv) };
            let zone = built.zone.clone();
            let (qq, tt) = (q.clone(), *t);
            let obs = match catch_mut(move || observe_v(&zone, &qq, tt, false, qv)) {
                Ok(o) => o,
                Err(e) => { self.out.check(false, "query_panics", &case, &e); self.out.case(&case, "Panic", true, kind); continue; }
            };
            self.out.case(&case, &obs.line(&built.errs, *t), obs.rcode != 3, &format!("{}/{}", kind, obs.kind()));
            self.out.check(!obs.out_of_zone, "in_zone_name_reported_out_of_zone", &case, "query() returned OutOfZone for a name below the apex");
            if let Some(z) = content {
                if !z.wf() { continue; }
                let ql = Rel(q.0.iter().map(|l| l.to_ascii_lowercase()).collect());
                let q = &ql;
                let e = spec(z, q, *t);
                self.out.count(&format!("spec/{}", e.what));
                let ok = matches(&e, &obs);
                let class = if ok { "ok".to_string() } else if history { history_class(z, q, &e, &obs, &dis).to_string() } else { format!("spec_{}", e.what) };
                self.verdict(ok, &class, &case, &format!("expected {} rcode={} aa={} AN={} AU={} AD={}; got {}",
                    e.what, e.rcode, e.aa as u8, e.answers.iter().map(set_show).collect::<Vec<_>>().join("|"), set_show(&e.authority), set_show(&e.additional), obs.line(&[], 0)));
                if ok { self.out.check(obs.dup_free(), "duplicate_records_in_answer", &case, &obs.line(&[], 0)); }
                if let Some(rz) = reference {
                    // history-built zone vs zone built directly from the same records
                    let rzc = rz.clone();
                    let (qq, tt) = (q.clone(), *t);
                    if let Ok(ro) = catch_mut(move || observe(&rzc, &qq, tt, false)) {
                        let same = if *t == T_ANY && ro.kind() == "data" && obs.kind() == "data" { ro.authority == obs.authority && ro.additional == obs.additional }
                                   else { ro.rcode == obs.rcode && ro.aa == obs.aa && ro.answer == obs.answer && ro.authority == obs.authority && ro.additional == obs.additional };
                        let class = if same { "ok".to_string() } else { let c = history_class(z, q, &e, &obs, &dis); if c == "history_dependent_other" { "differs_from_rebuilt".to_string() } else { c.to_string() } };
                        self.verdict(same, &class, &case, &format!("rebuilt zone answers {}; history zone answers {}", ro.line(&[], 0), obs.line(&[], 0)));
                    }
                }
            }
        }
    }
}

fn p(s: &str) -> Rel { Rel::parse(s) }
fn rec(o: &str, t: u16, ttl: u32, rd: &str) -> Rec { Rec { owner: p(o), rtype: t, ttl, rd: Rd::parse(rd) } }

fn main() {
    let a = args();
    let out = Out::new(&a, "C08", 60);
    let rt = tokio::runtime::Builder::new_current_thread().enable_all().build().unwrap();
    let mut cx = Ctx { out, rt, seen: BTreeMap::new() };
    let mut r = Rng::new(a.seed);

    // ------------------------------------------------------------ corpus
    let all_types = [T_A, T_TXT, T_NS, T_DS, T_CNAME, T_SOA, T_ANY];
    let base: Vec<Rec> = vec![rec("@", T_SOA, 60, "1"), rec("@", T_NS, 300, "2"), rec("*", T_A, 101, "3"), rec("www", T_A, 101, "4"),
        rec("a.b", T_A, 101, "5"), rec("sub", T_NS, 300, "@ns.sub"), rec("sub", T_DS, 120, "6"), rec("ns.sub", T_A, 77, "7"),
        rec("x.sub", T_TXT, 50, "8"), rec("al", T_CNAME, 200, "@www"), rec("*.w", T_TXT, 116, "9"), rec("c.*.w", T_TXT, 116, "10")];
    let mut bz = Flat::default();
    for x in &base { bz.add(x); }
    let names = ["@", "www", "zz", "b", "a.b", "q.b", "q.a.b", "sub", "ns.sub", "x.sub", "q.x.sub", "al", "q.al", "*", "w", "q.w", "*.w", "c.*.w", "q.q.w", "c.q.w"];
    let mut qs: Vec<(Rel, u16)> = vec![];
    for n in names { for t in all_types { qs.push((p(n), t)); } }
    // label comparison is case-insensitive
    for n in ["WWW", "A.b", "Q.SUB", "X.w"] { qs.push((p(n), T_A)); qs.push((p(n), T_TXT)); }
    let zops: Vec<Op> = base.iter().cloned().map(Op::ZRec).collect();
    cx.eval("corpus_zonefile", &zops, Some(&bz), &qs, None);
    let bops = builder_ops(&bz, &mut r);
    cx.eval("corpus_builder", &bops, Some(&bz), &qs, None);
    let reference = cx.run(&zops).map(|b| b.zone);

    // K1: descendant / ENT through the updater
    {
        let ops = vec![Op::ZRec(rec("@", T_SOA, 60, "1")), Op::UNew, Op::UAdd(rec("a.b", T_A, 101, "5")), Op::UFin(1)];
        let mut z = Flat::default(); z.add(&rec("@", T_SOA, 60, "1")); z.add(&rec("a.b", T_A, 101, "5"));
        let rz = cx.run(&[Op::ZRec(rec("@", T_SOA, 60, "1")), Op::ZRec(rec("a.b", T_A, 101, "5"))]).map(|b| b.zone);
        cx.eval("corpus_k1", &ops, Some(&z), &[(p("a.b"), T_A), (p("b"), T_A), (p("q.b"), T_A), (p("a.b"), T_TXT)], rz.as_ref());
    }
    // K2: deleted name shadows the wildcard
    {
        let pre = vec![rec("@", T_SOA, 60, "1"), rec("*", T_A, 101, "3"), rec("foo", T_A, 101, "4")];
        let mut ops: Vec<Op> = pre.iter().cloned().map(Op::ZRec).collect();
        ops.extend([Op::UNew, Op::UDel(rec("foo", T_A, 101, "4")), Op::UFin(1)]);
        let mut z = Flat::default(); z.add(&pre[0]); z.add(&pre[1]);
        let rz = cx.run(&[Op::ZRec(pre[0].clone()), Op::ZRec(pre[1].clone())]).map(|b| b.zone);
        cx.eval("corpus_k2", &ops, Some(&z), &[(p("foo"), T_A), (p("bar"), T_A), (p("x.foo"), T_A), (p("foo"), T_TXT)], rz.as_ref());
    }
    // K3: NS / CNAME through the updater
    {
        let ops = vec![Op::ZRec(rec("@", T_SOA, 60, "1")), Op::UNew, Op::UAdd(rec("sub", T_NS, 300, "@ns.sub")), Op::UAdd(rec("ns.sub", T_A, 77, "7")),
            Op::UAdd(rec("al", T_CNAME, 200, "@www")), Op::UFin(1)];
        let mut z = Flat::default();
        for x in [rec("@", T_SOA, 60, "1"), rec("sub", T_NS, 300, "@ns.sub"), rec("ns.sub", T_A, 77, "7"), rec("al", T_CNAME, 200, "@www")] { z.add(&x); }
        let zr: Vec<Op> = z.records().into_iter().map(Op::ZRec).collect();
        let rz = cx.run(&zr).map(|b| b.zone);
        cx.eval("corpus_k3", &ops, Some(&z), &[(p("sub"), T_A), (p("sub"), T_NS), (p("x.sub"), T_A), (p("ns.sub"), T_A), (p("al"), T_A), (p("al"), T_CNAME), (p("sub"), T_DS)], rz.as_ref());
    }
    // full replacement and rollback leave nodes behind
    {
        let pre = vec![rec("@", T_SOA, 60, "1"), rec("old", T_A, 101, "4")];
        let mut ops: Vec<Op> = pre.iter().cloned().map(Op::ZRec).collect();
        ops.extend([Op::UNew, Op::UDelAll, Op::UAdd(rec("new", T_A, 101, "5")), Op::UFin(2)]);
        let mut z = Flat::default(); z.add(&rec("@", T_SOA, 60, "2")); z.add(&rec("new", T_A, 101, "5"));
        let zr: Vec<Op> = z.records().into_iter().map(Op::ZRec).collect();
        let rz = cx.run(&zr).map(|b| b.zone);
        cx.eval("corpus_replace", &ops, Some(&z), &[(p("old"), T_A), (p("new"), T_A), (p("zz"), T_A), (p("@"), T_SOA)], rz.as_ref());
        let ops = vec![Op::ZRec(rec("@", T_SOA, 60, "1")), Op::UNew, Op::UAdd(rec("ghost.www", T_A, 101, "5")), Op::UDrop];
        let mut z = Flat::default(); z.add(&rec("@", T_SOA, 60, "1"));
        let rz = cx.run(&[Op::ZRec(rec("@", T_SOA, 60, "1"))]).map(|b| b.zone);
        cx.eval("corpus_rollback", &ops, Some(&z), &[(p("ghost.www"), T_A), (p("www"), T_A), (p("zz"), T_A)], rz.as_ref());
    }
    // BeginBatchDelete: commits only with the SOA of the version being edited
    {
        let pre = vec![rec("@", T_SOA, 60, "1"), rec("www", T_A, 101, "4")];
        let z0: Vec<Op> = pre.iter().cloned().map(Op::ZRec).collect();
        let qs3 = [(p("x"), T_A), (p("y"), T_A), (p("www"), T_A), (p("@"), T_SOA)];
        // matching serial: the first batch is published, the dropped rest is not
        let mut ops = z0.clone();
        ops.extend([Op::UNew, Op::UAdd(rec("x", T_A, 101, "5")), Op::UBatchDel(1), Op::UAdd(rec("y", T_A, 101, "6")), Op::UDrop]);
        let mut z = Flat::default(); for x in &pre { z.add(x); } z.add(&rec("x", T_A, 101, "5"));
        cx.eval("corpus_batch_match", &ops, Some(&z), &qs3, None);
        // wrong serial: SoaMismatch, nothing is published
        let mut ops = z0.clone();
        ops.extend([Op::UNew, Op::UAdd(rec("x", T_A, 101, "5")), Op::UBatchDel(9), Op::UAdd(rec("y", T_A, 101, "6")), Op::UDrop]);
        let mut z = Flat::default(); for x in &pre { z.add(x); }
        cx.eval("corpus_batch_mismatch", &ops, Some(&z), &qs3, None);
        // the serial is that of the working copy (after BeginBatchAdd), not of the published version
        let mut ops = z0.clone();
        ops.extend([Op::UNew, Op::UBatchAdd(2), Op::UAdd(rec("x", T_A, 101, "5")), Op::UBatchDel(1), Op::UBatchDel(2), Op::UAdd(rec("y", T_A, 101, "6")), Op::UDrop]);
        let mut z = Flat::default(); z.add(&rec("@", T_SOA, 60, "2")); z.add(&pre[1]); z.add(&rec("x", T_A, 101, "5"));
        cx.eval("corpus_batch_working_serial", &ops, Some(&z), &qs3, None);
        // a zone without SOA never matches
        let ops = vec![Op::ZRec(rec("www", T_A, 101, "4")), Op::UNew, Op::UAdd(rec("x", T_A, 101, "5")), Op::UBatchDel(1), Op::UDrop];
        let mut z = Flat::default(); z.add(&pre[1]);
        cx.eval("corpus_batch_no_soa", &ops, Some(&z), &qs3, None);
    }
    // updates that keep the tree canonical answer like the rebuilt zone
    {
        let mut ops = zops.clone();
        ops.extend([Op::UNew, Op::UAdd(rec("www", T_A, 101, "40")), Op::UAdd(rec("mail", T_TXT, 116, "41")), Op::UDel(rec("www", T_A, 101, "4")), Op::UFin(1)]);
        let mut z = bz.clone(); z.add(&rec("www", T_A, 101, "40")); z.add(&rec("mail", T_TXT, 116, "41")); z.del(&rec("www", T_A, 101, "4"));
        let zr: Vec<Op> = z.records().into_iter().map(Op::ZRec).collect();
        let rz = cx.run(&zr).map(|b| b.zone);
        cx.eval("corpus_good_history", &ops, Some(&z), &qs, rz.as_ref());
    }
    // write interface: cut / cname / regular / remove_all, errors at the apex
    {
        let cut = CutD { name: p("sub"), ns: RrsetD { rtype: T_NS, ttl: 300, rds: vec![Rd::parse("@ns.sub")] }, ds: None, glue: vec![rec("ns.sub", T_A, 77, "7")] };
        let ops = vec![Op::ZRec(rec("@", T_SOA, 60, "1")), Op::ZRec(rec("www", T_A, 101, "4")), Op::WOpen,
            Op::WCut(p("sub"), cut.clone()), Op::WCut(p("@"), cut.clone()), Op::WCname(p("al"), 200, Rd::parse("@www")), Op::WCname(p("@"), 200, Rd::parse("@www")),
            Op::WRr(p("x.y"), RrsetD { rtype: T_A, ttl: 101, rds: vec![Rd::Tok(9)] }), Op::WRegular(p("al")), Op::WRemoveAll(p("www")), Op::WCommit];
        cx.eval("corpus_write", &ops, None, &[(p("sub"), T_A), (p("q.sub"), T_A), (p("al"), T_A), (p("x.y"), T_A), (p("y"), T_A), (p("www"), T_A), (p("@"), T_SOA)], None);
        let ops = vec![Op::BCut(CutD { name: p("@"), ..cut.clone() }), Op::BCname(p("@"), 5, Rd::Tok(1)), Op::BRr(p("e"), RrsetD { rtype: T_A, ttl: 1, rds: vec![] }),
            Op::BRr(p("@"), RrsetD { rtype: T_SOA, ttl: 60, rds: vec![Rd::Tok(1), Rd::Tok(2)] })];
        cx.eval("corpus_builder_errors", &ops, None, &[(p("e"), T_A), (p("q"), T_A), (p("@"), T_A)], None);
        let ops = vec![Op::ZRec(rec("@", T_SOA, 60, "1")), Op::UNew, Op::UFin(2), Op::UAdd(rec("www", T_A, 101, "4"))];
        cx.eval("corpus_updater_finished", &ops, None, &[(p("www"), T_A), (p("@"), T_SOA)], None);
        // mixed-case query names
        let _ = reference;
    }
    {
        // out-of-zone query name: oracle only
        let z = cx.run(&zops).unwrap().zone;
        let o = observe(&z, &Rel::apex(), T_A, true);
        cx.out.check(o.out_of_zone, "out_of_zone_query_answered", "corpus ? x.elsewhere.test. 1", &o.line(&[], 0));
    }

    // ------------------------------------------------------------ generated
    let n_zones = (if a.thorough { 6000 } else { 220 }) * a.scale;
    let n_q = if a.thorough { 60 } else { 36 };
    for i in 0..n_zones {
        let z = gen_flat(&mut r);
        if !z.wf() { cx.out.count("gen/not_wf_skipped"); continue; }
        let qs = gen_queries(&mut r, &z, &[], n_q);
        // (1) zone-file path and direct builder calls
        let mut zo = zonefile_ops(&z, &mut r);
        // a quarter of the zones is created / populated with differently spelled names
        let sp: u8 = if i % 4 == 1 { 1 + r.below(7) as u8 } else { 0 };
        if sp != 0 { zo.insert(0, Op::Spell(sp)); }
        cx.eval("zonefile", &zo, Some(&z), &qs, None);
        if sp != 0 { zo.remove(0); }
        if i % 2 == 0 {
            let mut bo = builder_ops(&z, &mut r);
            if i % 8 == 2 { bo.insert(0, Op::Spell(1 + r.below(7) as u8)); }
            cx.eval("builder", &bo, Some(&z), &qs[..qs.len() / 2], None);
        }
        // (1b) record lists that Zonefile::insert accepts but that cannot be built: a delegation with DS
        //      only (MissingNs) or a CNAME at the apex (CnameAtApex) -- exactly these must fail, as a whole
        if i % 5 == 3 {
            let mut z2 = z.clone();
            let which = r.below(3);
            if which != 1 { let n = Rel::apex().child("q").child("d"); z2.add(&Rec { owner: n, rtype: T_DS, ttl: 120, rd: Rd::Tok(777) }); }
            if which != 0 { for t in z2.types_at(&Rel::apex()) { z2.m.remove(&(Rel::apex(), t)); } z2.add(&Rec { owner: Rel::apex(), rtype: T_CNAME, ttl: 5, rd: Rd::Tok(778) }); }
            let zo2 = zonefile_ops(&z2, &mut r);
            if let Some(b) = cx.run(&zo2) {
                let failed = b.errs.iter().any(|e| e.ends_with(":ZoneErrors"));
                let rejected = b.errs.iter().any(|e| !e.ends_with(":ZoneErrors"));
                cx.out.check(failed && !rejected, "zonefile_unbuildable_not_rejected", &show_ops(&zo2), &format!("errors: {:?}", b.errs));
            }
            cx.eval("zonefile_unbuildable", &zo2, None, &qs[..4.min(qs.len())], None);
            let b = cx.run(&zo).map(|b| b.errs.is_empty()).unwrap_or(false);
            cx.out.check(b, "zonefile_buildable_rejected", &show_ops(&zo), "a well-formed record list was not built");
        }
        // (2) histories ending in z
        let start = if r.chance(1, 3) { let mut s = Flat::default(); s.add(&soa_rec(1)); s } else { gen_flat(&mut r) };
        if !start.wf() { continue; }
        let extra: Vec<Rel> = start.m.keys().map(|k| k.0.clone()).collect();
        let hq = gen_queries(&mut r, &z, &extra, n_q / 2);
        let (mut hops, content) = if i % 3 == 2 { gen_write_history(&mut r, &start, &z) } else { gen_updater_history(&mut r, &start, &z) };
        if i % 4 == 3 { hops.insert(0, Op::Spell(1 + r.below(7) as u8)); }
        let rz = if content.wf() { cx.run(&zonefile_ops(&content, &mut r)).map(|b| b.zone) } else { None };
        cx.eval(if i % 3 == 2 { "write_history" } else { "updater_history" }, &hops, Some(&content), &hq, rz.as_ref());
        // (2a) a first writer session creates nodes, a second one replaces the content
        {
            let plain_target = if r.chance(1, 2) { let mut t = z.clone(); t.m.retain(|k, _| k.0 .0.is_empty() || ![T_NS, T_DS, T_CNAME].contains(&k.1)); t } else { z.clone() };
            let sops = gen_two_session_history(&mut r, &start, &plain_target);
            let scontent = replay(&sops).content;
            let mut extra: Vec<Rel> = start.m.keys().map(|k| k.0.clone()).collect();
            for o in &sops { match o { Op::UAdd(x) => extra.push(x.owner.clone()), Op::WRr(n, _) => extra.push(n.clone()), _ => {} } }
            let sq = gen_queries(&mut r, &scontent, &extra, n_q / 2);
            if scontent.wf() {
                let rz = cx.run(&zonefile_ops(&scontent, &mut r)).map(|b| b.zone);
                cx.eval("two_session_history", &sops, Some(&scontent), &sq, rz.as_ref());
            } else { cx.out.count("gen/two_session_not_wf_t2_only"); cx.eval("two_session_history", &sops, None, &sq, None); }
        }
        // (2b) one version touching the same RRsets several times
        if i % 2 == 0 {
            let sops = gen_same_version_history(&mut r, &z);
            let scontent = replay(&sops).content;
            if scontent.wf() {
                let sq = gen_queries(&mut r, &scontent, &z.m.keys().map(|k| k.0.clone()).collect::<Vec<_>>(), n_q / 2);
                let rz = cx.run(&zonefile_ops(&scontent, &mut r)).map(|b| b.zone);
                cx.eval("same_version_history", &sops, Some(&scontent), &sq, rz.as_ref());
            } else { cx.out.count("gen/same_version_not_wf_skipped"); }
        }
        // (2c) write-interface calls that set / clear delegation and alias state
        if i % 3 == 1 {
            let sops = gen_write_special_history(&mut r, &z);
            let scontent = replay(&sops).content;
            let sq = gen_queries(&mut r, &scontent, &z.m.keys().map(|k| k.0.clone()).collect::<Vec<_>>(), n_q / 2);
            if scontent.wf() {
                let rz = cx.run(&zonefile_ops(&scontent, &mut r)).map(|b| b.zone);
                cx.eval("write_special_history", &sops, Some(&scontent), &sq, rz.as_ref());
            } else {
                cx.out.count("gen/write_special_not_wf_t2_only");
                cx.eval("write_special_history", &sops, None, &sq, None);
            }
        }
        // (3) safe updates on a zone with delegations
        if i % 2 == 1 {
            let (sops, scontent) = gen_safe_delta_history(&mut r, &z);
            if scontent.wf() {
                let sq = gen_queries(&mut r, &scontent, &[], n_q / 2);
                let rz = cx.run(&zonefile_ops(&scontent, &mut r)).map(|b| b.zone);
                cx.eval("safe_delta_history", &sops, Some(&scontent), &sq, rz.as_ref());
            }
        }
    }
    let n_trees = (if a.thorough { 3000 } else { 120 }) * a.scale;
    tree_cases(&mut cx, &mut r, n_trees);
    to_message_small_target(&mut cx);
    cx.out.finish(&[]);
}
