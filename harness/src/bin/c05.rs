//! C05 -- record data of every type survives compose/parse; lengths are exact.
//!
//! T2 cases (evaluated by the extracted Coq schema model as well):
//!   compose <rtype> <field>...       constructor + compose_rdata + rdlen + compose_canonical_rdata
//!   parse <rtype> <msg> <pos> <lim>  AllRecordData::parse_any_rdata in a sub-parser [pos, lim) of msg
//! Property oracle (implementation only, every type of AllRecordData):
//!   roundtrip_<T>   parse(compose v) == v (field by field and with the type's ==)
//!   rdlen_<T>       rdlen() / the RDLENGTH written by compose_len_rdata == octets written
//!   recompose_<T>   accepted RDATA re-composes to octets that parse to an equal value
//!   canonical_<T>   compose_canonical_rdata == wire form with exactly the RFC 4034 6.2 /
//!                   RFC 6840 5.1 names lower-cased
//!   opt_len_<OPTION> / opt_roundtrip_<OPTION>  every EDNS option type, see mod edns
//!   ctor_long_<T>   constructor accepted a value whose RDATA exceeds 65535 octets
//!   ctor_reparse_<T> constructor accepted a value that parse rejects after compose
use domain::base::charstr::CharStr;
use domain::base::iana::{
    Class, DigestAlgorithm, Nsec3HashAlgorithm, Rtype, SecurityAlgorithm, SshfpAlgorithm, SshfpType,
    TlsaCertificateUsage, TlsaMatchingType, TlsaSelector, TsigRcode, ZonemdAlgorithm, ZonemdScheme,
};
use domain::base::message::Message;
use domain::base::message_builder::{HashCompressor, MessageBuilder, StaticCompressor, TreeCompressor};
use domain::base::name::{FlattenInto, Name, ParsedName, ToName};
use octseq::OctetsFrom;
use domain::base::rdata::{ComposeRecordData, ParseAnyRecordData, RecordData, UnknownRecordData};
use domain::base::wire::ParseError;
use domain::base::{Record, Serial, Ttl};
use domain::rdata::dnssec::Timestamp;
use domain::rdata::tsig::Time48;
use domain::rdata::*;
use dv_harness::*;
use octseq::Parser;
use std::net::{Ipv4Addr, Ipv6Addr};

type DN = Name<Vec<u8>>;
type Built = AllRecordData<Vec<u8>, DN>;

#[derive(Clone, Debug, PartialEq)]
enum Val { Num(u64), Bytes(Vec<u8>), Name(Vec<u8>), Strs(Vec<Vec<u8>>) }

#[derive(Clone, Copy, Debug, PartialEq)]
enum F { Num(u32), Fix(usize), Name, Str(bool), Strs, Len16, Rest(usize), Bitmap, Svc }

const REGULAR: [(u16, &str); 37] = [
    (1, "A"), (2, "NS"), (3, "MD"), (4, "MF"), (5, "CNAME"), (6, "SOA"), (7, "MB"), (8, "MG"), (9, "MR"),
    (10, "NULL"), (12, "PTR"), (13, "HINFO"), (14, "MINFO"), (15, "MX"), (16, "TXT"), (17, "RP"),
    (28, "AAAA"), (33, "SRV"), (35, "NAPTR"), (39, "DNAME"), (43, "DS"), (44, "SSHFP"), (45, "IPSECKEY"), (46, "RRSIG"),
    (47, "NSEC"), (48, "DNSKEY"), (50, "NSEC3"), (51, "NSEC3PARAM"), (52, "TLSA"), (59, "CDS"), (60, "CDNSKEY"), (61, "OPENPGPKEY"),
    (63, "ZONEMD"), (64, "SVCB"), (65, "HTTPS"), (250, "TSIG"), (257, "CAA"),
];
/// RFC 4034 6.2 as amended by RFC 6840 5.1, restricted to types with names
const RFC_LOWER: [u16; 24] = [2, 3, 4, 5, 6, 7, 8, 9, 12, 13, 14, 15, 17, 18, 21, 24, 26, 30, 35, 36, 33, 39, 38, 46];

/// Oracle verdict; at most 3 failures per class are written out (the output
/// file is capped and one class must not crowd out the others).
fn chk(out: &mut Out, ok: bool, class: &str, case: &str, detail: &str) {
    use std::cell::RefCell;
    use std::collections::HashMap;
    thread_local! { static SEEN: RefCell<HashMap<String, u32>> = RefCell::new(HashMap::new()); }
    if !ok {
        let n = SEEN.with(|s| { let mut s = s.borrow_mut(); let e = s.entry(class.to_string()).or_insert(0); *e += 1; *e });
        if n > 3 { out.count(&format!("more_failures_{}", class)); return; }
    }
    out.check(ok, class, case, detail);
}

fn tname(t: u16) -> String {
    for (c, n) in REGULAR.iter() { if *c == t { return n.to_string(); } }
    match t { 41 => "OPT".into(), 45 => "IPSECKEY".into(), 47 => "NSEC".into(), 50 => "NSEC3".into(),
              64 => "SVCB".into(), 65 => "HTTPS".into(), _ => "UNKNOWN".into() }
}

/// generator-side description of the field kinds (used to produce values and
/// hand-encoded input only; the observations come from the real types)
fn fields(t: u16) -> Vec<F> {
    use F::*;
    match t {
        1 => vec![Fix(4)],
        2 | 3 | 4 | 5 | 7 | 8 | 9 | 12 | 39 => vec![Name],
        6 => vec![Name, Name, Num(4), Num(4), Num(4), Num(4), Num(4)],
        10 | 61 => vec![Rest(0)],
        13 => vec![Str(false), Str(false)],
        14 | 17 => vec![Name, Name],
        15 => vec![Num(2), Name],
        16 => vec![Strs],
        28 => vec![Fix(16)],
        33 => vec![Num(2), Num(2), Num(2), Name],
        35 => vec![Num(2), Num(2), Str(false), Str(false), Str(false), Name],
        43 | 48 | 59 | 60 => vec![Num(2), Num(1), Num(1), Rest(0)],
        44 => vec![Num(1), Num(1), Rest(0)],
        46 => vec![Num(2), Num(1), Num(1), Num(4), Num(4), Num(4), Num(2), Name, Rest(0)],
        47 => vec![Name, Bitmap],
        50 => vec![Num(1), Num(1), Num(2), Str(false), Str(false), Bitmap],
        64 | 65 => vec![Num(2), Name, Svc],
        51 => vec![Num(1), Num(1), Num(2), Str(false)],
        52 => vec![Num(1), Num(1), Num(1), Rest(0)],
        63 => vec![Num(4), Num(1), Num(1), Rest(12)],
        250 => vec![Name, Num(6), Num(2), Len16, Num(2), Num(2), Len16],
        257 => vec![Num(1), Str(true), Rest(0)],
        _ => vec![Rest(0)],
    }
}

/// IPSECKEY: the gateway field depends on the gateway type (second field)
fn fields_v(t: u16, v: &[Val]) -> Vec<F> {
    if t != 45 { return fields(t); }
    let mut fs = vec![F::Num(1), F::Num(1), F::Num(1)];
    match v.get(1) { Some(Val::Num(1)) => fs.push(F::Fix(4)), Some(Val::Num(2)) => fs.push(F::Fix(16)), Some(Val::Num(3)) => fs.push(F::Name), _ => {} }
    fs.push(F::Rest(0));
    fs
}

// ---------------------------------------------------------------- values <-> real types
fn vnum(v: &[Val], i: usize) -> u64 { match &v[i] { Val::Num(n) => *n, _ => panic!("shape") } }
fn vbytes(v: &[Val], i: usize) -> Vec<u8> { match &v[i] { Val::Bytes(b) => b.clone(), _ => panic!("shape") } }
fn vname(v: &[Val], i: usize) -> DN { match &v[i] { Val::Name(b) => Name::from_octets(b.clone()).expect("generator name"), _ => panic!("shape") } }
fn vcs(v: &[Val], i: usize) -> Result<CharStr<Vec<u8>>, ()> { CharStr::from_octets(vbytes(v, i)).map_err(|_| ()) }

/// Build the value with the public constructors. Err = a constructor rejected.
fn build(t: u16, v: &[Val]) -> Result<Built, ()> {
    Ok(match t {
        1 => { let b = vbytes(v, 0); AllRecordData::A(A::new(Ipv4Addr::new(b[0], b[1], b[2], b[3]))) }
        2 => AllRecordData::Ns(Ns::new(vname(v, 0))),
        3 => AllRecordData::Md(Md::new(vname(v, 0))),
        4 => AllRecordData::Mf(Mf::new(vname(v, 0))),
        5 => AllRecordData::Cname(Cname::new(vname(v, 0))),
        6 => AllRecordData::Soa(Soa::new(vname(v, 0), vname(v, 1), Serial(vnum(v, 2) as u32),
                Ttl::from_secs(vnum(v, 3) as u32), Ttl::from_secs(vnum(v, 4) as u32),
                Ttl::from_secs(vnum(v, 5) as u32), Ttl::from_secs(vnum(v, 6) as u32))),
        7 => AllRecordData::Mb(Mb::new(vname(v, 0))),
        8 => AllRecordData::Mg(Mg::new(vname(v, 0))),
        9 => AllRecordData::Mr(Mr::new(vname(v, 0))),
        10 => AllRecordData::Null(Null::from_octets(vbytes(v, 0)).map_err(|_| ())?),
        12 => AllRecordData::Ptr(Ptr::new(vname(v, 0))),
        13 => AllRecordData::Hinfo(Hinfo::new(vcs(v, 0)?, vcs(v, 1)?)),
        14 => AllRecordData::Minfo(Minfo::new(vname(v, 0), vname(v, 1))),
        15 => AllRecordData::Mx(Mx::new(vnum(v, 0) as u16, vname(v, 1))),
        16 => {
            let l = match &v[0] { Val::Strs(l) => l, _ => panic!("shape") };
            let mut raw = vec![];
            for s in l { if s.len() > 255 { return Err(()); } raw.push(s.len() as u8); raw.extend_from_slice(s); }
            AllRecordData::Txt(Txt::from_octets(raw).map_err(|_| ())?)
        }
        17 => AllRecordData::Rp(Rp::new(vname(v, 0), vname(v, 1))),
        28 => { let b = vbytes(v, 0); let mut a = [0u8; 16]; a.copy_from_slice(&b); AllRecordData::Aaaa(Aaaa::new(Ipv6Addr::from(a))) }
        33 => AllRecordData::Srv(Srv::new(vnum(v, 0) as u16, vnum(v, 1) as u16, vnum(v, 2) as u16, vname(v, 3))),
        35 => AllRecordData::Naptr(Naptr::new(vnum(v, 0) as u16, vnum(v, 1) as u16, vcs(v, 2)?, vcs(v, 3)?, vcs(v, 4)?, vname(v, 5))),
        39 => AllRecordData::Dname(Dname::new(vname(v, 0))),
        43 => AllRecordData::Ds(Ds::new(vnum(v, 0) as u16, SecurityAlgorithm::from_int(vnum(v, 1) as u8),
                DigestAlgorithm::from_int(vnum(v, 2) as u8), vbytes(v, 3)).map_err(|_| ())?),
        44 => AllRecordData::Sshfp(Sshfp::new(SshfpAlgorithm::from_int(vnum(v, 0) as u8), SshfpType::from_int(vnum(v, 1) as u8), vbytes(v, 2))),
        45 => {
            use domain::rdata::ipseckey::IpseckeyGateway;
            let alg = domain::base::iana::IpseckeyAlgorithm::from_int(vnum(v, 2) as u8);
            let (gw, key): (IpseckeyGateway<DN>, Vec<u8>) = match vnum(v, 1) {
                0 => (IpseckeyGateway::None, vbytes(v, 3)),
                1 => { let b = vbytes(v, 3); (IpseckeyGateway::Ipv4(A::new(Ipv4Addr::new(b[0], b[1], b[2], b[3]))), vbytes(v, 4)) }
                2 => { let b = vbytes(v, 3); let mut a = [0u8; 16]; a.copy_from_slice(&b); (IpseckeyGateway::Ipv6(Aaaa::new(Ipv6Addr::from(a))), vbytes(v, 4)) }
                3 => (IpseckeyGateway::Name(vname(v, 3)), vbytes(v, 4)),
                _ => return Err(()),
            };
            AllRecordData::Ipseckey(Ipseckey::new(vnum(v, 0) as u8, alg, gw, key))
        }
        46 => AllRecordData::Rrsig(Rrsig::new(Rtype::from_int(vnum(v, 0) as u16), SecurityAlgorithm::from_int(vnum(v, 1) as u8),
                vnum(v, 2) as u8, Ttl::from_secs(vnum(v, 3) as u32), Timestamp::from(vnum(v, 4) as u32),
                Timestamp::from(vnum(v, 5) as u32), vnum(v, 6) as u16, vname(v, 7), vbytes(v, 8)).map_err(|_| ())?),
        47 => AllRecordData::Nsec(Nsec::new(vname(v, 0), domain::rdata::dnssec::RtypeBitmap::from_octets(vbytes(v, 1)).map_err(|_| ())?)),
        50 => AllRecordData::Nsec3(Nsec3::new(Nsec3HashAlgorithm::from_int(vnum(v, 0) as u8), vnum(v, 1) as u8, vnum(v, 2) as u16,
                domain::rdata::nsec3::Nsec3Salt::from_octets(vbytes(v, 3)).map_err(|_| ())?,
                domain::rdata::nsec3::OwnerHash::from_octets(vbytes(v, 4)).map_err(|_| ())?,
                domain::rdata::dnssec::RtypeBitmap::from_octets(vbytes(v, 5)).map_err(|_| ())?)),
        64 => AllRecordData::Svcb(Svcb::new(vnum(v, 0) as u16, vname(v, 1), domain::rdata::svcb::SvcParams::from_octets(vbytes(v, 2)).map_err(|_| ())?).map_err(|_| ())?),
        65 => AllRecordData::Https(Https::new(vnum(v, 0) as u16, vname(v, 1), domain::rdata::svcb::SvcParams::from_octets(vbytes(v, 2)).map_err(|_| ())?).map_err(|_| ())?),
        48 => AllRecordData::Dnskey(Dnskey::new(vnum(v, 0) as u16, vnum(v, 1) as u8, SecurityAlgorithm::from_int(vnum(v, 2) as u8), vbytes(v, 3)).map_err(|_| ())?),
        51 => AllRecordData::Nsec3param(Nsec3param::new(Nsec3HashAlgorithm::from_int(vnum(v, 0) as u8), vnum(v, 1) as u8,
                vnum(v, 2) as u16, domain::rdata::nsec3::Nsec3Salt::from_octets(vbytes(v, 3)).map_err(|_| ())?)),
        52 => AllRecordData::Tlsa(Tlsa::new(TlsaCertificateUsage::from_int(vnum(v, 0) as u8), TlsaSelector::from_int(vnum(v, 1) as u8),
                TlsaMatchingType::from_int(vnum(v, 2) as u8), vbytes(v, 3))),
        59 => AllRecordData::Cds(Cds::new(vnum(v, 0) as u16, SecurityAlgorithm::from_int(vnum(v, 1) as u8),
                DigestAlgorithm::from_int(vnum(v, 2) as u8), vbytes(v, 3)).map_err(|_| ())?),
        60 => AllRecordData::Cdnskey(Cdnskey::new(vnum(v, 0) as u16, vnum(v, 1) as u8, SecurityAlgorithm::from_int(vnum(v, 2) as u8), vbytes(v, 3)).map_err(|_| ())?),
        61 => AllRecordData::Openpgpkey(Openpgpkey::new(vbytes(v, 0))),
        63 => AllRecordData::Zonemd(Zonemd::new(Serial(vnum(v, 0) as u32), ZonemdScheme::from_int(vnum(v, 1) as u8),
                ZonemdAlgorithm::from_int(vnum(v, 2) as u8), vbytes(v, 3))),
        250 => AllRecordData::Tsig(Tsig::new(vname(v, 0), Time48::from_u64(vnum(v, 1)), vnum(v, 2) as u16, vbytes(v, 3),
                vnum(v, 4) as u16, TsigRcode::from_int(vnum(v, 5) as u16), vbytes(v, 6)).map_err(|_| ())?),
        257 => {
            let tag = domain::rdata::caa::CaaTag::new(vcs(v, 1)?).map_err(|_| ())?;
            AllRecordData::Caa(Caa::new(domain::rdata::caa::CaaFlags::new(vnum(v, 0) as u8), tag, vbytes(v, 2)))
        }
        _ => AllRecordData::Unknown(UnknownRecordData::from_octets(Rtype::from_int(t), vbytes(v, 0)).map_err(|_| ())?),
    })
}

fn wire_of<N: ToName + ?Sized>(n: &N) -> Vec<u8> {
    let mut w = vec![];
    for l in n.iter_labels() { let s = l.as_slice(); w.push(s.len() as u8); w.extend_from_slice(s); }
    w
}
fn nv<N: ToName + ?Sized>(n: &N) -> Val { Val::Name(wire_of(n)) }
fn bv<O: AsRef<[u8]> + ?Sized>(o: &O) -> Val { Val::Bytes(o.as_ref().to_vec()) }
fn num<T: Into<u64>>(x: T) -> Val { Val::Num(x.into()) }

/// Take a value apart with the public accessors. None = not a table type.
fn explode<O: AsRef<[u8]>, N: ToName>(d: &AllRecordData<O, N>) -> Option<Vec<Val>> {
    Some(match d {
        AllRecordData::A(x) => vec![Val::Bytes(x.addr().octets().to_vec())],
        AllRecordData::Ns(x) => vec![nv(x.nsdname())],
        AllRecordData::Md(x) => vec![nv(x.madname())],
        AllRecordData::Mf(x) => vec![nv(x.madname())],
        AllRecordData::Cname(x) => vec![nv(x.cname())],
        AllRecordData::Soa(x) => vec![nv(x.mname()), nv(x.rname()), num(x.serial().into_int()), num(x.refresh().as_secs()),
            num(x.retry().as_secs()), num(x.expire().as_secs()), num(x.minimum().as_secs())],
        AllRecordData::Mb(x) => vec![nv(x.madname())],
        AllRecordData::Mg(x) => vec![nv(x.madname())],
        AllRecordData::Mr(x) => vec![nv(x.newname())],
        AllRecordData::Null(x) => vec![Val::Bytes(x.data().as_ref().to_vec())],
        AllRecordData::Ptr(x) => vec![nv(x.ptrdname())],
        AllRecordData::Hinfo(x) => vec![Val::Bytes(x.cpu().as_slice().to_vec()), Val::Bytes(x.os().as_slice().to_vec())],
        AllRecordData::Minfo(x) => vec![nv(x.rmailbx()), nv(x.emailbx())],
        AllRecordData::Mx(x) => vec![num(x.preference()), nv(x.exchange())],
        AllRecordData::Txt(x) => vec![Val::Strs(x.iter_charstrs().map(|c| c.as_slice().to_vec()).collect())],
        AllRecordData::Rp(x) => vec![nv(x.mbox()), nv(x.txt())],
        AllRecordData::Aaaa(x) => vec![Val::Bytes(x.addr().octets().to_vec())],
        AllRecordData::Srv(x) => vec![num(x.priority()), num(x.weight()), num(x.port()), nv(x.target())],
        AllRecordData::Naptr(x) => vec![num(x.order()), num(x.preference()), Val::Bytes(x.flags().as_slice().to_vec()),
            Val::Bytes(x.services().as_slice().to_vec()), Val::Bytes(x.regexp().as_slice().to_vec()), nv(x.replacement())],
        AllRecordData::Dname(x) => vec![nv(x.dname())],
        AllRecordData::Ds(x) => vec![num(x.key_tag()), num(x.algorithm().to_int()), num(x.digest_type().to_int()), bv(x.digest())],
        AllRecordData::Sshfp(x) => vec![num(x.algorithm().to_int()), num(x.fingerprint_type().to_int()), bv(x.fingerprint())],
        AllRecordData::Ipseckey(x) => {
            use domain::rdata::ipseckey::IpseckeyGateway;
            let mut o = vec![num(x.precedence()), num(x.gateway_type().to_int()), num(x.algorithm().to_int())];
            match x.gateway() { IpseckeyGateway::None => {}, IpseckeyGateway::Ipv4(a) => o.push(Val::Bytes(a.addr().octets().to_vec())),
                                IpseckeyGateway::Ipv6(a) => o.push(Val::Bytes(a.addr().octets().to_vec())), IpseckeyGateway::Name(n) => o.push(nv(n)) }
            o.push(bv(x.key()));
            o
        }
        AllRecordData::Rrsig(x) => vec![num(x.type_covered().to_int()), num(x.algorithm().to_int()), num(x.labels()),
            num(x.original_ttl().as_secs()), num(x.expiration().into_int()), num(x.inception().into_int()),
            num(x.key_tag()), nv(x.signer_name()), bv(x.signature())],
        AllRecordData::Dnskey(x) => vec![num(x.flags()), num(x.protocol()), num(x.algorithm().to_int()), bv(x.public_key())],
        AllRecordData::Nsec(x) => vec![nv(x.next_name()), Val::Bytes(x.types().as_slice().to_vec())],
        AllRecordData::Nsec3(x) => vec![num(x.hash_algorithm().to_int()), num(x.flags()), num(x.iterations()), Val::Bytes(x.salt().as_slice().to_vec()),
            Val::Bytes(x.next_owner().as_slice().to_vec()), Val::Bytes(x.types().as_slice().to_vec())],
        AllRecordData::Svcb(x) => vec![num(x.priority()), nv(x.target()), Val::Bytes(x.params().as_slice().to_vec())],
        AllRecordData::Https(x) => vec![num(x.priority()), nv(x.target()), Val::Bytes(x.params().as_slice().to_vec())],
        AllRecordData::Nsec3param(x) => vec![num(x.hash_algorithm().to_int()), num(x.flags()), num(x.iterations()), Val::Bytes(x.salt().as_slice().to_vec())],
        AllRecordData::Tlsa(x) => vec![num(x.usage().to_int()), num(x.selector().to_int()), num(x.matching_type().to_int()), bv(x.data())],
        AllRecordData::Cds(x) => vec![num(x.key_tag()), num(x.algorithm().to_int()), num(x.digest_type().to_int()), bv(x.digest())],
        AllRecordData::Cdnskey(x) => vec![num(x.flags()), num(x.protocol()), num(x.algorithm().to_int()), bv(x.public_key())],
        AllRecordData::Openpgpkey(x) => vec![bv(x.key())],
        AllRecordData::Zonemd(x) => vec![num(x.serial().into_int()), num(x.scheme().to_int()), num(x.algorithm().to_int()), bv(x.digest())],
        AllRecordData::Tsig(x) => vec![nv(x.algorithm()), Val::Num(u64::from(x.time_signed())), num(x.fudge()), bv(x.mac()),
            num(x.original_id()), num(x.error().to_int()), bv(x.other())],
        AllRecordData::Caa(x) => vec![num(x.flags().bits()), Val::Bytes({ let mut w: Vec<u8> = Vec::new(); x.tag().compose(&mut w).unwrap(); w[1..].to_vec() }), bv(x.value())],
        AllRecordData::Unknown(x) => vec![bv(x.data())],
        _ => return None,
    })
}

fn tok(v: &Val) -> String {
    match v {
        Val::Num(n) => n.to_string(),
        Val::Bytes(b) => hex(b),
        Val::Name(w) => hex(w),
        Val::Strs(l) => format!("[{}]", l.iter().map(|s| hex(s)).collect::<Vec<_>>().join(",")),
    }
}
fn toks(v: &[Val]) -> String { v.iter().map(tok).collect::<Vec<_>>().join(" ") }

fn perr(e: &ParseError) -> &'static str { match e { ParseError::ShortInput => "Err short", ParseError::Form(_) => "Err form" } }

// ---------------------------------------------------------------- generators
fn label(r: &mut Rng, n: usize) -> Vec<u8> {
    (0..n).map(|_| match r.below(8) { 0 => r.u8(), 1 => b'A' + r.below(26) as u8, 2 => *r.pick(&[0u8, b'.', b' ', 0x40, 0x5b, 0x60, 0x7b, 0xc1, 0xff]),
                                      _ => b'a' + r.below(26) as u8 }).collect()
}
fn mkname(labels: &[Vec<u8>]) -> Vec<u8> {
    let mut w = vec![];
    for l in labels { w.push(l.len() as u8); w.extend_from_slice(l); }
    w.push(0);
    w
}
/// names from a small pool with case collisions, plus boundary shapes
fn gen_name(r: &mut Rng) -> Vec<u8> {
    const POOL: [&[&[u8]]; 10] = [&[], &[b"a"], &[b"A"], &[b"example", b"com"], &[b"EXAMPLE", b"com"], &[b"Www", b"Example", b"COM"],
        &[b"www", b"example", b"com"], &[b"mail", b"example", b"com"], &[b"ns1", b"Example", b"NET"], &[b"x", b"y", b"z"]];
    match r.below(10) {
        0..=5 => mkname(&r.pick(&POOL).iter().map(|l| l.to_vec()).collect::<Vec<_>>()),
        6 => { let n = 1 + r.below(4) as usize; let ls: Vec<Vec<u8>> = (0..n).map(|_| { let k = 1 + r.below(12) as usize; label(r, k) }).collect(); mkname(&ls) }
        7 => mkname(&[label(r, 63)]),
        8 => { // maximal name: 255 octets
            let mut ls = vec![label(r, 63), label(r, 63), label(r, 63), label(r, 61)];
            if r.chance(1, 2) { ls = (0..127).map(|_| label(r, 1)).collect(); }
            mkname(&ls) }
        _ => { let n = 1 + r.below(30) as usize; let ls: Vec<Vec<u8>> = (0..n).map(|_| { let k = 1 + r.below(7) as usize; label(r, k) }).collect(); mkname(&ls) }
    }
}
fn gen_len(r: &mut Rng, big: bool) -> usize {
    match r.below(12) { 0 => 0, 1 => 1, 2 => 255, 3 => 256, 4 => 254, 5 if big => 1000 + r.below(3000) as usize, _ => r.below(40) as usize }
}
fn gen_str(r: &mut Rng, alnum: bool, allow_bad: bool) -> Vec<u8> {
    let n = match r.below(10) { 0 => 0, 1 => 255, 2 if allow_bad => 256, 3 => 1, _ => r.below(20) as usize };
    if alnum {
        let mut s: Vec<u8> = (0..n).map(|_| *r.pick(b"abcxyzABCXYZ0189")).collect();
        if allow_bad && n > 0 && r.chance(1, 8) { let i = r.below(n as u64) as usize; s[i] = *r.pick(&[b'-', b' ', 0x2f, 0x3a, 0x40, 0x5b, 0x60, 0x7b, 0x80]); }
        s
    } else { r.bytes(n) }
}
fn gen_num(r: &mut Rng, w: u32) -> u64 {
    let max = if w == 8 { u64::MAX } else { (1u64 << (8 * w)) - 1 };
    match r.below(6) { 0 => 0, 1 => max, 2 => 1, 3 => max >> 1, 4 => 1u64 << (8 * w - 8), _ => r.next() & max }
}
/// type bitmap octets: mostly well-formed window blocks; windows need not ascend
fn gen_bitmap(r: &mut Rng, allow_bad: bool) -> Vec<u8> {
    let mut out = vec![];
    let n = match r.below(6) { 0 => 0, 1 => 1, 2 => 20, _ => r.below(4) };
    let mut w = 0u16;
    for _ in 0..n {
        let win = if r.chance(1, 8) { r.u8() } else { let x = w as u8; w = (w + 1 + r.below(40) as u16).min(255); x };
        let len = match r.below(6) { 0 => 1usize, 1 => 32, _ => 1 + r.below(32) as usize };
        out.push(win); out.push(len as u8);
        let mut d = r.bytes(len); if r.chance(3, 4) { let k = d.len() - 1; d[k] |= 1; }
        out.extend_from_slice(&d);
    }
    if allow_bad && !out.is_empty() {
        match r.below(5) { 0 => { out.pop(); } 1 => { out[1] = 0; } 2 => { out[1] = 33 + r.below(200) as u8; } 3 => { out.push(r.u8()); } _ => {} }
    }
    out
}
/// SVCB parameter octets: (key, length, data)*, keys mostly strictly ascending
fn gen_svcparams(r: &mut Rng, allow_bad: bool) -> Vec<u8> {
    let mut out = vec![];
    let n = match r.below(6) { 0 => 0, 1 => 1, 2 => 12, _ => r.below(5) };
    let mut key = if r.chance(1, 3) { 0u32 } else { r.below(8) as u32 };
    for _ in 0..n {
        if key > 65535 { break; }
        let len = match r.below(6) { 0 => 0usize, 1 => 300, _ => r.below(20) as usize };
        out.extend_from_slice(&(key as u16).to_be_bytes()); out.extend_from_slice(&(len as u16).to_be_bytes()); out.extend_from_slice(&r.bytes(len));
        key += if allow_bad && r.chance(1, 6) { 0 } else { 1 + match r.below(4) { 0 => 0, 1 => 60000, _ => r.below(9) as u32 } };
    }
    if allow_bad && !out.is_empty() {
        match r.below(5) { 0 => { out.pop(); } 1 => { let k = out.len(); out.truncate(k.saturating_sub(3)); } 2 => { out.extend_from_slice(&[0, 0, 0, 0]); } 3 => { out.push(r.u8()); } _ => {} }
    }
    out
}
fn gen_value(r: &mut Rng, t: u16, allow_bad: bool) -> Vec<Val> {
    let hint = vec![Val::Num(0), Val::Num(r.below(4))];
    let mut v = gen_value_fs(r, &fields_v(t, &hint), allow_bad);
    if t == 45 {
        v[1] = hint[1].clone();
        v[2] = Val::Num(r.below(4));
        // a key-less value with a key algorithm is the known ctor_reparse_IPSECKEY finding: keep it to the corpus
        let k = v.len() - 1;
        if matches!(&v[k], Val::Bytes(b) if b.is_empty()) && !matches!(v[2], Val::Num(0)) { v[k] = Val::Bytes(vec![r.u8()]); }
    }
    v
}
fn gen_value_fs(r: &mut Rng, fs: &[F], allow_bad: bool) -> Vec<Val> {
    fs.iter().map(|f| match *f {
        F::Num(w) => Val::Num(gen_num(r, w)),
        F::Fix(k) => Val::Bytes(r.bytes(k)),
        F::Name => Val::Name(gen_name(r)),
        F::Str(a) => Val::Bytes(gen_str(r, a, allow_bad)),
        F::Strs => { let n = match r.below(8) { 0 if allow_bad => 0, 1 => 1, 2 => 30, _ => 1 + r.below(5) as usize };
                     Val::Strs((0..n).map(|_| gen_str(r, false, allow_bad)).collect()) }
        F::Len16 => { let n = gen_len(r, true); Val::Bytes(r.bytes(n)) }
        F::Bitmap => Val::Bytes(gen_bitmap(r, allow_bad)),
        F::Svc => Val::Bytes(gen_svcparams(r, allow_bad)),
        F::Rest(min) => { let n = if min > 0 && !(allow_bad && r.chance(1, 6)) { min + gen_len(r, true) } else { gen_len(r, true) }; Val::Bytes(r.bytes(n)) }
    }).collect()
}
/// length of the wire form of a value (generator arithmetic)
fn vlen(fs: &[F], v: &[Val]) -> usize {
    fs.iter().zip(v).map(|(f, x)| match (f, x) {
        (F::Num(w), _) => *w as usize,
        (F::Fix(_), Val::Bytes(b)) | (F::Rest(_), Val::Bytes(b)) | (F::Bitmap, Val::Bytes(b)) | (F::Svc, Val::Bytes(b)) => b.len(),
        (F::Name, Val::Name(w)) => w.len(),
        (F::Str(_), Val::Bytes(b)) => b.len() + 1,
        (F::Strs, Val::Strs(l)) => l.iter().map(|s| s.len() + 1).sum(),
        (F::Len16, Val::Bytes(b)) => b.len() + 2,
        _ => 0 }).sum()
}
/// resize the last unbounded field so that the total is `total`
fn fit_total(r: &mut Rng, t: u16, v: &mut Vec<Val>, total: usize) -> bool {
    let fs = fields_v(t, v);
    let idx = match fs.iter().rposition(|f| matches!(f, F::Rest(_) | F::Len16 | F::Strs)) { Some(i) => i, None => return false };
    let cur = vlen(&fs, v);
    match (&fs[idx], &mut v[idx]) {
        (F::Strs, Val::Strs(l)) => {
            l.clear();
            let rest = total.saturating_sub(cur - 0);
            let _ = rest;
            // rebuild: strings of 255 octets (256 on the wire) then one that fits
            let base = { let mut vv = v.clone(); vv[idx] = Val::Strs(vec![]); vlen(&fs, &vv) };
            let mut left = total - base;
            let mut out = vec![];
            while left > 0 { let k = left.min(256); out.push(r.bytes(k - 1)); left -= k; }
            v[idx] = Val::Strs(out);
            true
        }
        (_, Val::Bytes(b)) => {
            let other = cur - b.len();
            if total < other { return false; }
            *b = r.bytes(total - other);
            true
        }
        _ => false,
    }
}

// ---------------------------------------------------------------- hand encoder (input generation)
#[derive(Clone, Copy, PartialEq)]
enum NameEnc { Inline, Pointer, Partial }

/// Encode a value field by field; names either inline, as a pointer to a copy
/// that is placed in `prefix`, or first label inline + pointer to the rest.
fn encode(fs: &[F], v: &[Val], prefix: &mut Vec<u8>, r: &mut Rng, compress: bool, ptr_used: &mut bool) -> Vec<u8> {
    let mut out = vec![];
    for (f, x) in fs.iter().zip(v) {
        match (f, x) {
            (F::Num(w), Val::Num(n)) => { for i in (0..*w).rev() { out.push((n >> (8 * i)) as u8); } }
            (F::Fix(_), Val::Bytes(b)) | (F::Rest(_), Val::Bytes(b)) | (F::Bitmap, Val::Bytes(b)) | (F::Svc, Val::Bytes(b)) => out.extend_from_slice(b),
            (F::Str(_), Val::Bytes(b)) => { out.push(b.len() as u8); out.extend_from_slice(b); }
            (F::Strs, Val::Strs(l)) => { for s in l { out.push(s.len() as u8); out.extend_from_slice(s); } }
            (F::Len16, Val::Bytes(b)) => { out.push((b.len() >> 8) as u8); out.push(b.len() as u8); out.extend_from_slice(b); }
            (F::Name, Val::Name(w)) => {
                let enc = if !compress { NameEnc::Inline } else { *r.pick(&[NameEnc::Inline, NameEnc::Pointer, NameEnc::Partial]) };
                let at = prefix.len();
                if enc == NameEnc::Inline || at + w.len() >= 0x3fff { out.extend_from_slice(w); }
                else if enc == NameEnc::Pointer || w.len() == 1 {
                    *ptr_used = true;
                    prefix.extend_from_slice(w);
                    out.push(0xc0 | (at >> 8) as u8); out.push(at as u8);
                } else {
                    *ptr_used = true;
                    let first = 1 + w[0] as usize;
                    prefix.extend_from_slice(&w[first..]);
                    out.extend_from_slice(&w[..first]);
                    out.push(0xc0 | (at >> 8) as u8); out.push(at as u8);
                }
            }
            _ => panic!("shape"),
        }
    }
    out
}

// ---------------------------------------------------------------- implementation runs
fn compose_plain<D: ComposeRecordData>(d: &D) -> Result<Vec<u8>, String> {
    catch_mut(|| { let mut t = Vec::new(); d.compose_rdata(&mut t).unwrap(); t })
}
fn compose_canon<D: ComposeRecordData>(d: &D) -> Result<Vec<u8>, String> {
    catch_mut(|| { let mut t = Vec::new(); d.compose_canonical_rdata(&mut t).unwrap(); t })
}
fn show_rdlen(r: &Result<Option<u16>, String>) -> String {
    match r { Ok(Some(n)) => n.to_string(), Ok(None) => "None".into(), Err(_) => "Panic".into() }
}

/// parse the RDATA at [pos, lim) of msg the way the record framing does
fn parse_at<'a>(t: u16, msg: &'a [u8], pos: usize, lim: usize)
    -> Result<Result<AllRecordData<&'a [u8], ParsedName<&'a [u8]>>, ParseError>, String> {
    catch_mut(|| {
        let mut p = Parser::from_ref(msg);
        p.advance(pos).map_err(|_| ParseError::ShortInput)?;
        let mut sub = p.parse_parser(lim - pos)?;
        let d = AllRecordData::parse_any_rdata(Rtype::from_int(t), &mut sub)?;
        if sub.remaining() > 0 { return Err(ParseError::form_error("trailing data")); }
        Ok(d)
    })
}

fn lower_names(t: u16, v: &[Val]) -> Vec<Val> {
    if !RFC_LOWER.contains(&t) { return v.to_vec(); }
    fold_names(v)
}
fn fold_names(v: &[Val]) -> Vec<Val> {
    v.iter().map(|x| match x {
        Val::Name(w) => {
            // lower-case label octets only (length octets are <= 63 and unaffected by the ASCII map anyway)
            let mut o = vec![]; let mut i = 0;
            while i < w.len() { let k = w[i] as usize; o.push(w[i]); for j in 0..k { o.push(w[i + 1 + j].to_ascii_lowercase()); } i += 1 + k; }
            Val::Name(o)
        }
        y => y.clone() }).collect()
}

/// class word for a failed `==` between two values that are field-wise equal
fn eq_class<O, N>(d: &AllRecordData<O, N>, tn: &str) -> String {
    match d {
        AllRecordData::Unknown(_) => "allrecorddata_eq_unknown".to_string(),
        AllRecordData::Opt(_) => "allrecorddata_eq_opt".to_string(),
        _ => format!("roundtrip_{}", tn),
    }
}

/// Every way to reach the same composition must give the same octets: the provided
/// length-prefixed methods, the blanket impl for references, Record::compose_canonical
/// with the data held by value or by reference.
fn equivalent_paths(out: &mut Out, tn: &str, case: &str, built: &Built, wire: &[u8], canon: &[u8]) {
    fn pre(b: &[u8]) -> Vec<u8> { let mut v = (b.len() as u16).to_be_bytes().to_vec(); v.extend_from_slice(b); v }
    let r = catch_mut(|| {
        let mut res: Vec<(&'static str, &'static str, Vec<u8>, Vec<u8>)> = vec![];
        macro_rules! path { ($kind:expr, $what:expr, $expect:expr, $call:expr) => {{ let mut t: Vec<u8> = Vec::new(); $call(&mut t).unwrap(); res.push(($kind, $what, t, $expect)); }}}
        let rf: &Built = built; let rrf: &&Built = &rf;
        path!("rdlen", "compose_len_rdata", pre(wire), |t: &mut Vec<u8>| built.compose_len_rdata(t));
        path!("rdlen", "<&T>::compose_len_rdata", pre(wire), |t: &mut Vec<u8>| rf.compose_len_rdata(t));
        path!("rdlen", "<&&T>::compose_len_rdata", pre(wire), |t: &mut Vec<u8>| rrf.compose_len_rdata(t));
        path!("roundtrip", "<&T>::compose_rdata", wire.to_vec(), |t: &mut Vec<u8>| rf.compose_rdata(t));
        path!("canonical", "<&T>::compose_canonical_rdata", canon.to_vec(), |t: &mut Vec<u8>| rf.compose_canonical_rdata(t));
        path!("canonical", "compose_canonical_len_rdata", pre(canon), |t: &mut Vec<u8>| built.compose_canonical_len_rdata(t));
        path!("canonical", "<&T>::compose_canonical_len_rdata", pre(canon), |t: &mut Vec<u8>| rf.compose_canonical_len_rdata(t));
        path!("canonical", "<&&T>::compose_canonical_len_rdata", pre(canon), |t: &mut Vec<u8>| rrf.compose_canonical_len_rdata(t));
        // whole records: owner "Ab." class IN ttl 7
        let owner: DN = Name::from_octets(vec![2, b'A', b'b', 0]).unwrap();
        let mut head = vec![2, b'a', b'b', 0]; head.extend_from_slice(&built.rtype().to_int().to_be_bytes()); head.extend_from_slice(&[0, 1, 0, 0, 0, 7]);
        let mut exp = head.clone(); exp.extend_from_slice(&pre(canon));
        let by_val = Record::new(owner.clone(), Class::IN, Ttl::from_secs(7), built.clone());
        let by_ref = Record::new(owner.clone(), Class::IN, Ttl::from_secs(7), rf);
        path!("canonical", "Record<_, D>::compose_canonical", exp.clone(), |t: &mut Vec<u8>| by_val.compose_canonical(t));
        path!("canonical", "Record<_, &D>::compose_canonical", exp.clone(), |t: &mut Vec<u8>| by_ref.compose_canonical(t));
        let mut exp2 = vec![2, b'A', b'b', 0]; exp2.extend_from_slice(&head[4..]); exp2.extend_from_slice(&pre(wire));
        path!("rdlen", "Record<_, &D>::compose", exp2.clone(), |t: &mut Vec<u8>| by_ref.compose(t));
        (res, rf.rdlen(false), built.rdlen(false))
    });
    match r {
        Ok((res, l1, l2)) => {
            for (kind, what, got, expect) in res {
                chk(out, got == expect, &format!("{}_{}", kind, tn), case, &format!("{} wrote {} instead of {}", what, hex(&got), hex(&expect)));
            }
            chk(out, l1 == l2, &format!("rdlen_{}", tn), case, "<&T>::rdlen differs");
        }
        Err(e) => chk(out, false, &format!("compose_panic_{}", tn), case, &format!("an equivalent compose path panicked: {}", e)),
    }
}

/// Octets-generic conversions keep the value: OctetsFrom (Vec -> Bytes) on the built value,
/// FlattenInto (ParsedName -> Name<Vec>) on a parsed one.
fn conversions(out: &mut Out, tn: &str, case: &str, built: &Built, parsed: &AllRecordData<&[u8], ParsedName<&[u8]>>, v: Option<&[Val]>, wire: &[u8]) {
    let conv = catch_mut(|| AllRecordData::<bytes::Bytes, Name<bytes::Bytes>>::try_octets_from(built.clone()));
    match conv {
        Ok(Ok(c)) => {
            chk(out, compose_plain(&c).ok().as_deref() == Some(wire), &format!("octets_from_{}", tn), case, "value converted with OctetsFrom composes differently");
            chk(out, c == *built, &format!("octets_from_{}", tn), case, "value converted with OctetsFrom != original");
            chk(out, v.is_none() || explode(&c).as_deref() == v, &format!("octets_from_{}", tn), case, "value converted with OctetsFrom has different fields");
        }
        Ok(Err(_)) => chk(out, false, &format!("octets_from_{}", tn), case, "OctetsFrom failed"),
        Err(e) => chk(out, false, &format!("octets_from_{}", tn), case, &format!("OctetsFrom panicked: {}", e)),
    }
    let flat = catch_mut(|| -> Result<Built, _> { parsed.clone().try_flatten_into() });
    match flat {
        Ok(Ok(f)) => {
            chk(out, compose_plain(&f).ok() == compose_plain(parsed).ok(), &format!("flatten_{}", tn), case, "flattened value composes differently");
            chk(out, f == *parsed, &format!("flatten_{}", tn), case, "flattened value != parsed value");
            chk(out, explode(&f) == explode(parsed), &format!("flatten_{}", tn), case, "flattened value has different fields");
        }
        Ok(Err(_)) => chk(out, false, &format!("flatten_{}", tn), case, "FlattenInto failed"),
        Err(e) => chk(out, false, &format!("flatten_{}", tn), case, &format!("FlattenInto panicked: {}", e)),
    }
}

fn compose_case(out: &mut Out, r: &mut Rng, t: u16, v: &[Val], kind: &str) {
    let tn = tname(t);
    let case = format!("compose {} {}", t, toks(v));
    out.begin(&case);
    let fs = fields_v(t, v);
    let total = vlen(&fs, v);
    let built = match catch_mut(|| build(t, v)) {
        Ok(Ok(b)) => b,
        Ok(Err(())) => { out.case(&case, "Reject", false, kind); return; }
        Err(e) => { out.case(&case, "Panic", true, kind); chk(out, false, &format!("ctor_panic_{}", tn), &case, &e); return; }
    };
    let wire = compose_plain(&built);
    let rl = catch_mut(|| built.rdlen(false));
    let rlc = catch_mut(|| built.rdlen(true));
    let canon = compose_canon(&built);
    let (wire, canon) = match (wire, canon) {
        (Ok(w), Ok(c)) => (w, c),
        _ => { out.case(&case, "Panic", true, kind); chk(out, false, &format!("compose_panic_{}", tn), &case, "compose panicked"); return; }
    };
    let obs = format!("{} {} {} {}", hex(&wire), show_rdlen(&rl), show_rdlen(&rlc), hex(&canon));
    out.case(&case, &obs, true, kind);

    // ---- property oracle
    if total > 65535 {
        // a value that cannot be RDATA was accepted by the constructor
        chk(out, false, &format!("ctor_long_{}", tn), &format!("compose {} (total {} octets)", t, total),
                  &format!("constructor accepted {} octets of RDATA; rdlen -> {}", wire.len(), show_rdlen(&rl)));
        return;
    }
    chk(out, rl == Ok(Some(wire.len() as u16)), &format!("rdlen_{}", tn), &case, &format!("rdlen {} but {} octets written", show_rdlen(&rl), wire.len()));
    match &rlc { Ok(Some(n)) => chk(out, *n as usize == wire.len(), &format!("rdlen_{}", tn), &case, "rdlen(true) differs from octets written"),
                 Ok(None) => {}, Err(_) => chk(out, false, &format!("rdlen_{}", tn), &case, "rdlen(true) panicked") }
    // parse back
    let short_rest = fs.iter().zip(v).any(|(f, x)| matches!((f, x), (F::Rest(m), Val::Bytes(b)) if b.len() < *m));
    match parse_at(t, &wire, 0, wire.len()) {
        Ok(Ok(p)) => {
            let ev = explode(&p);
            chk(out, ev.as_deref() == Some(v), &format!("roundtrip_{}", tn), &case, &format!("parsed back {}", ev.map(|e| toks(&e)).unwrap_or_default()));
            chk(out, p == built, &eq_class(&built, &tn), &case, "parsed value != built value (PartialEq)");
            chk(out, built == built, &eq_class(&built, &tn), &case, "value != itself (PartialEq)");
            if wire.len() < 5000 { conversions(out, &tn, &case, &built, &p, Some(v), &wire); }
        }
        Ok(Err(e)) => {
            let cls = if short_rest { format!("ctor_reparse_{}", tn) } else { format!("roundtrip_{}", tn) };
            chk(out, false, &cls, &case, &format!("composed RDATA does not parse: {}", perr(&e)));
        }
        Err(e) => chk(out, false, &format!("roundtrip_{}", tn), &case, &format!("parse panicked: {}", e)),
    }
    // canonical form: wire form of the value with the RFC-listed names lower-cased
    let lv = lower_names(t, v);
    let expect = match build(t, &lv) { Ok(b) => compose_plain(&b).unwrap_or_default(), Err(()) => vec![] };
    chk(out, canon == expect, &format!("canonical_{}", tn), &case, &format!("canonical {} expected {}", hex(&canon), hex(&expect)));
    if total < 5000 { equivalent_paths(out, &tn, &case, &built, &wire, &canon); }
    // through a message with a compressor
    if total < 60000 && !short_rest { message_path(out, r, t, Some(v), &built, &case); }
}

fn message_path(out: &mut Out, r: &mut Rng, t: u16, v: Option<&[Val]>, built: &Built, case: &str) {
    let tn = tname(t);
    let owner: DN = Name::from_octets(gen_name(r)).unwrap();
    let which = r.below(4);
    let res = catch_mut(|| -> Result<Vec<u8>, String> {
        macro_rules! go { ($target:expr, $fin:expr) => {{
            let mb = MessageBuilder::from_target($target).map_err(|_| "from_target".to_string())?;
            let mut q = mb.question();
            q.push((&owner, Rtype::from_int(t))).map_err(|_| "push q".to_string())?;
            let mut a = q.answer();
            a.push((&owner, Class::IN, Ttl::from_secs(300), built)).map_err(|_| "push".to_string())?;
            a.push((&owner, Class::IN, Ttl::from_secs(300), built)).map_err(|_| "push".to_string())?;
            Ok($fin(a.finish()))
        }}}
        match which {
            0 => go!(Vec::<u8>::new(), |x: Vec<u8>| x),
            1 => go!(StaticCompressor::new(Vec::<u8>::new()), |x: StaticCompressor<Vec<u8>>| x.into_target()),
            2 => go!(TreeCompressor::new(Vec::<u8>::new()), |x: TreeCompressor<Vec<u8>>| x.into_target()),
            _ => go!(HashCompressor::new(Vec::<u8>::new()), |x: HashCompressor<Vec<u8>>| x.into_target()),
        }
    });
    let bytes = match res {
        Ok(Ok(b)) => b,
        Ok(Err(_)) => return,   // did not fit / push refused: nothing to check
        Err(e) => { chk(out, false, &format!("compose_panic_{}", tn), case, &format!("message build panicked: {}", e)); return; }
    };
    let cls_r = format!("roundtrip_{}", tn);
    let mut eq_unknown = false;
    let r2 = catch_mut(|| -> Result<(), String> {
        let msg = Message::from_octets(&bytes[..]).map_err(|_| "short message".to_string())?;
        let ans = msg.answer().map_err(|e| format!("answer: {}", e))?;
        let mut n = 0;
        for rec in ans {
            let rec = rec.map_err(|e| format!("record: {}", e))?;
            let rr: Record<_, AllRecordData<_, ParsedName<_>>> = rec.into_any_record().map_err(|e| format!("rdata: {}", e))?;
            // name compression is case-insensitive: a compressed name takes the spelling of
            // the earlier occurrence, so names are compared up to ASCII case here
            let ev = explode(rr.data());
            if v.is_some() && ev.as_ref().map(|e| fold_names(e)) != v.map(fold_names) { return Err(format!("record {} parsed back {}", n, ev.map(|e| toks(&e)).unwrap_or_default())); }
            if rr.data() != built {
                if matches!(built, AllRecordData::Unknown(_) | AllRecordData::Opt(_)) { eq_unknown = true; } else { return Err("parsed value != built value (PartialEq)".into()); }
            }
            // accepted (possibly compressed) RDATA re-composes to octets that parse to an equal value
            let again = compose_plain(rr.data()).map_err(|e| format!("recompose panicked: {}", e))?;
            match parse_at(t, &again, 0, again.len()) {
                Ok(Ok(p)) => {
                    if explode(&p) != ev { return Err("recomposed RDATA parses to a different value".into()); }
                    let again2 = compose_plain(&p).map_err(|e| format!("recompose panicked: {}", e))?;
                    if again2 != again { return Err("recomposed RDATA is not a fixpoint".into()); }
                }
                _ => return Err("recomposed RDATA does not parse".into()),
            }
            let flat: Built = rr.data().clone().try_flatten_into().map_err(|_| "FlattenInto failed".to_string())?;
            if compose_plain(&flat).ok() != Some(again.clone()) || flat != *rr.data() { return Err("flatten: flattened (decompressed) value differs from the parsed one".into()); }
            let rl = rr.data().rdlen(false);
            if rl != Some(again.len() as u16) { return Err(format!("rdlen {:?} of parsed value but {} octets written", rl, again.len())); }
            n += 1;
        }
        if n != 2 { return Err(format!("{} records", n)); }
        Ok(())
    });
    if eq_unknown { chk(out, false, &eq_class(built, &tn), &format!("{} via message", case), "parsed value != built value (PartialEq)"); }
    match r2 { Ok(Ok(())) => chk(out, true, &cls_r, case, ""),
               Ok(Err(e)) => chk(out, false, &cls_r, &format!("{} via message (target {})", case, which), &e),
               Err(e) => chk(out, false, &cls_r, &format!("{} via message (target {})", case, which), &format!("panic: {}", e)) }
    // RDLENGTH written by compose_len_rdata == octets between the records
    let r3 = catch_mut(|| -> Result<(), String> {
        let msg = Message::from_octets(&bytes[..]).map_err(|_| "short".to_string())?;
        let mut p = Parser::from_ref(&bytes[..]);
        p.advance(12).map_err(|_| "hdr".to_string())?;
        let _ = msg;
        ParsedName::skip(&mut p).map_err(|_| "qname".to_string())?;
        p.advance(4).map_err(|_| "q".to_string())?;
        for _ in 0..2 {
            ParsedName::skip(&mut p).map_err(|_| "owner".to_string())?;
            p.advance(8).map_err(|_| "fixed".to_string())?;
            let rdlen = p.parse_u16_be().map_err(|_| "rdlen".to_string())? as usize;
            p.advance(rdlen).map_err(|_| format!("RDLENGTH {} runs past the message", rdlen))?;
        }
        if p.remaining() != 0 { return Err(format!("{} octets after the last record: RDLENGTH too small", p.remaining())); }
        Ok(())
    });
    match r3 { Ok(Ok(())) => chk(out, true, &format!("rdlen_{}", tn), case, ""),
               Ok(Err(e)) => chk(out, false, &format!("rdlen_{}", tn), &format!("{} via message (target {})", case, which), &e),
               Err(e) => chk(out, false, &format!("rdlen_{}", tn), case, &format!("panic: {}", e)) }
}

fn parse_case(out: &mut Out, t: u16, msg: &[u8], pos: usize, lim: usize, kind: &str) {
    let tn = tname(t);
    let case = format!("parse {} {} {} {}", t, hex(msg), pos, lim);
    out.begin(&case);
    let res = parse_at(t, msg, pos, lim);
    let (obs, nontrivial) = match &res {
        Ok(Ok(d)) => match explode(d) { Some(v) => (format!("Ok {}", toks(&v)).trim_end().to_string(), true), None => ("NoSchema".to_string(), false) },
        Ok(Err(e)) => (perr(e).to_string(), matches!(e, ParseError::Form(_))),
        Err(_) => ("Panic".to_string(), true),
    };
    out.case(&case, &obs, nontrivial, kind);
    match res {
        Err(e) => chk(out, false, &format!("parse_panic_{}", tn), &case, &e),
        Ok(Err(_)) => chk(out, true, &format!("recompose_{}", tn), &case, ""),
        Ok(Ok(d)) => {
            let v = explode(&d);
            let again = compose_plain(&d);
            match again {
                Err(e) => chk(out, false, &format!("recompose_{}", tn), &case, &format!("compose of accepted value panicked: {}", e)),
                Ok(w) => {
                    if w.len() > 65535 { chk(out, true, &format!("recompose_{}", tn), &case, ""); return; }
                    match parse_at(t, &w, 0, w.len()) {
                        Ok(Ok(p)) => { chk(out, explode(&p) == v, &format!("recompose_{}", tn), &case, "re-composed octets parse to a different value");
                                       let cls = match &d { AllRecordData::Unknown(_) | AllRecordData::Opt(_) => eq_class(&d, &tn), _ => format!("recompose_{}", tn) };
                                       chk(out, p == d, &cls, &case, "re-parsed value != accepted value (PartialEq)");
                                       let rl = catch_mut(|| d.rdlen(false));
                                       chk(out, rl == Ok(Some(w.len() as u16)), &format!("rdlen_{}", tn), &case, &format!("rdlen {} of accepted value but {} octets written", show_rdlen(&rl), w.len())); }
                        Ok(Err(e)) => chk(out, false, &format!("recompose_{}", tn), &case, &format!("re-composed octets do not parse: {}", perr(&e))),
                        Err(e) => chk(out, false, &format!("recompose_{}", tn), &case, &format!("panic: {}", e)),
                    }
                }
            }
        }
    }
}

fn equnk_case(out: &mut Out, t1: u16, b1: &[u8], t2: u16, b2: &[u8]) {
    let case = format!("equnk {} {} {} {}", t1, hex(b1), t2, hex(b2));
    out.begin(&case);
    let u1 = UnknownRecordData::from_octets(Rtype::from_int(t1), b1.to_vec()).unwrap();
    let u2 = UnknownRecordData::from_octets(Rtype::from_int(t2), b2.to_vec()).unwrap();
    let a1: Built = AllRecordData::Unknown(u1.clone());
    let a2: Built = AllRecordData::Unknown(u2.clone());
    let z1: ZoneRecordData<Vec<u8>, DN> = ZoneRecordData::Unknown(u1.clone());
    let z2: ZoneRecordData<Vec<u8>, DN> = ZoneRecordData::Unknown(u2.clone());
    let (ea, ez) = (a1 == a2, z1 == z2);
    out.case(&case, &format!("all={} zone={}", ea, ez), true, "equnk");
    let same = t1 == t2 && b1 == b2;
    chk(out, u1.eq(&u2) == same, "unknown_eq", &case, "UnknownRecordData ==");
    chk(out, ez == same, "zonerecorddata_eq_unknown", &case, "ZoneRecordData::Unknown ==");
    chk(out, ea == same, "allrecorddata_eq_unknown", &case, &format!("AllRecordData::Unknown == gives {} for {} data", ea, if same { "identical" } else { "different" }));
}

/// T2: the record pushed twice into a message whose owner / question names share suffixes with
/// the names of the value, on target 0 Vec, 1 Static, 2 Tree, 3 Hash compressor.  Observed:
/// rdlen(true); the RDATA of the second record read back and re-composed uncompressed; whether
/// every RDLENGTH matches the octets of its RDATA; for a type that cannot compress, whether
/// the RDATA octets in the message are the plain composition.
fn viamsg_case(out: &mut Out, r: &mut Rng, target: u64, t: u16, v: &[Val]) {
    let built = match catch_mut(|| build(t, v)) { Ok(Ok(b)) => b, _ => return };
    let plainw = match compose_plain(&built) { Ok(w) => w, Err(_) => return };
    if plainw.len() > 20000 { return; }
    // owner: a suffix or sibling of one of the names of the value, so compression has something to share
    let names: Vec<&Vec<u8>> = v.iter().filter_map(|x| if let Val::Name(w) = x { Some(w) } else { None }).collect();
    let owner_w: Vec<u8> = if names.is_empty() || r.chance(1, 4) { gen_name(r) } else {
        let w = *r.pick(&names);
        match r.below(3) {
            0 => w.clone(),
            1 => { let k = 1 + w[0] as usize; if w[0] == 0 { w.clone() } else { w[k..].to_vec() } }     // parent
            _ => { let mut o = vec![1u8, b'x']; o.extend_from_slice(w); if o.len() > 255 { w.clone() } else { o } }   // child
        }
    };
    let owner: DN = match Name::from_octets(owner_w) { Ok(n) => n, Err(_) => return };
    let res = catch_mut(|| -> Result<Vec<u8>, ()> {
        macro_rules! go { ($target:expr, $fin:expr) => {{
            let mb = MessageBuilder::from_target($target).map_err(|_| ())?;
            let mut q = mb.question();
            q.push((&owner, Rtype::from_int(t))).map_err(|_| ())?;
            let mut a = q.answer();
            a.push((&owner, Class::IN, Ttl::from_secs(300), &built)).map_err(|_| ())?;
            a.push((&owner, Class::IN, Ttl::from_secs(300), &built)).map_err(|_| ())?;
            Ok($fin(a.finish()))
        }}}
        match target {
            0 => go!(Vec::<u8>::new(), |x: Vec<u8>| x),
            1 => go!(StaticCompressor::new(Vec::<u8>::new()), |x: StaticCompressor<Vec<u8>>| x.into_target()),
            2 => go!(TreeCompressor::new(Vec::<u8>::new()), |x: TreeCompressor<Vec<u8>>| x.into_target()),
            _ => go!(HashCompressor::new(Vec::<u8>::new()), |x: HashCompressor<Vec<u8>>| x.into_target()),
        }
    });
    let bytes = match res { Ok(Ok(b)) => b, _ => return };
    let case = format!("viamsg {} {} {}", target, t, toks(v));
    out.begin(&case);
    let can_compress = target != 0;
    let rlc = catch_mut(|| built.rdlen(can_compress));
    let rlt = catch_mut(|| built.rdlen(true));
    // walk the two records
    let walk = catch_mut(|| -> Result<(bool, bool, Vec<u8>), String> {
        let mut p = Parser::from_ref(&bytes[..]);
        p.advance(12).map_err(|_| "hdr")?;
        ParsedName::skip(&mut p).map_err(|_| "qname")?;
        p.advance(4).map_err(|_| "q")?;
        let mut lens_ok = true; let mut all_plain = true; let mut back = vec![];
        for i in 0..2 {
            ParsedName::skip(&mut p).map_err(|_| "owner")?;
            p.advance(8).map_err(|_| "fixed")?;
            let rdlen = p.parse_u16_be().map_err(|_| "rdlen")? as usize;
            let start = p.pos();
            if p.remaining() < rdlen { lens_ok = false; break; }
            if bytes[start..start + rdlen] != plainw[..] { all_plain = false; }
            match parse_at(t, &bytes, start, start + rdlen) {
                Ok(Ok(d)) => { if i == 1 {
                    // names up to ASCII case (compression takes the spelling of the earlier occurrence)
                    let folded = explode(&d).map(|e| fold_names(&e)).ok_or("explode")?;
                    let fb = build(t, &folded).map_err(|_| "rebuild")?;
                    back = compose_plain(&fb).map_err(|_| "recompose")?; } }
                _ => { lens_ok = false; }
            }
            p.advance(rdlen).map_err(|_| "adv")?;
        }
        if p.remaining() != 0 { lens_ok = false; }
        Ok((lens_ok, all_plain, back))
    });
    let (lens_ok, all_plain, back) = match walk { Ok(Ok(x)) => x, _ => (false, false, vec![]) };
    let wire_col = match &rlt { Ok(Some(_)) => if all_plain { "plain" } else { "differs" }, _ => "any" };
    let obs = format!("rdlenc={} back={} rdlength={} wire={}", show_rdlen(&rlt), hex(&back), if lens_ok { "ok" } else { "BAD" }, wire_col);
    out.case(&case, &obs, true, "viamsg");
    let tn = tname(t);
    // rdlen(can_compress) is what compose_len_rdata uses on this target
    if let Ok(Some(n)) = rlc { chk(out, lens_ok && (!can_compress && n as usize == plainw.len() || can_compress), &format!("rdlen_{}", tn), &case, "advertised length on this target"); }
    chk(out, lens_ok, &format!("rdlen_{}", tn), &case, "RDLENGTH in the message does not match the RDATA octets");
}

/// T2: the provided length-prefixed methods, called through a reference
fn lenrdata_case(out: &mut Out, t: u16, v: &[Val]) {
    let built = match catch_mut(|| build(t, v)) { Ok(Ok(b)) => b, _ => return };
    let case = format!("lenrdata {} {}", t, toks(v));
    out.begin(&case);
    let r = catch_mut(|| { let rf: &Built = &built; let mut a: Vec<u8> = Vec::new(); rf.compose_len_rdata(&mut a).unwrap();
                           let mut b: Vec<u8> = Vec::new(); rf.compose_canonical_len_rdata(&mut b).unwrap(); (a, b) });
    match r { Ok((a, b)) => out.case(&case, &format!("{} {}", hex(&a), hex(&b)), true, "lenrdata"),
              Err(_) => out.case(&case, "Panic", true, "lenrdata") }
}

/// TxtBuilder: the alternative way to construct TXT data.  T2 `txtbuild` plus oracle
///   txtbuilder_text       the text of the built value is what was appended
///   txtbuilder_roundtrip  the built value composes to RDATA that parses to an equal value,
///                         is accepted by Txt::from_octets and equals build_from_slice of the text
fn txtbuild_case(out: &mut Out, ops: &[(char, Vec<u8>)], kind: &str) {
    use domain::rdata::rfc1035::TxtBuilder;
    let case = format!("txtbuild {}", if ops.is_empty() { ".".to_string() } else { ops.iter().map(|(k, d)| format!("{}:{}", k, hex(d))).collect::<Vec<_>>().join(" ") });
    out.begin(&case);
    let r = catch_mut(|| -> Result<Txt<Vec<u8>>, ()> {
        let mut b = TxtBuilder::<Vec<u8>>::new();
        for (k, d) in ops {
            match k { 's' => b.append_slice(d).map_err(|_| ())?,
                      'u' => { for x in d { b.append_u8(*x).map_err(|_| ())?; } }
                      _ => b.append_charstr(&CharStr::from_octets(d.clone()).map_err(|_| ())?).map_err(|_| ())? }
        }
        b.finish().map_err(|_| ())
    });
    let txt = match r {
        Ok(Ok(t)) => t,
        Ok(Err(())) => { out.case(&case, "Reject", false, kind); chk(out, false, "txtbuilder_roundtrip", &case, "builder refused text well below the size limit"); return; }
        Err(e) => { out.case(&case, "Panic", true, kind); chk(out, false, "txtbuilder_panic", &case, &e); return; }
    };
    let built: Built = AllRecordData::Txt(txt.clone());
    let wire = compose_plain(&built).unwrap_or_default();
    out.case(&case, &hex(&wire), true, kind);
    let text: Vec<u8> = ops.iter().flat_map(|(_, d)| d.clone()).collect();
    // structure of the octets, independent of the library's own iterator
    let mut strs: Vec<Vec<u8>> = vec![]; let mut i = 0; let mut framed = true;
    while i < wire.len() { let l = wire[i] as usize; if i + 1 + l > wire.len() { framed = false; break; } strs.push(wire[i + 1..i + 1 + l].to_vec()); i += 1 + l; }
    chk(out, framed && strs.concat() == text && !strs.is_empty(), "txtbuilder_text", &case,
        &format!("built RDATA {} does not frame the appended text", if wire.len() > 40 { format!("{}...", hex(&wire[..40])) } else { hex(&wire) }));
    chk(out, Txt::from_octets(wire.clone()).is_ok(), "txtbuilder_roundtrip", &case, "Txt::from_octets refuses the built RDATA");
    match parse_at(16, &wire, 0, wire.len()) {
        Ok(Ok(p)) => { chk(out, catch_mut(|| p == built).unwrap_or(false), "txtbuilder_roundtrip", &case, "parsed value != built value");
                       chk(out, explode(&p) == Some(vec![Val::Strs(strs.clone())]), "txtbuilder_roundtrip", &case, "parsed strings differ from the built octets"); }
        _ => chk(out, false, "txtbuilder_roundtrip", &case, "built RDATA does not parse"),
    }
    match catch_mut(|| txt.text::<Vec<u8>>()) {
        Ok(t) => chk(out, t == text, "txtbuilder_text", &case, "Txt::text() differs from the appended text"),
        Err(e) => chk(out, false, "txtbuilder_panic", &case, &format!("Txt::text() of the built value panicked: {}", e)),
    }
    if !ops.iter().any(|(k, _)| *k == 'c') && !text.is_empty() {
        match Txt::<Vec<u8>>::build_from_slice(&text) { Ok(t2) => { let same = catch_mut(|| t2 == txt).unwrap_or(false); chk(out, same, "txtbuilder_roundtrip", &case, "differs from build_from_slice of the same text") }
                                                        Err(_) => chk(out, false, "txtbuilder_roundtrip", &case, "build_from_slice refused the text") }
    }
}
fn txtbuild_cases(out: &mut Out, r: &mut Rng, n: u64) {
    let a = |k: usize| vec![b'a'; k];
    txtbuild_case(out, &[], "corpus");
    txtbuild_case(out, &[('u', a(255))], "corpus");
    txtbuild_case(out, &[('u', a(256))], "corpus");
    txtbuild_case(out, &[('u', a(257))], "corpus");
    txtbuild_case(out, &[('s', a(254)), ('u', vec![1, 2])], "corpus");
    txtbuild_case(out, &[('s', a(255)), ('u', vec![1])], "corpus");
    txtbuild_case(out, &[('s', a(300)), ('u', a(300)), ('s', a(211))], "corpus");
    txtbuild_case(out, &[('u', vec![1]), ('c', a(255)), ('u', a(255)), ('u', vec![2])], "corpus");
    for _ in 0..n {
        let k = 1 + r.below(5) as usize;
        let ops: Vec<(char, Vec<u8>)> = (0..k).map(|_| {
            let kind = *r.pick(&['s', 'u', 'u', 'c']);
            let len = match r.below(8) { 0 => 0usize, 1 => 254, 2 => 255, 3 => 256, 4 => 1, 5 => 510 + r.below(4) as usize, _ => r.below(300) as usize };
            let len = if kind == 'c' { len.min(255) } else { len };
            (kind, r.bytes(len))
        }).collect();
        txtbuild_case(out, &ops, "txtbuild");
    }
}

/// TxtBuilder at the RDATA size limit.  Text (fill octet `a`) is appended through every entry
/// point (s = append_slice, u = append_u8 per octet, c = append_charstr) so that the RDATA ends
/// 2, 1, 0 octets below and 1, 2 octets above 65535.  T2 `txtlim` plus oracle
///   txtbuilder_limit      the builder (and build_from_slice) never hands out TXT data of more
///                         than 65535 octets and does not refuse data that fits; what it hands
///                         out has an exact rdlen / compose_len_rdata and parses back equal
/// The expected size is computed here from the lengths alone (one length octet per started
/// string of at most 255 octets), independently of the library.
fn txtlim_step(st: (usize, Option<usize>), op: (char, usize)) -> (usize, Option<usize>) {
    let (mut size, mut open) = st;
    match op.0 {
        'c' => (size + 1 + op.1, None),
        _ => { for _ in 0..op.1 { match open { Some(o) if o < 255 => { size += 1; open = Some(o + 1) } _ => { size += 2; open = Some(1) } } } (size, open) }
    }
}
fn txtlim_case(out: &mut Out, ops: &[(char, usize)], kind: &str) {
    use domain::rdata::rfc1035::TxtBuilder;
    const MAX: usize = 65535;
    let case = format!("txtlim {}", ops.iter().map(|(k, l)| format!("{}:{}", k, l)).collect::<Vec<_>>().join(" "));
    out.begin(&case);
    let expect = ops.iter().fold((0usize, None), |st, op| txtlim_step(st, *op)).0.max(1);
    let r = catch_mut(|| -> Result<Txt<Vec<u8>>, ()> {
        let mut b = TxtBuilder::<Vec<u8>>::new();
        for (k, l) in ops {
            let d = vec![b'a'; *l];
            match k { 's' => b.append_slice(&d).map_err(|_| ())?,
                      'u' => { for x in &d { b.append_u8(*x).map_err(|_| ())?; } }
                      _ => b.append_charstr(&CharStr::from_octets(d).map_err(|_| ())?).map_err(|_| ())? }
        }
        b.finish().map_err(|_| ())
    });
    if !ops.iter().any(|(k, _)| *k == 'c') {
        let text = vec![b'a'; ops.iter().map(|(_, l)| *l).sum()];
        match catch_mut(|| Txt::<Vec<u8>>::build_from_slice(&text).map(|t| t.len()).map_err(|_| ())) {
            Ok(Ok(n)) => chk(out, n <= MAX && n == expect, "txtbuilder_limit", &case, &format!("build_from_slice handed out {} octets of TXT RDATA (expected {}, limit 65535)", n, expect)),
            Ok(Err(())) => chk(out, expect > MAX, "txtbuilder_limit", &case, &format!("build_from_slice refused text that makes {} octets of RDATA", expect)),
            Err(e) => chk(out, false, "txtbuilder_panic", &case, &e),
        }
    }
    let txt = match r {
        Ok(Ok(t)) => t,
        Ok(Err(())) => { out.case(&case, "Reject", expect > MAX, kind);
                         chk(out, expect > MAX, "txtbuilder_limit", &case, &format!("builder refused text that makes {} octets of RDATA", expect)); return; }
        Err(e) => { out.case(&case, "Panic", true, kind); chk(out, false, "txtbuilder_panic", &case, &e); return; }
    };
    let built: Built = AllRecordData::Txt(txt.clone());
    let wire = compose_plain(&built).unwrap_or_default();
    let mut lens: Vec<usize> = vec![]; let mut i = 0;
    while i < wire.len() { let l = wire[i] as usize; lens.push(l.min(wire.len() - i - 1)); i += 1 + l; }
    out.case(&case, &format!("Ok {} {} {}", wire.len(), lens.len(), lens.last().copied().unwrap_or(0)), true, kind);
    chk(out, wire.len() <= MAX, "txtbuilder_limit", &case, &format!("builder accepted TXT RDATA of {} octets (limit is 65535)", wire.len()));
    chk(out, wire.len() == expect && i == wire.len(), "txtbuilder_text", &case, &format!("built RDATA has {} octets, the appended text makes {}", wire.len(), expect));
    match catch_mut(|| txt.rdlen(false)) {
        Ok(l) => chk(out, l.map(usize::from) == Some(wire.len()), "txtbuilder_limit", &case, &format!("rdlen {:?} for {} octets written", l, wire.len())),
        Err(e) => chk(out, false, "txtbuilder_limit", &case, &format!("rdlen of the built value panicked: {}", e)),
    }
    match catch_mut(|| { let mut t: Vec<u8> = Vec::new(); txt.compose_len_rdata(&mut t).map(|_| t).map_err(|_| ()) }) {
        Ok(Ok(t)) => { chk(out, t.len() == 2 + wire.len() && t.len() >= 2 && usize::from(u16::from_be_bytes([t[0], t[1]])) == wire.len() && t[2..] == wire[..],
                           "txtbuilder_limit", &case, "compose_len_rdata: advertised length differs from the octets written");
                       if wire.len() <= MAX { match parse_at(16, &wire, 0, wire.len()) {
                           Ok(Ok(p)) => chk(out, catch_mut(|| p == built).unwrap_or(false), "txtbuilder_roundtrip", &case, "parsed value != built value"),
                           _ => chk(out, false, "txtbuilder_roundtrip", &case, "built RDATA does not parse") } } }
        Ok(Err(())) => chk(out, false, "txtbuilder_limit", &case, "compose_len_rdata refused the built value"),
        Err(e) => chk(out, false, "txtbuilder_limit", &case, &format!("compose_len_rdata of the built value panicked: {}", e)),
    }
}
fn txtlim_cases(out: &mut Out, r: &mut Rng, n: u64) {
    const MAX: usize = 65535;
    let mut prefixes: Vec<(Vec<(char, usize)>, &str)> = vec![
        (vec![('c', 255); 255], "corpus"),
        (vec![('s', 65025)], "corpus"),
        (vec![('s', 65000)], "corpus"),
        (vec![('u', 300), ('c', 0), ('s', 64500)], "corpus"),
        (vec![('s', 1)], "corpus"),
        (vec![], "corpus"),
    ];
    for _ in 0..(n / 50).min(12) {
        let mut p: Vec<(char, usize)> = (0..r.below(60)).map(|_| ('c', *r.pick(&[255usize, 255, 254, 0, 1, 100]))).collect();
        let used = p.iter().fold((0usize, None), |st, op| txtlim_step(st, *op)).0;
        let rest = (MAX - used) * 255 / 256;
        p.push((*r.pick(&['s', 's', 's', 'u']), rest - (r.below(700) as usize).min(rest)));
        if r.below(2) == 0 { p.push(('c', r.below(40) as usize)); }
        prefixes.push((p, "txtlim"));
    }
    for (p, kind) in &prefixes {
        let st = p.iter().fold((0usize, None), |st, op| txtlim_step(st, *op));
        for k in ['s', 'u', 'c'] {
            if k == 'u' && st.0 + 2000 < MAX { continue; }   // bulk octet by octet: the u prefixes
            for target in MAX - 2..=MAX + 2 {
                // the shortest last piece that brings the RDATA to `target` octets, if there is one
                let top = if k == 'c' { 255 } else { MAX + 300 };
                let mut l = if k == 'c' || st.0 + 1024 > target { 0 } else { (target - st.0 - 1024) * 255 / 256 };
                while l <= top && txtlim_step(st, (k, l)).0 < target { l += 1; }
                if l > top || txtlim_step(st, (k, l)).0 != target { continue; }
                let mut ops = p.clone(); ops.push((k, l));
                txtlim_case(out, &ops, kind);
            }
        }
    }
}

/// parse cases derived from one value
fn parse_cases_for(out: &mut Out, r: &mut Rng, t: u16, v: &[Val]) {
    let fs = fields_v(t, v);
    let compress = r.chance(2, 3);
    let k0 = r.below(6) as usize;
    let mut prefix = r.bytes(k0);
    let mut ptr_used = false;
    let rd = encode(&fs, v, &mut prefix, r, compress, &mut ptr_used);
    if rd.len() > 5000 { return; }
    let mut msg = prefix.clone();
    let pos = msg.len();
    msg.extend_from_slice(&rd);
    let lim = msg.len();
    let k1 = r.below(4) as usize;
    let tail = r.bytes(k1);
    msg.extend_from_slice(&tail);
    parse_case(out, t, &msg, pos, lim, if compress { "parse_compressed" } else { "parse_plain" });
    if t == 45 && ptr_used {
        // RFC 4025 2.5: the gateway name MUST NOT be compressed; Ipseckey::parse means to refuse it
        let accepted = matches!(parse_at(t, &msg, pos, lim), Ok(Ok(_)));
        chk(out, !accepted, "ipseckey_compressed_gateway", &format!("parse {} {} {} {}", t, hex(&msg), pos, lim),
            "IPSECKEY RDATA whose gateway name is (or ends in) a compression pointer was accepted");
    }
    match r.below(8) {
        0 if lim > pos => { let k = 1 + r.below((lim - pos).min(6) as u64) as usize; parse_case(out, t, &msg, pos, lim - k, "parse_truncated"); }
        1 if lim < msg.len() => parse_case(out, t, &msg, pos, msg.len(), "parse_trailing"),
        2 if lim > pos => { let mut m = msg.clone(); let i = pos + r.below((lim - pos) as u64) as usize; m[i] ^= 1 << r.below(8); parse_case(out, t, &m, pos, lim, "parse_bitflip"); }
        3 if lim > pos => { let mut m = msg.clone(); let i = pos + r.below((lim - pos) as u64) as usize; m[i] = *r.pick(&[0xc0u8, 0xc1, 0xff, 0x40, 0x80, 0x00, 0x3f]); parse_case(out, t, &m, pos, lim, "parse_bytemut"); }
        4 => { let n = r.below(24) as usize; let m = r.bytes(n); let p = r.below(n as u64 + 1) as usize; parse_case(out, t, &m, p, n, "parse_random"); }
        5 if pos > 0 => parse_case(out, t, &msg, pos - 1, lim, "parse_shifted"),
        _ => {}
    }
}

fn boundary_cases(out: &mut Out, r: &mut Rng, t: u16) {
    // largest value that fits, one more than fits
    for total in [65535usize, 65536] {
        let mut v = gen_value(r, t, false);
        // keep the other variable parts small
        if !fit_total(r, t, &mut v, total) { return; }
        if vlen(&fields_v(t, &v), &v) != total { continue; }
        compose_case(out, r, t, &v, if total == 65535 { "compose_max" } else { "compose_overlong" });
    }
}

// ---------------------------------------------------------------- oracle-only types
mod irregular {
    //! Types without a schema row: NSEC, NSEC3, IPSECKEY, SVCB, HTTPS, OPT.  Oracle only.
    use super::*;
    use domain::base::iana::{IpseckeyAlgorithm, SvcParamKey};
    use domain::base::opt::Opt;
    use domain::rdata::dnssec::RtypeBitmap;
    use domain::rdata::ipseckey::IpseckeyGateway;
    use domain::rdata::nsec3::{Nsec3Salt, OwnerHash};
    use domain::rdata::svcb::{SvcParams, UnknownSvcParam};

    fn bitmap(r: &mut Rng) -> (RtypeBitmap<Vec<u8>>, String) {
        let mut b = RtypeBitmap::<Vec<u8>>::builder();
        let n = match r.below(6) { 0 => 0, 1 => 1, 2 => 60, _ => r.below(8) };
        let mut ts = vec![];
        for _ in 0..n {
            let t = match r.below(6) { 0 => *r.pick(&[0u16, 1, 7, 8, 255, 256, 257, 0x7fff, 0x8000, 0xff00, 0xffff]), 1 => r.u16(), _ => r.below(70) as u16 };
            b.add(Rtype::from_int(t)).unwrap(); ts.push(t.to_string());
        }
        (b.finalize(), ts.join(","))
    }
    fn sized(r: &mut Rng, big: usize) -> Vec<u8> { let n = match r.below(6) { 0 => 0, 1 => big, 2 => 1, _ => r.below(40) as usize }; r.bytes(n.min(big)) }

    fn gen(r: &mut Rng, t: u16) -> Option<(Built, String)> {
        Some(match t {
            47 => { let n = gen_name(r); let (bm, d) = bitmap(r);
                    (AllRecordData::Nsec(Nsec::new(Name::from_octets(n.clone()).unwrap(), bm)), format!("{} types={}", hex(&n), d)) }
            50 => { let salt = sized(r, 255); let oh = sized(r, 255); let (bm, d) = bitmap(r);
                    let (a, f, i) = (r.u8(), r.u8(), r.u16());
                    (AllRecordData::Nsec3(Nsec3::new(Nsec3HashAlgorithm::from_int(a), f, i, Nsec3Salt::from_octets(salt.clone()).unwrap(),
                        OwnerHash::from_octets(oh.clone()).unwrap(), bm)), format!("{} {} {} {} {} types={}", a, f, i, hex(&salt), hex(&oh), d)) }
            45 => { let alg = r.below(4) as u8; let prec = r.u8();
                    let klen = if alg == 0 && r.chance(1, 2) { 0 } else { 1 + r.below(40) as usize };
                    let key = r.bytes(klen);
                    let (gw, d): (IpseckeyGateway<DN>, String) = match r.below(4) {
                        0 => (IpseckeyGateway::None, "none".into()),
                        1 => { let b = r.bytes(4); (IpseckeyGateway::Ipv4(A::new(Ipv4Addr::new(b[0], b[1], b[2], b[3]))), format!("v4:{}", hex(&b))) }
                        2 => { let b = r.bytes(16); let mut a = [0u8; 16]; a.copy_from_slice(&b); (IpseckeyGateway::Ipv6(Aaaa::new(Ipv6Addr::from(a))), format!("v6:{}", hex(&b))) }
                        _ => { let n = gen_name(r); (IpseckeyGateway::Name(Name::from_octets(n.clone()).unwrap()), format!("name:{}", hex(&n))) }
                    };
                    (AllRecordData::Ipseckey(Ipseckey::new(prec, IpseckeyAlgorithm::from_int(alg), gw, key.clone())), format!("{} {} {} {}", prec, alg, d, hex(&key))) }
            64 | 65 => {
                let prio = match r.below(3) { 0 => 0, 1 => 1, _ => r.u16() };
                let n = gen_name(r);
                let mut keys: Vec<u16> = vec![];
                let cnt = match r.below(5) { 0 => 0, 1 => 12, _ => r.below(4) };
                for _ in 0..cnt { let k = match r.below(3) { 0 => r.below(9) as u16, 1 => *r.pick(&[7u16, 8, 65280, 65534, 65535, 100]), _ => r.u16() }; if !keys.contains(&k) && k != 0 { keys.push(k); } }
                let vals: Vec<(u16, Vec<u8>)> = keys.iter().map(|k| (*k, sized(r, 300))).collect();
                let params = SvcParams::<Vec<u8>>::from_values(|b| {
                    for (k, v) in &vals { b.push(&UnknownSvcParam::new(SvcParamKey::from_int(*k), v.clone()).unwrap())?; }
                    Ok(())
                }).ok()?;
                let d = format!("{} {} {}", prio, hex(&n), vals.iter().map(|(k, v)| format!("{}={}", k, hex(v))).collect::<Vec<_>>().join(","));
                let name: DN = Name::from_octets(n).unwrap();
                if t == 64 { (AllRecordData::Svcb(Svcb::new(prio, name, params).ok()?), d) } else { (AllRecordData::Https(Https::new(prio, name, params).ok()?), d) }
            }
            41 => {
                let mut raw = vec![];
                let cnt = match r.below(4) { 0 => 0, _ => r.below(5) };
                let mut d = vec![];
                for _ in 0..cnt {
                    let code = match r.below(3) { 0 => r.below(20) as u16, 1 => *r.pick(&[3u16, 8, 10, 11, 12, 15, 65001, 65535]), _ => r.u16() };
                    let data = sized(r, 600);
                    raw.extend_from_slice(&code.to_be_bytes()); raw.extend_from_slice(&(data.len() as u16).to_be_bytes()); raw.extend_from_slice(&data);
                    d.push(format!("{}={}", code, hex(&data)));
                }
                (AllRecordData::Opt(Opt::from_octets(raw).ok()?), d.join(","))
            }
            _ => return None,
        })
    }

    pub fn generic_case(out: &mut Out, r: &mut Rng, t: u16, built: &Built, desc: &str, kind: &str) {
        let tn = tname(t);
        let case = format!("oracle {} {}", tn, desc);
        out.begin(&case);
        out.oracle_case(&case, true, kind);
        let (wire, canon) = match (compose_plain(built), compose_canon(built)) {
            (Ok(w), Ok(c)) => (w, c),
            _ => { chk(out, false, &format!("compose_panic_{}", tn), &case, "compose panicked"); return; }
        };
        if wire.len() > 65535 { chk(out, false, &format!("ctor_long_{}", tn), &case, "constructor accepted more than 65535 octets"); return; }
        let rl = catch_mut(|| built.rdlen(false));
        chk(out, rl == Ok(Some(wire.len() as u16)), &format!("rdlen_{}", tn), &case, &format!("rdlen {} but {} octets written", show_rdlen(&rl), wire.len()));
        let rlc = catch_mut(|| built.rdlen(true));
        chk(out, rlc == Ok(Some(wire.len() as u16)), &format!("rdlen_{}", tn), &case, "rdlen(true) differs");
        if wire.len() < 5000 { equivalent_paths(out, &tn, &case, built, &wire, &canon); }
        // none of these types is in the RFC 4034 6.2 / RFC 6840 5.1 list
        chk(out, canon == wire, &format!("canonical_{}", tn), &case, &format!("canonical {} differs from wire {}", hex(&canon), hex(&wire)));
        match parse_at(t, &wire, 0, wire.len()) {
            Ok(Ok(p)) => {
                chk(out, p == *built, &eq_class(built, &tn), &case, "parsed value != built value (PartialEq)");
                chk(out, *built == *built, &eq_class(built, &tn), &case, "value != itself (PartialEq)");
                let again = compose_plain(&p).unwrap_or_default();
                chk(out, again == wire, &format!("recompose_{}", tn), &case, &format!("parsed value composes to {} instead of {}", hex(&again), hex(&wire)));
                if wire.len() < 5000 { conversions(out, &tn, &case, built, &p, None, &wire); }
                let rl2 = catch_mut(|| p.rdlen(false));
                chk(out, rl2 == Ok(Some(wire.len() as u16)), &format!("rdlen_{}", tn), &case, "rdlen of parsed value");
            }
            Ok(Err(e)) => chk(out, false, &format!("roundtrip_{}", tn), &case, &format!("composed RDATA does not parse: {} ({})", perr(&e), hex(&wire))),
            Err(e) => chk(out, false, &format!("roundtrip_{}", tn), &case, &format!("parse panicked: {}", e)),
        }
        if wire.len() < 60000 { message_path(out, r, t, None, built, &case); }
    }

    pub fn run(out: &mut Out, r: &mut Rng, n: u64) {
        for &t in &[47u16, 50, 45, 64, 65, 41] {
            for _ in 0..n {
                if let Some((b, d)) = gen(r, t) { generic_case(out, r, t, &b, &d, &format!("oracle_{}", tname(t))); }
            }
        }
        // a key-less IPSECKEY with a key algorithm: accepted by new(), refused by parse
        let b: Built = AllRecordData::Ipseckey(Ipseckey::new(10, IpseckeyAlgorithm::from_int(2), IpseckeyGateway::None, vec![]));
        let case = "oracle IPSECKEY 10 2 none -";
        out.oracle_case(case, true, "corpus");
        let w = compose_plain(&b).unwrap_or_default();
        match parse_at(45, &w, 0, w.len()) {
            Ok(Ok(_)) => chk(out, true, "ctor_reparse_IPSECKEY", case, ""),
            Ok(Err(e)) => chk(out, false, "ctor_reparse_IPSECKEY", case, &format!("composed RDATA {} does not parse: {}", hex(&w), perr(&e))),
            Err(e) => chk(out, false, "parse_panic_IPSECKEY", case, &e),
        }
    }
}

mod edns {
    //! Every EDNS option type of src/base/opt.  Arbitrary option octets are parsed
    //! first (so odd-but-accepted contents are reached), what parses is re-composed:
    //!   opt_len_<OPTION>        compose_len() == octets written by compose_option()
    //!   opt_roundtrip_<OPTION>  composed option parses to an equal option; OPT data built
    //!                           from several options (Opt::push, OptBuilder in a message)
    //!                           iterates as the same option list
    use super::*;
    use domain::base::iana::{ExtendedErrorCode, OptionCode};
    use domain::base::opt::{
        AllOptData, Chain, ClientSubnet, ComposeOptData, Cookie, Dau, Dhu, Expire, ExtendedError, KeyTag, N3u, Nsid,
        Opt, OptData, Padding, TcpKeepalive, UnknownOptData,
    };
    use domain::base::opt::cookie::{ClientCookie, ServerCookie};
    use domain::base::opt::keepalive::IdleTimeout;
    use std::net::IpAddr;

    type AO<'a> = AllOptData<&'a [u8], Name<&'a [u8]>>;

    pub fn oname<O, N>(o: &AllOptData<O, N>) -> &'static str {
        match o {
            AllOptData::Nsid(_) => "NSID", AllOptData::Dau(_) => "DAU", AllOptData::Dhu(_) => "DHU", AllOptData::N3u(_) => "N3U",
            AllOptData::ClientSubnet(_) => "SUBNET", AllOptData::Expire(_) => "EXPIRE", AllOptData::Cookie(_) => "COOKIE",
            AllOptData::TcpKeepalive(_) => "KEEPALIVE", AllOptData::Padding(_) => "PADDING", AllOptData::Chain(_) => "CHAIN",
            AllOptData::KeyTag(_) => "KEYTAG", AllOptData::ExtendedError(_) => "EXTERR", AllOptData::Other(_) => "UNKNOWN",
            _ => "OTHER",
        }
    }
    fn cname(code: u16) -> &'static str {
        match code { 3 => "NSID", 5 => "DAU", 6 => "DHU", 7 => "N3U", 8 => "SUBNET", 9 => "EXPIRE", 10 => "COOKIE", 11 => "KEEPALIVE",
                     12 => "PADDING", 13 => "CHAIN", 14 => "KEYTAG", 15 => "EXTERR", _ => "UNKNOWN" }
    }
    const CODES: [u16; 17] = [3, 5, 6, 7, 8, 9, 10, 11, 12, 13, 14, 15, 0, 1, 16, 4711, 65535];

    fn frame(code: u16, data: &[u8]) -> Vec<u8> {
        let mut raw = code.to_be_bytes().to_vec();
        raw.extend_from_slice(&(data.len() as u16).to_be_bytes());
        raw.extend_from_slice(data);
        raw
    }
    fn written<T: ComposeOptData + ?Sized>(o: &T) -> Result<(u16, Vec<u8>), String> {
        catch_mut(|| { let l = o.compose_len(); let mut w: Vec<u8> = Vec::new(); o.compose_option(&mut w).unwrap(); (l, w) })
    }
    /// equality of two parsed options: the type's own == where it has one, the
    /// composed octets otherwise; the variant must agree in any case
    fn same(a: &AO, b: &AO) -> bool {
        let bytes = || written(a).ok().map(|x| x.1) == written(b).ok().map(|x| x.1);
        match (a, b) {
            (AllOptData::Nsid(x), AllOptData::Nsid(y)) => x == y,
            (AllOptData::Dau(x), AllOptData::Dau(y)) => x == y,
            (AllOptData::Dhu(x), AllOptData::Dhu(y)) => x == y,
            (AllOptData::N3u(x), AllOptData::N3u(y)) => x == y,
            (AllOptData::ClientSubnet(x), AllOptData::ClientSubnet(y)) => x == y,
            (AllOptData::Expire(x), AllOptData::Expire(y)) => x == y,
            (AllOptData::Cookie(x), AllOptData::Cookie(y)) => x == y,
            (AllOptData::TcpKeepalive(x), AllOptData::TcpKeepalive(y)) => x == y,
            (AllOptData::Padding(_), AllOptData::Padding(_)) => bytes(),
            (AllOptData::Chain(x), AllOptData::Chain(y)) => x == y && bytes(),
            (AllOptData::KeyTag(x), AllOptData::KeyTag(y)) => x == y,
            (AllOptData::ExtendedError(x), AllOptData::ExtendedError(y)) => x == y && bytes(),
            (AllOptData::Other(x), AllOptData::Other(y)) => x.code() == y.code() && x.as_slice() == y.as_slice(),
            _ => false,
        }
    }
    /// parse one framed option the way Opt::iter does
    fn parse_one<'a>(raw: &'a [u8]) -> Result<Option<Result<AO<'a>, ParseError>>, String> {
        catch_mut(|| {
            let opt = match Opt::from_octets(raw) { Ok(o) => o, Err(e) => return Some(Err(e)) };
            let mut it = opt.iter::<AO<'a>>();
            let first = it.next();
            match first { Some(Ok(o)) => { if it.next().is_some() { Some(Err(ParseError::form_error("second option"))) } else { Some(Ok(o)) } }, other => other }
        })
    }

    fn utf8ish(r: &mut Rng) -> Vec<u8> {
        match r.below(12) {
            0 => vec![],
            1 => b"plain ascii text".to_vec(),
            2 => "caf\u{e9} \u{20ac} \u{1f600}".as_bytes().to_vec(),     // valid multi-byte
            3 => b"caf\xe9".to_vec(),                                        // Latin-1: invalid UTF-8
            4 => vec![0x80],                                                 // lone continuation
            5 => vec![b'a', 0xe2, 0x82],                                     // truncated sequence
            6 => vec![0xc0, 0xaf],                                           // overlong
            7 => vec![0xed, 0xa0, 0x80],                                     // surrogate
            8 => vec![0xf4, 0x90, 0x80, 0x80, b'x'],                         // above U+10FFFF
            9 => vec![0],
            10 => { let n = 200 + r.below(400) as usize; (0..n).map(|_| b'a' + r.below(26) as u8).collect() }
            _ => { let n = r.below(12) as usize; r.bytes(n) }
        }
    }
    fn gen_data(r: &mut Rng, code: u16) -> Vec<u8> {
        let odd = r.chance(1, 6);
        match code {
            5 | 6 | 7 | 14 => { let n = 2 * match r.below(5) { 0 => 0, 1 => 1, 2 => 300, _ => r.below(8) as usize } + odd as usize; r.bytes(n) }
            8 => {
                let fam = if r.chance(1, 10) { *r.pick(&[0u16, 3, 256]) } else { 1 + r.below(2) as u16 };
                let max = if fam == 1 { 32 } else { 128 };
                let src = match r.below(4) { 0 => *r.pick(&[0u8, 1, 7, 8, 9, 24, 31, 32, 33, 64, 127, 128, 129, 255]), 1 => max, _ => r.below(max as u64 + 1) as u8 };
                let scope = match r.below(3) { 0 => 0, 1 => r.u8(), _ => src };
                let nb = (src as usize + 7) / 8;
                let alen = if odd { let k = r.below(2) as usize; nb + 1 - 2 * k.min(nb) } else { nb };
                let mut a = r.bytes(alen);
                if !a.is_empty() && src % 8 != 0 && !r.chance(1, 8) { let k = a.len() - 1; a[k] &= 0xffu8 << (8 - src % 8); }
                let mut d = fam.to_be_bytes().to_vec(); d.push(src); d.push(scope); d.extend_from_slice(&a); d
            }
            9 => { let n = if odd { *r.pick(&[1usize, 3, 5, 8]) } else { 4 * r.below(2) as usize }; r.bytes(n) }
            10 => { let n = if odd { *r.pick(&[0usize, 7, 9, 15, 41, 48]) } else { *r.pick(&[8usize, 16, 17, 24, 32, 40]) }; r.bytes(n) }
            11 => { let n = if odd { *r.pick(&[1usize, 3, 4]) } else { 2 * r.below(2) as usize }; r.bytes(n) }
            13 => { let mut n = gen_name(r); if odd { match r.below(3) { 0 => n.push(0), 1 => { n.pop(); n.extend_from_slice(&[0xc0, 0]); } _ => { n.pop(); } } } n }
            15 => { if odd && r.chance(1, 2) { let n = r.below(2) as usize; r.bytes(n) } else {
                        let c = match r.below(3) { 0 => r.below(30) as u16, 1 => 0xffff, _ => r.u16() };
                        let mut d = c.to_be_bytes().to_vec(); d.extend_from_slice(&utf8ish(r)); d } }
            _ => { let n = match r.below(8) { 0 => 0, 1 => 1, 2 => 600, 3 => 4000, _ => r.below(40) as usize }; r.bytes(n) }
        }
    }

    /// the option taken apart with its accessors (fields as in the Coq option table)
    fn opt_explode(o: &AO) -> Vec<Val> {
        let comp = |o: &AO| Val::Bytes(written(o).map(|x| x.1).unwrap_or_default());
        match o {
            AllOptData::Nsid(x) => vec![Val::Bytes(x.as_slice().to_vec())],
            AllOptData::Dau(x) => vec![Val::Bytes(x.as_slice().to_vec())],
            AllOptData::Dhu(x) => vec![Val::Bytes(x.as_slice().to_vec())],
            AllOptData::N3u(x) => vec![Val::Bytes(x.as_slice().to_vec())],
            AllOptData::KeyTag(x) => vec![Val::Bytes(x.as_slice().to_vec())],
            AllOptData::Padding(x) => vec![Val::Bytes(x.as_slice().to_vec())],
            AllOptData::Other(x) => vec![Val::Bytes(x.as_slice().to_vec())],
            AllOptData::Chain(x) => vec![nv(x.start())],
            AllOptData::ExtendedError(x) => vec![Val::Num(x.code().to_int() as u64), Val::Bytes(x.text_slice().unwrap_or(&[]).to_vec())],
            AllOptData::ClientSubnet(x) => {
                let pb = (x.source_prefix_len() as usize + 7) / 8;
                let (fam, oct) = match x.addr() { IpAddr::V4(a) => (1u64, a.octets().to_vec()), IpAddr::V6(a) => (2, a.octets().to_vec()) };
                vec![Val::Num(fam), Val::Num(x.source_prefix_len() as u64), Val::Num(x.scope_prefix_len() as u64), Val::Bytes(oct[..pb.min(oct.len())].to_vec())]
            }
            other => vec![comp(other)],     // Expire, TcpKeepalive, Cookie: their octets
        }
    }
    /// T2: the contents of one option
    pub fn optdata_case(out: &mut Out, code: u16, data: &[u8], kind: &str) {
        let case = format!("optdata {} {}", code, hex(data));
        out.begin(&case);
        let raw = frame(code, data);
        let res = parse_one(&raw);
        let (obs, nt) = match &res {
            Ok(Some(Ok(o))) => (format!("Ok {}", toks(&opt_explode(o))), true),
            Ok(Some(Err(e))) => (perr(e).to_string(), matches!(e, ParseError::Form(_))),
            Ok(None) => ("None".to_string(), false),
            Err(_) => ("Panic".to_string(), true),
        };
        out.case(&case, &obs, nt, kind);
    }

    /// T2 + oracle: the typed view of a server cookie (StandardServerCookie)
    pub fn stdcookie_case(out: &mut Out, server: &[u8], kind: &str) {
        use domain::base::opt::cookie::StandardServerCookie;
        let case = format!("stdcookie {}", hex(server));
        out.begin(&case);
        if server.len() < 8 || server.len() > 32 { return; }       // ServerCookie::from_octets asserts 8..=32
        let sc = ServerCookie::from_octets(server);
        let std = sc.try_to_standard();
        let obs = match std {
            Some(s) => format!("Some {} {} {} {}", s.version(), hex(&s.reserved()), s.timestamp().into_int(), hex(&s.hash())),
            None => "None".to_string(),
        };
        out.case(&case, &obs, std.is_some(), kind);
        chk(out, std.is_some() == (server.len() == 16), "opt_roundtrip_COOKIE", &case, "try_to_standard must succeed exactly on 16 octets");
        if let Some(s) = std {
            let back = StandardServerCookie::new(s.version(), s.reserved(), s.timestamp(), s.hash());
            let sc2: ServerCookie = back.into();
            let mut w: Vec<u8> = Vec::new(); sc2.compose(&mut w).unwrap();
            chk(out, w == server, "opt_roundtrip_COOKIE", &case, &format!("StandardServerCookie rebuilt from its fields composes to {}", hex(&w)));
        }
    }

    /// one option: (code, data) -> accepted?
    pub fn option_case(out: &mut Out, code: u16, data: &[u8], must_parse: bool, kind: &str) -> bool {
        let case = format!("edns {} {}", code, hex(data));
        out.begin(&case);
        out.oracle_case(&case, true, kind);
        let raw = frame(code, data);
        let o = match parse_one(&raw) {
            Err(e) => { chk(out, false, &format!("opt_panic_{}", cname(code)), &case, &e); return false; }
            Ok(Some(Ok(o))) => o,
            Ok(_) => { if must_parse { chk(out, false, &format!("opt_roundtrip_{}", cname(code)), &case, "option built by the constructor does not parse"); } return false; }
        };
        let on = oname(&o);
        chk(out, u16::from(o.code().to_int()) == code && on == cname(code), &format!("opt_roundtrip_{}", on), &case, "option parsed as a different kind");
        let (l, w) = match written(&o) { Ok(x) => x, Err(e) => { chk(out, false, &format!("opt_panic_{}", on), &case, &e); return false; } };
        chk(out, l as usize == w.len(), &format!("opt_len_{}", on), &case, &format!("compose_len {} but compose_option wrote {} octets", l, w.len()));
        // re-compose what parsed: parses to an equal option, and is a fixpoint
        let raw2 = frame(code, &w);
        match parse_one(&raw2) {
            Ok(Some(Ok(o2))) => {
                chk(out, same(&o, &o2), &format!("opt_roundtrip_{}", on), &case, &format!("re-composed option {} parses to a different option", hex(&w)));
                let w2 = written(&o2).map(|x| x.1).unwrap_or_default();
                chk(out, w2 == w, &format!("opt_roundtrip_{}", on), &case, "re-composition is not a fixpoint");
            }
            _ => chk(out, false, &format!("opt_roundtrip_{}", on), &case, &format!("re-composed option {} does not parse", hex(&w))),
        }
        true
    }

    /// several options in one OPT record: Opt::push, AllRecordData::Opt, and a real message
    pub fn group_case(out: &mut Out, items: &[(u16, Vec<u8>)]) {
        let case = format!("ednsgroup {}", items.iter().map(|(c, d)| format!("{}={}", c, hex(d))).collect::<Vec<_>>().join(","));
        out.begin(&case);
        out.oracle_case(&case, true, "edns_group");
        let raws: Vec<Vec<u8>> = items.iter().map(|(c, d)| frame(*c, d)).collect();
        let mut opts: Vec<AO> = vec![];
        for raw in &raws { match parse_one(raw) { Ok(Some(Ok(o))) => opts.push(o), _ => return } }
        // Opt::push, checking the growth per option
        let mut opt = Opt::<Vec<u8>>::empty();
        let mut expect = 0usize;
        for o in &opts {
            let l = match catch_mut(|| o.compose_len()) { Ok(l) => l, Err(_) => return };
            if expect + 4 + l as usize > 65535 { return; }
            match catch_mut(|| opt.push(o)) {
                Ok(Ok(())) => {}
                Ok(Err(_)) => { chk(out, false, &format!("opt_roundtrip_{}", oname(o)), &case, "Opt::push refused an option that fits"); return; }
                Err(e) => { chk(out, false, &format!("opt_panic_{}", oname(o)), &case, &e); return; }
            }
            expect += 4 + l as usize;
            chk(out, opt.len() == expect, &format!("opt_len_{}", oname(o)), &case, &format!("OPT data is {} octets after pushing, announced lengths give {}", opt.len(), expect));
            if opt.len() != expect { return; }
        }
        check_list(out, &case, &opts, &opt, "Opt::push");
        // as record data of AllRecordData
        let built: Built = AllRecordData::Opt(opt.clone());
        let wire = compose_plain(&built).unwrap_or_default();
        chk(out, built.rdlen(false) == Some(wire.len() as u16) && wire.len() == opt.len(), "rdlen_OPT", &case, "rdlen of OPT");
        match parse_at(41, &wire, 0, wire.len()) {
            Ok(Ok(AllRecordData::Opt(p))) => { chk(out, p == opt, "roundtrip_OPT", &case, "OPT record data parses to different data");
                                               chk(out, compose_plain(&AllRecordData::<&[u8], ParsedName<&[u8]>>::Opt(p)).ok() == Some(wire.clone()), "recompose_OPT", &case, "re-composed OPT differs"); }
            _ => chk(out, false, "roundtrip_OPT", &case, &format!("OPT record data {} does not parse", hex(&wire))),
        }
        // through a real message
        let res = catch_mut(|| -> Result<(), (String, String)> {
            let mut mb = MessageBuilder::new_vec().additional();
            if mb.opt(|ob| { for o in &opts { ob.push(o)?; } Ok(()) }).is_err() { return Ok(()); }
            let bytes = mb.finish();
            let msg = Message::from_octets(&bytes[..]).map_err(|_| ("opt_message".to_string(), "short message".to_string()))?;
            let first = opts.first().map(|o| oname(o)).unwrap_or("EMPTY");
            let rec = msg.opt().ok_or(("opt_message".to_string(), "Message::opt() returned None for a message built with AdditionalBuilder::opt".to_string()))?;
            let got: Vec<_> = rec.opt().iter::<AllOptData<_, _>>().collect();
            compare(&opts, &got).map_err(|(i, d)| (format!("opt_roundtrip_{}", opts.get(i).map(|o| oname(o)).unwrap_or(first)), format!("via message: {}", d)))
        });
        match res { Ok(Ok(())) => chk(out, true, "opt_message", &case, ""),
                    Ok(Err((cls, d))) => chk(out, false, &cls, &case, &d),
                    Err(e) => chk(out, false, "opt_panic_MESSAGE", &case, &e) }
    }
    fn compare(opts: &[AO], got: &[Result<AO, ParseError>]) -> Result<(), (usize, String)> {
        for (i, o) in opts.iter().enumerate() {
            match got.get(i) {
                Some(Ok(g)) => if !same(o, g) { return Err((i, format!("option {} ({}) reads back as a different option ({})", i, oname(o), oname(g)))); },
                Some(Err(e)) => return Err((i, format!("option {} ({}) reads back as {}", i, oname(o), perr(e)))),
                None => return Err((i, format!("option {} ({}) is missing: {} of {} options read back", i, oname(o), got.len(), opts.len()))),
            }
        }
        if got.len() != opts.len() { return Err((opts.len().saturating_sub(1), format!("{} options read back, {} pushed", got.len(), opts.len()))); }
        Ok(())
    }
    fn check_list(out: &mut Out, case: &str, opts: &[AO], opt: &Opt<Vec<u8>>, how: &str) {
        let raw = opt.for_slice_ref();
        let got: Vec<_> = match catch_mut(|| raw.iter::<AllOptData<_, _>>().collect::<Vec<_>>()) { Ok(g) => g, Err(e) => { chk(out, false, "opt_panic_ITER", case, &e); return; } };
        match compare(opts, &got) {
            Ok(()) => chk(out, true, "opt_roundtrip", case, ""),
            Err((i, d)) => chk(out, false, &format!("opt_roundtrip_{}", opts.get(i).map(|o| oname(o)).unwrap_or("EMPTY")), case, &format!("{}: {}", how, d)),
        }
    }

    /// OPT data may hold 65535 octets including the four header octets of every option
    fn push_limit_case(out: &mut Out, first: usize, second: Option<usize>) {
        let case = format!("ednspush {} {}", first, second.map(|x| x.to_string()).unwrap_or("-".into()));
        out.begin(&case);
        out.oracle_case(&case, true, "edns_push_limit");
        let res = catch_mut(|| {
            let mut opt = Opt::<Vec<u8>>::empty();
            let mut accepted = vec![];
            accepted.push(opt.push(&Nsid::from_octets(vec![1u8; first]).unwrap()).is_ok());
            if let Some(k) = second { accepted.push(opt.push(&Padding::from_octets(vec![0u8; k]).unwrap()).is_ok()); }
            (opt.len(), accepted, catch_mut(|| opt.rdlen(false)))
        });
        match res {
            Ok((len, accepted, rl)) => {
                chk(out, len <= 65535, "opt_push_long", &case, &format!("Opt::push accepted {:?}: OPT data is {} octets, rdlen -> {}", accepted, len, show_rdlen(&rl)));
                if len <= 65535 { chk(out, rl == Ok(Some(len as u16)), "rdlen_OPT", &case, "rdlen of OPT"); }
                // what fits must be accepted
                let fits1 = first + 4 <= 65535;
                // an option that fits must not be refused (one that does not fit shows up as opt_push_long above)
                chk(out, accepted[0] || !fits1, "opt_push_refused", &case, &format!("first push accepted={} fits={}", accepted[0], fits1));
            }
            Err(e) => chk(out, false, "opt_panic_PUSH", &case, &e),
        }
    }

    fn opts_tok(l: &[(u16, Vec<u8>)]) -> String {
        if l.is_empty() { ".".into() } else { l.iter().map(|(c, d)| format!("{}={}", c, hex(d))).collect::<Vec<_>>().join(",") }
    }
    /// T2: Opt::push of raw options (UnknownOptData accepts every code)
    pub fn optframe_case(out: &mut Out, l: &[(u16, Vec<u8>)], kind: &str) {
        let case = format!("optframe {}", opts_tok(l));
        out.begin(&case);
        let res = catch_mut(|| {
            let mut opt = Opt::<Vec<u8>>::empty();
            for (c, d) in l {
                let o = UnknownOptData::new(OptionCode::from_int(*c), d.clone()).ok()?;
                opt.push(&o).ok()?;
            }
            Some(opt)
        });
        let obs = match &res { Ok(Some(o)) => hex(&compose_plain(o).unwrap_or_default()), Ok(None) => "Reject".to_string(), Err(_) => "Panic".to_string() };
        out.case(&case, &obs, !matches!(res, Ok(None)), kind);
        if let Ok(Some(o)) = &res {
            let expect: usize = l.iter().map(|(_, d)| 4 + d.len()).sum();
            chk(out, o.len() == expect, "opt_len_UNKNOWN", &case, "framed length is not the sum of 4 + data lengths");
            chk(out, o.len() <= 65535, "opt_push_long", &case, &format!("Opt::push accepted everything: OPT data is {} octets", o.len()));
        }
    }
    /// T2: Opt::from_octets + iteration
    pub fn optparse_case(out: &mut Out, m: &[u8], kind: &str) {
        let case = format!("optparse {}", hex(m));
        out.begin(&case);
        let res = catch_mut(|| -> Result<Vec<(u16, Vec<u8>)>, ParseError> {
            let opt = Opt::from_octets(m)?;
            let mut v = vec![];
            for o in opt.iter::<UnknownOptData<_>>() { let o = o?; v.push((o.code().to_int(), o.as_slice().to_vec())); }
            Ok(v)
        });
        let obs = match &res { Ok(Ok(v)) => format!("Ok {}", opts_tok(v)), Ok(Err(e)) => perr(e).to_string(), Err(_) => "Panic".to_string() };
        out.case(&case, &obs, matches!(res, Ok(Ok(_))), kind);
        if let Err(e) = &res { chk(out, false, "opt_panic_ITER", &case, e); }
    }

    /// options made with the typed constructors
    fn constructed(out: &mut Out, r: &mut Rng) -> Vec<(u16, Vec<u8>)> {
        let mut res = vec![];
        macro_rules! put { ($name:expr, $o:expr) => {{
            let o = $o; let case = format!("ednsctor {}", $name);
            match written(&o) {
                Ok((l, w)) => { chk(out, l as usize == w.len(), &format!("opt_len_{}", $name), &format!("{} {}", case, hex(&w)), &format!("compose_len {} but {} octets written", l, w.len()));
                                res.push((o.code().to_int(), w)); }
                Err(e) => chk(out, false, &format!("opt_panic_{}", $name), &case, &e),
            }
        }}}
        for n in [0usize, 1, 255, 4000] { put!("NSID", Nsid::from_octets(r.bytes(n)).unwrap()); put!("PADDING", Padding::from_octets(r.bytes(n)).unwrap()); }
        for n in [0usize, 2, 40] { put!("DAU", Dau::from_octets(r.bytes(n)).unwrap()); put!("DHU", Dhu::from_octets(r.bytes(n)).unwrap());
                                   put!("N3U", N3u::from_octets(r.bytes(n)).unwrap()); put!("KEYTAG", KeyTag::from_octets(r.bytes(n)).unwrap()); }
        put!("EXPIRE", Expire::new(None)); put!("EXPIRE", Expire::new(Some(r.u32()))); put!("EXPIRE", Expire::new(Some(u32::MAX)));
        put!("KEEPALIVE", TcpKeepalive::new(None)); put!("KEEPALIVE", TcpKeepalive::new(Some(IdleTimeout::from(r.u16()))));
        let mut cc = [0u8; 8]; cc.copy_from_slice(&r.bytes(8));
        put!("COOKIE", Cookie::new(ClientCookie::from_octets(cc), None));
        for n in [8usize, 16, 32] { put!("COOKIE", Cookie::new(ClientCookie::from_octets(cc), Some(ServerCookie::from_octets(&r.bytes(n))))); }
        for _ in 0..6 { let n: DN = Name::from_octets(gen_name(r)).unwrap(); put!("CHAIN", Chain::new(n)); }
        for _ in 0..24 {
            let v4 = r.chance(1, 2);
            let addr: IpAddr = if v4 { let b = r.bytes(4); IpAddr::from([b[0], b[1], b[2], b[3]]) } else { let b = r.bytes(16); let mut a = [0u8; 16]; a.copy_from_slice(&b); IpAddr::from(a) };
            let src = *r.pick(&[0u8, 1, 7, 8, 9, 23, 24, 25, 31, 32, 33, 56, 64, 127, 128, 129, 255]);
            put!("SUBNET", ClientSubnet::new(src, r.u8(), addr));
        }
        for t in [None, Some(""), Some("blocked"), Some("caf\u{e9} \u{20ac}")] {
            let text = t.map(|s| octseq::str::Str::from_utf8(s.as_bytes().to_vec()).unwrap());
            put!("EXTERR", ExtendedError::new(ExtendedErrorCode::from_int(r.u16()), text).unwrap());
        }
        for c in [0u16, 16, 4711, 65535] { let k = r.below(30) as usize; put!("UNKNOWN", UnknownOptData::new(OptionCode::from_int(c), r.bytes(k)).unwrap()); }
        res
    }

    pub fn run(out: &mut Out, r: &mut Rng, n: u64) {
        let mut pool: Vec<(u16, Vec<u8>)> = vec![];
        // corpus: an Extended DNS Error whose EXTRA-TEXT is Latin-1, followed by another option
        let latin1 = (15u16, vec![0, 15, b'c', b'a', b'f', 0xe9]);
        option_case(out, latin1.0, &latin1.1, false, "corpus");
        group_case(out, &[latin1.clone(), (3, b"ns1".to_vec())]);
        group_case(out, &[(10, vec![1; 8]), latin1.clone(), (12, vec![0; 5]), (8, vec![0, 1, 24, 0, 192, 0, 2])]);
        for (c, d) in [(8u16, vec![0u8, 1, 24, 0, 192, 0, 2]), (8, vec![0, 1, 23, 0, 192, 0, 3]), (8, vec![0, 1, 33, 0, 1, 2, 3, 4, 5]), (8, vec![0, 2, 0, 0]),
                       (9, vec![1, 2, 3]), (9, vec![1, 2, 3, 4, 5]), (10, vec![1; 9]), (10, vec![1; 40]), (10, vec![1; 41]), (11, vec![0]), (11, vec![0, 1, 2]),
                       (13, vec![1, 97, 0, 0]), (13, vec![192, 0]), (15, vec![0]), (14, vec![0, 1, 2])] {
            optdata_case(out, c, &d, "corpus");
        }
        for (c, d) in constructed(out, r) { if option_case(out, c, &d, true, "edns_ctor") { pool.push((c, d)); } }
        for &code in CODES.iter() {
            for _ in 0..(n / 2).max(20) {
                let d = gen_data(r, code);
                // chain: Name::parse and the flat reader of the model order the "long name" and
                // "short input" errors differently; keep the T2 input within 255 octets
                if code != 13 || d.len() <= 255 { optdata_case(out, code, &d, &format!("optdata_{}", cname(code))); }
                if option_case(out, code, &d, false, &format!("edns_{}", cname(code))) && d.len() < 5000 { pool.push((code, d)); }
            }
        }
        for i in 0..(n / 2).max(20) {
            let k = match i % 4 { 0 => 16usize, 1 => 8 + r.below(25) as usize, 2 => *r.pick(&[8usize, 15, 17, 32]), _ => 16 };
            let d = r.bytes(k);
            stdcookie_case(out, &d, "stdcookie");
        }
        // an option at the size limit
        option_case(out, 3, &vec![7u8; 65531], false, "edns_max");
        for _ in 0..(2 * n) {
            let k = 1 + r.below(5) as usize;
            let items: Vec<(u16, Vec<u8>)> = (0..k).map(|_| r.pick(&pool).clone()).collect();
            group_case(out, &items);
        }
        group_case(out, &[]);
        // T2: framing
        optframe_case(out, &[], "corpus");
        optframe_case(out, &[(15, vec![0, 15, b'c', b'a', b'f', 0xe9]), (3, vec![])], "corpus");
        optparse_case(out, &[0, 15, 0, 6, 0, 15, 0, 3, 0, 0], "corpus");
        optparse_case(out, &[0, 15, 0, 7, 0, 15, 0, 3, 0, 0], "corpus");
        for (a, b) in [(65531usize, None), (65531, Some(0usize)), (65532, None), (65535, None), (65527, Some(0)), (30000, Some(35527)), (30000, Some(35528))] {
            let mut l = vec![(3u16, vec![1u8; a])];
            if let Some(k) = b { l.push((12, vec![0u8; k])); }
            optframe_case(out, &l, "optframe_limit");
        }
        for i in 0..(3 * n) {
            let k = r.below(5) as usize;
            let items: Vec<(u16, Vec<u8>)> = (0..k).map(|_| { let (c, d) = r.pick(&pool).clone(); (if r.chance(1, 4) { r.u16() } else { c }, d) }).collect();
            optframe_case(out, &items, "optframe");
            let mut raw: Vec<u8> = items.iter().flat_map(|(c, d)| frame(*c, d)).collect();
            match i % 4 {
                0 => {}
                1 if !raw.is_empty() => { let j = r.below(raw.len() as u64) as usize; raw.truncate(j); }
                2 if !raw.is_empty() => { let j = r.below(raw.len() as u64) as usize; raw[j] = r.u8(); }
                _ => { let m = r.below(12) as usize; raw = r.bytes(m); }
            }
            optparse_case(out, &raw, "optparse");
        }
        for (a, b) in [(65531usize, None), (65531, Some(0usize)), (65532, None), (65535, None), (65527, Some(0)), (65526, Some(1)), (65527, Some(1)), (30000, Some(35527)), (30000, Some(35528))] {
            push_limit_case(out, a, b);
        }
    }
}

mod svc {
    //! SVCB / HTTPS service parameters: values by key and the typed builder.
    //!   svc_len_<VALUE>        compose_len() == octets written by compose_value()
    //!   svc_roundtrip_<VALUE>  the re-composed value parses to the same value
    //!   svc_build_order        the builder freezes to ascending, accepted parameters
    use super::*;
    use domain::base::iana::SvcParamKey;
    use domain::rdata::svcb::value::AllValues;
    use domain::rdata::svcb::{ComposeSvcParamValue, SvcParamValue, SvcParams, SvcParamsBuilder, UnknownSvcParam};

    fn vname(key: u16) -> &'static str {
        match key { 0 => "MANDATORY", 1 => "ALPN", 2 => "NODEFAULTALPN", 3 => "PORT", 4 => "IPV4HINT", 5 => "ECH", 6 => "IPV6HINT",
                    7 => "DOHPATH", 8 => "OHTTP", 9 => "TLSGROUPS", _ => "UNKNOWN" }
    }
    fn frame(key: u16, data: &[u8]) -> Vec<u8> {
        let mut raw = key.to_be_bytes().to_vec();
        raw.extend_from_slice(&(data.len() as u16).to_be_bytes());
        raw.extend_from_slice(data);
        raw
    }
    fn explode_value<O: AsRef<[u8]> + octseq::Octets>(v: &AllValues<O>) -> Vec<Val> {
        match v {
            AllValues::Mandatory(x) => vec![Val::Bytes(x.as_slice().to_vec())],
            AllValues::Alpn(x) => vec![Val::Strs(x.iter().map(|p| p.as_ref().to_vec()).collect())],
            AllValues::NoDefaultAlpn(_) => vec![],
            AllValues::Port(x) => vec![Val::Num(x.port() as u64)],
            AllValues::Ech(x) => vec![Val::Bytes(x.as_slice().to_vec())],
            AllValues::Ipv4Hint(x) => vec![Val::Bytes(x.as_slice().to_vec())],
            AllValues::Ipv6Hint(x) => vec![Val::Bytes(x.as_slice().to_vec())],
            AllValues::DohPath(x) => vec![Val::Bytes(x.as_slice().to_vec())],
            AllValues::Ohttp(_) => vec![],
            AllValues::TlsSupportedGroups(x) => vec![Val::Bytes(x.as_slice().to_vec())],
            AllValues::Unknown(x) => vec![Val::Bytes(x.value().as_ref().to_vec())],
        }
    }
    /// parse one framed parameter the way SvcParams does
    fn parse_value(raw: &[u8]) -> Result<Result<(Vec<Val>, u16, Vec<u8>, u16), ParseError>, String> {
        catch_mut(|| {
            let p = SvcParams::from_octets(raw).map_err(ParseError::from)?;
            let mut it = p.iter_all();
            match it.next() {
                Some(Ok(v)) => { let mut w: Vec<u8> = Vec::new(); v.compose_value(&mut w).unwrap(); Ok((explode_value(&v), v.compose_len(), w, v.key().to_int())) }
                Some(Err(e)) => Err(e),
                None => Err(ParseError::form_error("no parameter")),
            }
        })
    }
    fn gen_value(r: &mut Rng, key: u16) -> Vec<u8> {
        let odd = r.chance(1, 6);
        match key {
            0 | 9 => { let n = 2 * match r.below(4) { 0 => 0usize, 1 => 1, _ => r.below(8) as usize } + odd as usize; r.bytes(n) }
            1 => { let k = r.below(4) as usize; let mut o = vec![];
                   for _ in 0..k { let l = match r.below(5) { 0 => 0usize, 1 => 255, _ => 1 + r.below(8) as usize }; o.push(l as u8); o.extend_from_slice(&r.bytes(l)); }
                   if odd && !o.is_empty() { o.pop(); } o }
            2 | 8 => { let n = if odd { 1 + r.below(3) as usize } else { 0 }; r.bytes(n) }
            3 => { let n = if odd { *r.pick(&[0usize, 1, 3]) } else { 2 }; r.bytes(n) }
            4 => { let n = 4 * r.below(4) as usize + if odd { 1 + r.below(3) as usize } else { 0 }; r.bytes(n) }
            6 => { let n = 16 * r.below(3) as usize + if odd { 1 + r.below(15) as usize } else { 0 }; r.bytes(n) }
            _ => { let n = match r.below(6) { 0 => 0usize, 1 => 300, _ => r.below(30) as usize }; r.bytes(n) }
        }
    }
    pub fn value_case(out: &mut Out, key: u16, data: &[u8], kind: &str) {
        let case = format!("svcvalue {} {}", key, hex(data));
        out.begin(&case);
        let raw = frame(key, data);
        let res = parse_value(&raw);
        let (obs, nt) = match &res {
            Ok(Ok((v, _, _, _))) => (format!("Ok {}", toks(v)).trim_end().to_string(), true),
            Ok(Err(e)) => (perr(e).to_string(), matches!(e, ParseError::Form(_))),
            Err(_) => ("Panic".to_string(), true),
        };
        out.case(&case, &obs, nt, kind);
        let vn = vname(key);
        match res {
            Err(e) => chk(out, false, &format!("svc_panic_{}", vn), &case, &e),
            Ok(Err(_)) => {}
            Ok(Ok((v, l, w, k))) => {
                chk(out, k == key, &format!("svc_roundtrip_{}", vn), &case, "value parsed under a different key");
                chk(out, l as usize == w.len(), &format!("svc_len_{}", vn), &case, &format!("compose_len {} but compose_value wrote {} octets", l, w.len()));
                match parse_value(&frame(key, &w)) {
                    Ok(Ok((v2, _, w2, _))) => chk(out, v2 == v && w2 == w, &format!("svc_roundtrip_{}", vn), &case, "re-composed value parses to a different value"),
                    _ => chk(out, false, &format!("svc_roundtrip_{}", vn), &case, &format!("re-composed value {} does not parse", hex(&w))),
                }
            }
        }
    }
    fn opts_tok(l: &[(u16, Vec<u8>)]) -> String {
        if l.is_empty() { ".".into() } else { l.iter().map(|(c, d)| format!("{}={}", c, hex(d))).collect::<Vec<_>>().join(",") }
    }
    pub fn build_case(out: &mut Out, r: &mut Rng, pushes: &[(u16, Vec<u8>)], kind: &str) {
        let case = format!("svcbuild {}", opts_tok(pushes));
        out.begin(&case);
        let res = catch_mut(|| SvcParams::<Vec<u8>>::from_values(|b| {
            for (k, d) in pushes { b.push(&UnknownSvcParam::new(SvcParamKey::from_int(*k), d.clone()).unwrap())?; }
            Ok(())
        }));
        let obs = match &res { Ok(Ok(p)) => hex(p.as_slice()), Ok(Err(_)) => "Reject".to_string(), Err(_) => "Panic".to_string() };
        out.case(&case, &obs, matches!(res, Ok(Ok(_))), kind);
        let dup = { let mut ks: Vec<u16> = pushes.iter().map(|x| x.0).collect(); ks.sort(); ks.windows(2).any(|w| w[0] == w[1]) };
        match res {
            Err(e) => chk(out, false, "svc_panic_BUILD", &case, &e),
            Ok(Err(_)) => chk(out, dup, "svc_build_order", &case, "builder refused pushes without a duplicate key"),
            Ok(Ok(p)) => {
                chk(out, !dup, "svc_build_order", &case, "builder accepted a duplicate key");
                let again = SvcParams::from_octets(p.as_slice().to_vec());
                chk(out, again.is_ok(), "svc_build_order", &case, "frozen parameters are refused by SvcParams::from_octets");
                let got: Vec<(u16, Vec<u8>)> = p.iter_raw().map(|u| (u.key().to_int(), u.value().as_ref().to_vec())).collect();
                let mut want = pushes.to_vec(); want.sort();
                chk(out, got == want, "svc_build_order", &case, &format!("frozen parameters iterate as {}", opts_tok(&got)));
                // inside SVCB record data
                let owner = gen_name(r);
                if let Ok(rd) = Svcb::new(1, Name::<Vec<u8>>::from_octets(owner).unwrap(), p.clone()) {
                    let built: Built = AllRecordData::Svcb(rd);
                    let wire = compose_plain(&built).unwrap_or_default();
                    match parse_at(64, &wire, 0, wire.len()) {
                        Ok(Ok(q)) => chk(out, q == built && built.rdlen(false) == Some(wire.len() as u16), "roundtrip_SVCB", &case, "SVCB with built parameters"),
                        _ => chk(out, false, "roundtrip_SVCB", &case, "SVCB with built parameters does not parse"),
                    }
                }
            }
        }
    }
    /// the typed push methods of the builder and typed constructors
    fn typed(out: &mut Out, r: &mut Rng) {
        use domain::rdata::svcb::value::{Ipv4Hint, Mandatory, TlsSupportedGroups};
        let case = "svctyped";
        out.oracle_case(case, true, "svc_typed");
        let a4: Vec<Ipv4Addr> = (0..3).map(|_| { let b = r.bytes(4); Ipv4Addr::new(b[0], b[1], b[2], b[3]) }).collect();
        let res = catch_mut(|| SvcParams::<Vec<u8>>::from_values(|b| {
            b.port(443)?;
            b.ipv4hint(&a4).map_err(|_| domain::rdata::svcb::PushError::ShortBuf)?;
            b.alpn(&[b"h2", b"h3"]).map_err(|_| domain::rdata::svcb::PushError::ShortBuf)?;
            b.mandatory([SvcParamKey::from_int(1), SvcParamKey::from_int(3)]).map_err(|_| domain::rdata::svcb::PushError::ShortBuf)?;
            b.no_default_alpn()?;
            Ok(())
        }));
        match res {
            Ok(Ok(p)) => {
                let keys: Vec<u16> = p.iter_raw().map(|u| u.key().to_int()).collect();
                chk(out, keys == vec![0, 1, 2, 3, 4], "svc_build_order", case, &format!("typed pushes freeze to keys {:?}", keys));
                chk(out, p.port().map(|x| x.port()) == Some(443) && p.no_default_alpn() && p.alpn().is_some() && p.mandatory().is_some() && p.ipv4hint().is_some(),
                    "svc_roundtrip_TYPED", case, "typed getters do not find the pushed values");
                let q = match SvcParams::from_octets(p.as_slice()) { Ok(q) => q, Err(_) => { chk(out, false, "svc_build_order", case, "typed pushes freeze to refused octets"); return; } };
                for v in q.iter_all() { if let Ok(v) = v { let mut w: Vec<u8> = Vec::new(); v.compose_value(&mut w).unwrap();
                    chk(out, v.compose_len() as usize == w.len(), &format!("svc_len_{}", vname(v.key().to_int())), case, "compose_len of a typed value"); } }
            }
            Ok(Err(_)) => chk(out, false, "svc_build_order", case, "typed pushes refused"),
            Err(e) => chk(out, false, "svc_panic_BUILD", case, &e),
        }
        // typed constructors produce values that parse back
        let m: Mandatory<Vec<u8>> = Mandatory::from_keys([4u16, 1, 0].iter().map(|k| SvcParamKey::from_int(*k))).unwrap();
        value_case(out, 0, m.as_slice(), "svc_ctor");
        let h: Ipv4Hint<Vec<u8>> = Ipv4Hint::from_addrs(a4.iter().cloned()).unwrap();
        value_case(out, 4, h.as_slice(), "svc_ctor");
        let g = TlsSupportedGroups::<Vec<u8>>::from_keys([29u16, 23].iter().cloned());
        if let Ok(g) = g { value_case(out, 9, g.as_slice(), "svc_ctor"); }
        // from_keys of an empty list builds a value the parser refuses (empty tls-supported-groups)
        if let Ok(g) = TlsSupportedGroups::<Vec<u8>>::from_keys(std::iter::empty::<u16>()) {
            let c = "svcvalue 9 - (TlsSupportedGroups::from_keys of no groups)";
            out.oracle_case(c, true, "svc_ctor");
            let ok = matches!(parse_value(&frame(9, g.as_slice())), Ok(Ok(_)));
            chk(out, ok, "svc_ctor_reparse_TLSGROUPS", c, "constructor accepted an empty group list that TlsSupportedGroups::parse refuses");
        }
    }

    pub fn run(out: &mut Out, r: &mut Rng, n: u64) {
        for (k, d) in [(1u16, vec![2u8, 104, 50, 2, 104, 51]), (1, vec![2, 104]), (2, vec![]), (2, vec![0]), (3, vec![1, 187]), (3, vec![1]), (3, vec![1, 187, 0]),
                       (4, vec![192, 0, 2]), (6, vec![1, 2, 3, 4]), (0, vec![0, 4, 0, 1, 0, 0]), (9, vec![]), (9, vec![0, 29]), (4711, vec![1, 2, 3])] {
            value_case(out, k, &d, "corpus");
        }
        typed(out, r);
        let mut pool: Vec<(u16, Vec<u8>)> = vec![];
        for &key in &[0u16, 1, 2, 3, 4, 5, 6, 7, 8, 9, 10, 4711, 65535] {
            for _ in 0..(n / 3).max(15) {
                let d = gen_value(r, key);
                value_case(out, key, &d, &format!("svcvalue_{}", vname(key)));
                if d.len() < 400 { pool.push((key, d)); }
            }
        }
        build_case(out, r, &[], "corpus");
        build_case(out, r, &[(3, vec![1, 187]), (1, vec![2, 104, 50]), (0, vec![0, 1])], "corpus");
        build_case(out, r, &[(3, vec![]), (1, vec![]), (3, vec![1])], "corpus");
        for _ in 0..(2 * n) {
            let k = r.below(7) as usize;
            let mut items: Vec<(u16, Vec<u8>)> = (0..k).map(|_| r.pick(&pool).clone()).collect();
            if !r.chance(1, 4) { let mut seen = std::collections::HashSet::new(); items.retain(|x| seen.insert(x.0)); }
            if r.chance(1, 3) { for it in items.iter_mut() { if r.chance(1, 3) { it.0 = r.u16(); } } }
            build_case(out, r, &items, "svcbuild");
        }
    }
}

fn main() {
    let a = args();
    let mut out = Out::new(&a, "C05", 60);
    let mut r = Rng::new(a.seed);
    let n = (if a.thorough { 1500 } else { 110 }) * a.scale;

    // corpus: witnesses of the _refuted lemmas and fixed boundary cases
    compose_case(&mut out, &mut r, 52, &[Val::Num(0), Val::Num(0), Val::Num(0), Val::Bytes(vec![0; 65533])], "corpus");
    compose_case(&mut out, &mut r, 63, &[Val::Num(1), Val::Num(1), Val::Num(1), Val::Bytes(vec![7; 11])], "corpus");
    compose_case(&mut out, &mut r, 15, &[Val::Num(10), Val::Name(mkname(&[b"mx".to_vec(), b"A".to_vec()]))], "corpus");
    parse_case(&mut out, 15, &[9, 1, 65, 0, 0, 10, 2, 109, 120, 192, 1], 4, 11, "corpus");
    parse_case(&mut out, 16, &[], 0, 0, "corpus");
    parse_case(&mut out, 5, &[0xc0, 0x00], 0, 2, "corpus");
    parse_case(&mut out, 65280, &[1, 2, 3], 0, 3, "corpus");
    // buffers beyond 65535 octets (direct use of a Parser): the leading LongRecordData checks
    for &t in &[48u16, 43, 59, 60, 10, 16, 46, 250, 61, 52] {
        for &l in &[65535usize, 65536, 65539, 65540] {
            // TXT: 255-octet strings (a buffer of empty strings makes the list model quadratic)
            let buf = vec![if t == 16 { 0xffu8 } else { 0u8 }; l + 1];
            parse_case(&mut out, t, &buf, 1, l + 1, "parse_huge");
        }
    }

    // == of opaque data inside the record data enums
    for i in 0..(40 * a.scale) {
        let t1 = *r.pick(&[65280u16, 99, 11, 255, 4711]);
        let k = r.below(12) as usize;
        let b1 = r.bytes(k);
        let (t2, b2) = match i % 4 { 0 => (t1, b1.clone()), 1 => (t1.wrapping_add(1), b1.clone()),
                                     2 => { let mut b = b1.clone(); if b.is_empty() { b.push(0) } else { b[0] ^= 1 }; (t1, b) }, _ => (t1, b1.clone()) };
        equnk_case(&mut out, t1, &b1, t2, &b2);
    }

    let mut types: Vec<u16> = REGULAR.iter().map(|x| x.0).collect();
    types.extend_from_slice(&[65280, 99, 11, 255]);   // unknown types
    for &t in &types {
        boundary_cases(&mut out, &mut r, t);
        for i in 0..n {
            let v = gen_value(&mut r, t, i % 5 == 4);
            compose_case(&mut out, &mut r, t, &v, "compose");
            let v2 = gen_value(&mut r, t, false);
            parse_cases_for(&mut out, &mut r, t, &v2);
            if i % 2 == 0 { let tg = r.below(4); viamsg_case(&mut out, &mut r, tg, t, &v2); }
            if i % 3 == 0 && vlen(&fields_v(t, &v2), &v2) < 3000 { lenrdata_case(&mut out, t, &v2); }
        }
    }
    txtbuild_cases(&mut out, &mut r, n);
    txtlim_cases(&mut out, &mut r, n);
    irregular::run(&mut out, &mut r, n);
    edns::run(&mut out, &mut r, n);
    svc::run(&mut out, &mut r, n);
    out.finish(&[]);
}
