//! C05 -- record data of every type survives compose/parse; lengths are exact.
//!
//! T2 cases (evaluated by the extracted Coq schema model as well):
//!   compose <rtype> <field>...       constructor + compose_rdata + rdlen + compose_canonical_rdata
//!   parse <rtype> <msg> <pos> <lim>  AllRecordData::parse_any_rdata in a sub-parser [pos, lim) of msg
//! Property oracle (implementation only, every type of AllRecordData):
//!   roundtrip_<T>   parse(compose v) == v (field by field and with the type's ==)
//!   rdlen_<T>       rdlen() / the RDLENGTH written by compose_len_rdata == octets written
//!   recompose_<T>   accepted RDATA re-composes to octets that parse to an equal value
//!   canonical_<T>   compose_canonical_rdata == wire form with exactly the RFC 4034 6.2 /
//!                   RFC 6840 5.1 names lower-cased
//!   ctor_long_<T>   constructor accepted a value whose RDATA exceeds 65535 octets
//!   ctor_reparse_<T> constructor accepted a value that parse rejects after compose
use domain::base::charstr::CharStr;
use domain::base::iana::{
    Class, DigestAlgorithm, Nsec3HashAlgorithm, Rtype, SecurityAlgorithm, SshfpAlgorithm, SshfpType,
    TlsaCertificateUsage, TlsaMatchingType, TlsaSelector, TsigRcode, ZonemdAlgorithm, ZonemdScheme,
};
use domain::base::message::Message;
use domain::base::message_builder::{HashCompressor, MessageBuilder, StaticCompressor, TreeCompressor};
use domain::base::name::{Name, ParsedName, ToName};
use domain::base::rdata::{ComposeRecordData, ParseAnyRecordData, RecordData, UnknownRecordData};
use domain::base::wire::{Composer, ParseError};
use domain::base::{Record, Serial, Ttl};
use domain::rdata::dnssec::Timestamp;
use domain::rdata::tsig::Time48;
use domain::rdata::*;
use dv_harness::*;
use octseq::Parser;
use std::net::{Ipv4Addr, Ipv6Addr};

type DN = Name<Vec<u8>>;
type Built = AllRecordData<Vec<u8>, DN>;

#[derive(Clone, Debug, PartialEq)]
enum Val { Num(u64), Bytes(Vec<u8>), Name(Vec<u8>), Strs(Vec<Vec<u8>>) }

#[derive(Clone, Copy, Debug, PartialEq)]
enum F { Num(u32), Fix(usize), Name, Str(bool), Strs, Len16, Rest(usize) }

const REGULAR: [(u16, &str); 32] = [
    (1, "A"), (2, "NS"), (3, "MD"), (4, "MF"), (5, "CNAME"), (6, "SOA"), (7, "MB"), (8, "MG"), (9, "MR"),
    (10, "NULL"), (12, "PTR"), (13, "HINFO"), (14, "MINFO"), (15, "MX"), (16, "TXT"), (17, "RP"),
    (28, "AAAA"), (33, "SRV"), (35, "NAPTR"), (39, "DNAME"), (43, "DS"), (44, "SSHFP"), (46, "RRSIG"),
    (48, "DNSKEY"), (51, "NSEC3PARAM"), (52, "TLSA"), (59, "CDS"), (60, "CDNSKEY"), (61, "OPENPGPKEY"),
    (63, "ZONEMD"), (250, "TSIG"), (257, "CAA"),
];
/// RFC 4034 6.2 as amended by RFC 6840 5.1, restricted to types with names
const RFC_LOWER: [u16; 24] = [2, 3, 4, 5, 6, 7, 8, 9, 12, 13, 14, 15, 17, 18, 21, 24, 26, 30, 35, 36, 33, 39, 38, 46];

fn tname(t: u16) -> String {
    for (c, n) in REGULAR.iter() { if *c == t { return n.to_string(); } }
    match t { 41 => "OPT".into(), 45 => "IPSECKEY".into(), 47 => "NSEC".into(), 50 => "NSEC3".into(),
              64 => "SVCB".into(), 65 => "HTTPS".into(), _ => "UNKNOWN".into() }
}

/// generator-side description of the field kinds (used to produce values and
/// hand-encoded input only; the observations come from the real types)
fn fields(t: u16) -> Vec<F> {
    use F::*;
    match t {
        1 => vec![Fix(4)],
        2 | 3 | 4 | 5 | 7 | 8 | 9 | 12 | 39 => vec![Name],
        6 => vec![Name, Name, Num(4), Num(4), Num(4), Num(4), Num(4)],
        10 | 61 => vec![Rest(0)],
        13 => vec![Str(false), Str(false)],
        14 | 17 => vec![Name, Name],
        15 => vec![Num(2), Name],
        16 => vec![Strs],
        28 => vec![Fix(16)],
        33 => vec![Num(2), Num(2), Num(2), Name],
        35 => vec![Num(2), Num(2), Str(false), Str(false), Str(false), Name],
        43 | 48 | 59 | 60 => vec![Num(2), Num(1), Num(1), Rest(0)],
        44 => vec![Num(1), Num(1), Rest(0)],
        46 => vec![Num(2), Num(1), Num(1), Num(4), Num(4), Num(4), Num(2), Name, Rest(0)],
        51 => vec![Num(1), Num(1), Num(2), Str(false)],
        52 => vec![Num(1), Num(1), Num(1), Rest(0)],
        63 => vec![Num(4), Num(1), Num(1), Rest(12)],
        250 => vec![Name, Num(6), Num(2), Len16, Num(2), Num(2), Len16],
        257 => vec![Num(1), Str(true), Rest(0)],
        _ => vec![Rest(0)],
    }
}

// ---------------------------------------------------------------- values <-> real types
fn vnum(v: &[Val], i: usize) -> u64 { match &v[i] { Val::Num(n) => *n, _ => panic!("shape") } }
fn vbytes(v: &[Val], i: usize) -> Vec<u8> { match &v[i] { Val::Bytes(b) => b.clone(), _ => panic!("shape") } }
fn vname(v: &[Val], i: usize) -> DN { match &v[i] { Val::Name(b) => Name::from_octets(b.clone()).expect("generator name"), _ => panic!("shape") } }
fn vcs(v: &[Val], i: usize) -> Result<CharStr<Vec<u8>>, ()> { CharStr::from_octets(vbytes(v, i)).map_err(|_| ()) }

/// Build the value with the public constructors. Err = a constructor rejected.
fn build(t: u16, v: &[Val]) -> Result<Built, ()> {
    Ok(match t {
        1 => { let b = vbytes(v, 0); AllRecordData::A(A::new(Ipv4Addr::new(b[0], b[1], b[2], b[3]))) }
        2 => AllRecordData::Ns(Ns::new(vname(v, 0))),
        3 => AllRecordData::Md(Md::new(vname(v, 0))),
        4 => AllRecordData::Mf(Mf::new(vname(v, 0))),
        5 => AllRecordData::Cname(Cname::new(vname(v, 0))),
        6 => AllRecordData::Soa(Soa::new(vname(v, 0), vname(v, 1), Serial(vnum(v, 2) as u32),
                Ttl::from_secs(vnum(v, 3) as u32), Ttl::from_secs(vnum(v, 4) as u32),
                Ttl::from_secs(vnum(v, 5) as u32), Ttl::from_secs(vnum(v, 6) as u32))),
        7 => AllRecordData::Mb(Mb::new(vname(v, 0))),
        8 => AllRecordData::Mg(Mg::new(vname(v, 0))),
        9 => AllRecordData::Mr(Mr::new(vname(v, 0))),
        10 => AllRecordData::Null(Null::from_octets(vbytes(v, 0)).map_err(|_| ())?),
        12 => AllRecordData::Ptr(Ptr::new(vname(v, 0))),
        13 => AllRecordData::Hinfo(Hinfo::new(vcs(v, 0)?, vcs(v, 1)?)),
        14 => AllRecordData::Minfo(Minfo::new(vname(v, 0), vname(v, 1))),
        15 => AllRecordData::Mx(Mx::new(vnum(v, 0) as u16, vname(v, 1))),
        16 => {
            let l = match &v[0] { Val::Strs(l) => l, _ => panic!("shape") };
            let mut raw = vec![];
            for s in l { if s.len() > 255 { return Err(()); } raw.push(s.len() as u8); raw.extend_from_slice(s); }
            AllRecordData::Txt(Txt::from_octets(raw).map_err(|_| ())?)
        }
        17 => AllRecordData::Rp(Rp::new(vname(v, 0), vname(v, 1))),
        28 => { let b = vbytes(v, 0); let mut a = [0u8; 16]; a.copy_from_slice(&b); AllRecordData::Aaaa(Aaaa::new(Ipv6Addr::from(a))) }
        33 => AllRecordData::Srv(Srv::new(vnum(v, 0) as u16, vnum(v, 1) as u16, vnum(v, 2) as u16, vname(v, 3))),
        35 => AllRecordData::Naptr(Naptr::new(vnum(v, 0) as u16, vnum(v, 1) as u16, vcs(v, 2)?, vcs(v, 3)?, vcs(v, 4)?, vname(v, 5))),
        39 => AllRecordData::Dname(Dname::new(vname(v, 0))),
        43 => AllRecordData::Ds(Ds::new(vnum(v, 0) as u16, SecurityAlgorithm::from_int(vnum(v, 1) as u8),
                DigestAlgorithm::from_int(vnum(v, 2) as u8), vbytes(v, 3)).map_err(|_| ())?),
        44 => AllRecordData::Sshfp(Sshfp::new(SshfpAlgorithm::from_int(vnum(v, 0) as u8), SshfpType::from_int(vnum(v, 1) as u8), vbytes(v, 2))),
        46 => AllRecordData::Rrsig(Rrsig::new(Rtype::from_int(vnum(v, 0) as u16), SecurityAlgorithm::from_int(vnum(v, 1) as u8),
                vnum(v, 2) as u8, Ttl::from_secs(vnum(v, 3) as u32), Timestamp::from(vnum(v, 4) as u32),
                Timestamp::from(vnum(v, 5) as u32), vnum(v, 6) as u16, vname(v, 7), vbytes(v, 8)).map_err(|_| ())?),
        48 => AllRecordData::Dnskey(Dnskey::new(vnum(v, 0) as u16, vnum(v, 1) as u8, SecurityAlgorithm::from_int(vnum(v, 2) as u8), vbytes(v, 3)).map_err(|_| ())?),
        51 => AllRecordData::Nsec3param(Nsec3param::new(Nsec3HashAlgorithm::from_int(vnum(v, 0) as u8), vnum(v, 1) as u8,
                vnum(v, 2) as u16, domain::rdata::nsec3::Nsec3Salt::from_octets(vbytes(v, 3)).map_err(|_| ())?)),
        52 => AllRecordData::Tlsa(Tlsa::new(TlsaCertificateUsage::from_int(vnum(v, 0) as u8), TlsaSelector::from_int(vnum(v, 1) as u8),
                TlsaMatchingType::from_int(vnum(v, 2) as u8), vbytes(v, 3))),
        59 => AllRecordData::Cds(Cds::new(vnum(v, 0) as u16, SecurityAlgorithm::from_int(vnum(v, 1) as u8),
                DigestAlgorithm::from_int(vnum(v, 2) as u8), vbytes(v, 3)).map_err(|_| ())?),
        60 => AllRecordData::Cdnskey(Cdnskey::new(vnum(v, 0) as u16, vnum(v, 1) as u8, SecurityAlgorithm::from_int(vnum(v, 2) as u8), vbytes(v, 3)).map_err(|_| ())?),
        61 => AllRecordData::Openpgpkey(Openpgpkey::new(vbytes(v, 0))),
        63 => AllRecordData::Zonemd(Zonemd::new(Serial(vnum(v, 0) as u32), ZonemdScheme::from_int(vnum(v, 1) as u8),
                ZonemdAlgorithm::from_int(vnum(v, 2) as u8), vbytes(v, 3))),
        250 => AllRecordData::Tsig(Tsig::new(vname(v, 0), Time48::from_u64(vnum(v, 1)), vnum(v, 2) as u16, vbytes(v, 3),
                vnum(v, 4) as u16, TsigRcode::from_int(vnum(v, 5) as u16), vbytes(v, 6)).map_err(|_| ())?),
        257 => {
            let tag = domain::rdata::caa::CaaTag::new(vcs(v, 1)?).map_err(|_| ())?;
            AllRecordData::Caa(Caa::new(domain::rdata::caa::CaaFlags::new(vnum(v, 0) as u8), tag, vbytes(v, 2)))
        }
        _ => AllRecordData::Unknown(UnknownRecordData::from_octets(Rtype::from_int(t), vbytes(v, 0)).map_err(|_| ())?),
    })
}

fn wire_of<N: ToName + ?Sized>(n: &N) -> Vec<u8> {
    let mut w = vec![];
    for l in n.iter_labels() { let s = l.as_slice(); w.push(s.len() as u8); w.extend_from_slice(s); }
    w
}
fn nv<N: ToName + ?Sized>(n: &N) -> Val { Val::Name(wire_of(n)) }
fn bv<O: AsRef<[u8]> + ?Sized>(o: &O) -> Val { Val::Bytes(o.as_ref().to_vec()) }
fn num<T: Into<u64>>(x: T) -> Val { Val::Num(x.into()) }

/// Take a value apart with the public accessors. None = not a table type.
fn explode<O: AsRef<[u8]>, N: ToName>(d: &AllRecordData<O, N>) -> Option<Vec<Val>> {
    Some(match d {
        AllRecordData::A(x) => vec![Val::Bytes(x.addr().octets().to_vec())],
        AllRecordData::Ns(x) => vec![nv(x.nsdname())],
        AllRecordData::Md(x) => vec![nv(x.madname())],
        AllRecordData::Mf(x) => vec![nv(x.madname())],
        AllRecordData::Cname(x) => vec![nv(x.cname())],
        AllRecordData::Soa(x) => vec![nv(x.mname()), nv(x.rname()), num(x.serial().into_int()), num(x.refresh().as_secs()),
            num(x.retry().as_secs()), num(x.expire().as_secs()), num(x.minimum().as_secs())],
        AllRecordData::Mb(x) => vec![nv(x.madname())],
        AllRecordData::Mg(x) => vec![nv(x.madname())],
        AllRecordData::Mr(x) => vec![nv(x.newname())],
        AllRecordData::Null(x) => vec![Val::Bytes(x.data().as_ref().to_vec())],
        AllRecordData::Ptr(x) => vec![nv(x.ptrdname())],
        AllRecordData::Hinfo(x) => vec![Val::Bytes(x.cpu().as_slice().to_vec()), Val::Bytes(x.os().as_slice().to_vec())],
        AllRecordData::Minfo(x) => vec![nv(x.rmailbx()), nv(x.emailbx())],
        AllRecordData::Mx(x) => vec![num(x.preference()), nv(x.exchange())],
        AllRecordData::Txt(x) => vec![Val::Strs(x.iter_charstrs().map(|c| c.as_slice().to_vec()).collect())],
        AllRecordData::Rp(x) => vec![nv(x.mbox()), nv(x.txt())],
        AllRecordData::Aaaa(x) => vec![Val::Bytes(x.addr().octets().to_vec())],
        AllRecordData::Srv(x) => vec![num(x.priority()), num(x.weight()), num(x.port()), nv(x.target())],
        AllRecordData::Naptr(x) => vec![num(x.order()), num(x.preference()), Val::Bytes(x.flags().as_slice().to_vec()),
            Val::Bytes(x.services().as_slice().to_vec()), Val::Bytes(x.regexp().as_slice().to_vec()), nv(x.replacement())],
        AllRecordData::Dname(x) => vec![nv(x.dname())],
        AllRecordData::Ds(x) => vec![num(x.key_tag()), num(x.algorithm().to_int()), num(x.digest_type().to_int()), bv(x.digest())],
        AllRecordData::Sshfp(x) => vec![num(x.algorithm().to_int()), num(x.fingerprint_type().to_int()), bv(x.fingerprint())],
        AllRecordData::Rrsig(x) => vec![num(x.type_covered().to_int()), num(x.algorithm().to_int()), num(x.labels()),
            num(x.original_ttl().as_secs()), num(x.expiration().into_int()), num(x.inception().into_int()),
            num(x.key_tag()), nv(x.signer_name()), bv(x.signature())],
        AllRecordData::Dnskey(x) => vec![num(x.flags()), num(x.protocol()), num(x.algorithm().to_int()), bv(x.public_key())],
        AllRecordData::Nsec3param(x) => vec![num(x.hash_algorithm().to_int()), num(x.flags()), num(x.iterations()), Val::Bytes(x.salt().as_slice().to_vec())],
        AllRecordData::Tlsa(x) => vec![num(x.usage().to_int()), num(x.selector().to_int()), num(x.matching_type().to_int()), bv(x.data())],
        AllRecordData::Cds(x) => vec![num(x.key_tag()), num(x.algorithm().to_int()), num(x.digest_type().to_int()), bv(x.digest())],
        AllRecordData::Cdnskey(x) => vec![num(x.flags()), num(x.protocol()), num(x.algorithm().to_int()), bv(x.public_key())],
        AllRecordData::Openpgpkey(x) => vec![bv(x.key())],
        AllRecordData::Zonemd(x) => vec![num(x.serial().into_int()), num(x.scheme().to_int()), num(x.algorithm().to_int()), bv(x.digest())],
        AllRecordData::Tsig(x) => vec![nv(x.algorithm()), Val::Num(u64::from(x.time_signed())), num(x.fudge()), bv(x.mac()),
            num(x.original_id()), num(x.error().to_int()), bv(x.other())],
        AllRecordData::Caa(x) => vec![num(x.flags().bits()), Val::Bytes(x.tag().as_ref().to_vec()), bv(x.value())],
        AllRecordData::Unknown(x) => vec![bv(x.data())],
        _ => return None,
    })
}

fn tok(v: &Val) -> String {
    match v {
        Val::Num(n) => n.to_string(),
        Val::Bytes(b) => hex(b),
        Val::Name(w) => hex(w),
        Val::Strs(l) => format!("[{}]", l.iter().map(|s| hex(s)).collect::<Vec<_>>().join(",")),
    }
}
fn toks(v: &[Val]) -> String { v.iter().map(tok).collect::<Vec<_>>().join(" ") }

fn perr(e: &ParseError) -> &'static str { match e { ParseError::ShortInput => "Err short", ParseError::Form(_) => "Err form" } }

// ---------------------------------------------------------------- generators
fn label(r: &mut Rng, n: usize) -> Vec<u8> {
    (0..n).map(|_| match r.below(8) { 0 => r.u8(), 1 => b'A' + r.below(26) as u8, 2 => *r.pick(&[0u8, b'.', b' ', 0x40, 0x5b, 0x60, 0x7b, 0xc1, 0xff]),
                                      _ => b'a' + r.below(26) as u8 }).collect()
}
fn mkname(labels: &[Vec<u8>]) -> Vec<u8> {
    let mut w = vec![];
    for l in labels { w.push(l.len() as u8); w.extend_from_slice(l); }
    w.push(0);
    w
}
/// names from a small pool with case collisions, plus boundary shapes
fn gen_name(r: &mut Rng) -> Vec<u8> {
    const POOL: [&[&[u8]]; 10] = [&[], &[b"a"], &[b"A"], &[b"example", b"com"], &[b"EXAMPLE", b"com"], &[b"Www", b"Example", b"COM"],
        &[b"www", b"example", b"com"], &[b"mail", b"example", b"com"], &[b"ns1", b"Example", b"NET"], &[b"x", b"y", b"z"]];
    match r.below(10) {
        0..=5 => mkname(&r.pick(&POOL).iter().map(|l| l.to_vec()).collect::<Vec<_>>()),
        6 => { let n = 1 + r.below(4) as usize; let ls: Vec<Vec<u8>> = (0..n).map(|_| { let k = 1 + r.below(12) as usize; label(r, k) }).collect(); mkname(&ls) }
        7 => mkname(&[label(r, 63)]),
        8 => { // maximal name: 255 octets
            let mut ls = vec![label(r, 63), label(r, 63), label(r, 63), label(r, 61)];
            if r.chance(1, 2) { ls = (0..127).map(|_| label(r, 1)).collect(); }
            mkname(&ls) }
        _ => { let n = 1 + r.below(30) as usize; let ls: Vec<Vec<u8>> = (0..n).map(|_| { let k = 1 + r.below(7) as usize; label(r, k) }).collect(); mkname(&ls) }
    }
}
fn gen_len(r: &mut Rng, big: bool) -> usize {
    match r.below(12) { 0 => 0, 1 => 1, 2 => 255, 3 => 256, 4 => 254, 5 if big => 1000 + r.below(3000) as usize, _ => r.below(40) as usize }
}
fn gen_str(r: &mut Rng, alnum: bool, allow_bad: bool) -> Vec<u8> {
    let n = match r.below(10) { 0 => 0, 1 => 255, 2 if allow_bad => 256, 3 => 1, _ => r.below(20) as usize };
    if alnum {
        let mut s: Vec<u8> = (0..n).map(|_| *r.pick(b"abcxyzABCXYZ0189")).collect();
        if allow_bad && n > 0 && r.chance(1, 8) { let i = r.below(n as u64) as usize; s[i] = *r.pick(&[b'-', b' ', 0x2f, 0x3a, 0x40, 0x5b, 0x60, 0x7b, 0x80]); }
        s
    } else { r.bytes(n) }
}
fn gen_num(r: &mut Rng, w: u32) -> u64 {
    let max = if w == 8 { u64::MAX } else { (1u64 << (8 * w)) - 1 };
    match r.below(6) { 0 => 0, 1 => max, 2 => 1, 3 => max >> 1, 4 => 1u64 << (8 * w - 8), _ => r.next() & max }
}
fn gen_value(r: &mut Rng, t: u16, allow_bad: bool) -> Vec<Val> {
    fields(t).iter().map(|f| match *f {
        F::Num(w) => Val::Num(gen_num(r, w)),
        F::Fix(k) => Val::Bytes(r.bytes(k)),
        F::Name => Val::Name(gen_name(r)),
        F::Str(a) => Val::Bytes(gen_str(r, a, allow_bad)),
        F::Strs => { let n = match r.below(8) { 0 if allow_bad => 0, 1 => 1, 2 => 30, _ => 1 + r.below(5) as usize };
                     Val::Strs((0..n).map(|_| gen_str(r, false, allow_bad)).collect()) }
        F::Len16 => { let n = gen_len(r, true); Val::Bytes(r.bytes(n)) }
        F::Rest(min) => { let n = if min > 0 && !(allow_bad && r.chance(1, 6)) { min + gen_len(r, true) } else { gen_len(r, true) }; Val::Bytes(r.bytes(n)) }
    }).collect()
}
/// length of the wire form of a value (generator arithmetic)
fn vlen(fs: &[F], v: &[Val]) -> usize {
    fs.iter().zip(v).map(|(f, x)| match (f, x) {
        (F::Num(w), _) => *w as usize,
        (F::Fix(_), Val::Bytes(b)) | (F::Rest(_), Val::Bytes(b)) => b.len(),
        (F::Name, Val::Name(w)) => w.len(),
        (F::Str(_), Val::Bytes(b)) => b.len() + 1,
        (F::Strs, Val::Strs(l)) => l.iter().map(|s| s.len() + 1).sum(),
        (F::Len16, Val::Bytes(b)) => b.len() + 2,
        _ => 0 }).sum()
}
/// resize the last unbounded field so that the total is `total`
fn fit_total(r: &mut Rng, t: u16, v: &mut Vec<Val>, total: usize) -> bool {
    let fs = fields(t);
    let idx = match fs.iter().rposition(|f| matches!(f, F::Rest(_) | F::Len16 | F::Strs)) { Some(i) => i, None => return false };
    let cur = vlen(&fs, v);
    match (&fs[idx], &mut v[idx]) {
        (F::Strs, Val::Strs(l)) => {
            l.clear();
            let rest = total.saturating_sub(cur - 0);
            let _ = rest;
            // rebuild: strings of 255 octets (256 on the wire) then one that fits
            let base = { let mut vv = v.clone(); vv[idx] = Val::Strs(vec![]); vlen(&fs, &vv) };
            let mut left = total - base;
            let mut out = vec![];
            while left > 0 { let k = left.min(256); out.push(r.bytes(k - 1)); left -= k; }
            v[idx] = Val::Strs(out);
            true
        }
        (_, Val::Bytes(b)) => {
            let other = cur - b.len();
            if total < other { return false; }
            *b = r.bytes(total - other);
            true
        }
        _ => false,
    }
}

// ---------------------------------------------------------------- hand encoder (input generation)
#[derive(Clone, Copy, PartialEq)]
enum NameEnc { Inline, Pointer, Partial }

/// Encode a value field by field; names either inline, as a pointer to a copy
/// that is placed in `prefix`, or first label inline + pointer to the rest.
fn encode(fs: &[F], v: &[Val], prefix: &mut Vec<u8>, r: &mut Rng, compress: bool) -> Vec<u8> {
    let mut out = vec![];
    for (f, x) in fs.iter().zip(v) {
        match (f, x) {
            (F::Num(w), Val::Num(n)) => { for i in (0..*w).rev() { out.push((n >> (8 * i)) as u8); } }
            (F::Fix(_), Val::Bytes(b)) | (F::Rest(_), Val::Bytes(b)) => out.extend_from_slice(b),
            (F::Str(_), Val::Bytes(b)) => { out.push(b.len() as u8); out.extend_from_slice(b); }
            (F::Strs, Val::Strs(l)) => { for s in l { out.push(s.len() as u8); out.extend_from_slice(s); } }
            (F::Len16, Val::Bytes(b)) => { out.push((b.len() >> 8) as u8); out.push(b.len() as u8); out.extend_from_slice(b); }
            (F::Name, Val::Name(w)) => {
                let enc = if !compress { NameEnc::Inline } else { *r.pick(&[NameEnc::Inline, NameEnc::Pointer, NameEnc::Partial]) };
                let at = prefix.len();
                if enc == NameEnc::Inline || at + w.len() >= 0x3fff { out.extend_from_slice(w); }
                else if enc == NameEnc::Pointer || w.len() == 1 {
                    prefix.extend_from_slice(w);
                    out.push(0xc0 | (at >> 8) as u8); out.push(at as u8);
                } else {
                    let first = 1 + w[0] as usize;
                    prefix.extend_from_slice(&w[first..]);
                    out.extend_from_slice(&w[..first]);
                    out.push(0xc0 | (at >> 8) as u8); out.push(at as u8);
                }
            }
            _ => panic!("shape"),
        }
    }
    out
}

// ---------------------------------------------------------------- implementation runs
fn compose_plain<D: ComposeRecordData>(d: &D) -> Result<Vec<u8>, String> {
    catch_mut(|| { let mut t = Vec::new(); d.compose_rdata(&mut t).unwrap(); t })
}
fn compose_canon<D: ComposeRecordData>(d: &D) -> Result<Vec<u8>, String> {
    catch_mut(|| { let mut t = Vec::new(); d.compose_canonical_rdata(&mut t).unwrap(); t })
}
fn show_rdlen(r: &Result<Option<u16>, String>) -> String {
    match r { Ok(Some(n)) => n.to_string(), Ok(None) => "None".into(), Err(_) => "Panic".into() }
}

/// parse the RDATA at [pos, lim) of msg the way the record framing does
fn parse_at<'a>(t: u16, msg: &'a [u8], pos: usize, lim: usize)
    -> Result<Result<AllRecordData<&'a [u8], ParsedName<&'a [u8]>>, ParseError>, String> {
    catch_mut(|| {
        let mut p = Parser::from_ref(msg);
        p.advance(pos).map_err(|_| ParseError::ShortInput)?;
        let mut sub = p.parse_parser(lim - pos)?;
        let d = AllRecordData::parse_any_rdata(Rtype::from_int(t), &mut sub)?;
        if sub.remaining() > 0 { return Err(ParseError::form_error("trailing data")); }
        Ok(d)
    })
}

fn lower_names(t: u16, v: &[Val]) -> Vec<Val> {
    if !RFC_LOWER.contains(&t) { return v.to_vec(); }
    v.iter().map(|x| match x {
        Val::Name(w) => {
            // lower-case label octets only (length octets are <= 63 and unaffected by the ASCII map anyway)
            let mut o = vec![]; let mut i = 0;
            while i < w.len() { let k = w[i] as usize; o.push(w[i]); for j in 0..k { o.push(w[i + 1 + j].to_ascii_lowercase()); } i += 1 + k; }
            Val::Name(o)
        }
        y => y.clone() }).collect()
}

fn compose_case(out: &mut Out, r: &mut Rng, t: u16, v: &[Val], kind: &str) {
    let tn = tname(t);
    let case = format!("compose {} {}", t, toks(v));
    out.begin(&case);
    let fs = fields(t);
    let total = vlen(&fs, v);
    let built = match catch_mut(|| build(t, v)) {
        Ok(Ok(b)) => b,
        Ok(Err(())) => { out.case(&case, "Reject", false, kind); return; }
        Err(e) => { out.case(&case, "Panic", true, kind); out.check(false, &format!("ctor_panic_{}", tn), &case, &e); return; }
    };
    let wire = compose_plain(&built);
    let rl = catch_mut(|| built.rdlen(false));
    let rlc = catch_mut(|| built.rdlen(true));
    let canon = compose_canon(&built);
    let (wire, canon) = match (wire, canon) {
        (Ok(w), Ok(c)) => (w, c),
        _ => { out.case(&case, "Panic", true, kind); out.check(false, &format!("compose_panic_{}", tn), &case, "compose panicked"); return; }
    };
    let obs = format!("{} {} {} {}", hex(&wire), show_rdlen(&rl), show_rdlen(&rlc), hex(&canon));
    out.case(&case, &obs, true, kind);

    // ---- property oracle
    if total > 65535 {
        // a value that cannot be RDATA was accepted by the constructor
        out.check(false, &format!("ctor_long_{}", tn), &format!("compose {} (total {} octets)", t, total),
                  &format!("constructor accepted {} octets of RDATA; rdlen -> {}", wire.len(), show_rdlen(&rl)));
        return;
    }
    out.check(rl == Ok(Some(wire.len() as u16)), &format!("rdlen_{}", tn), &case, &format!("rdlen {} but {} octets written", show_rdlen(&rl), wire.len()));
    match &rlc { Ok(Some(n)) => out.check(*n as usize == wire.len(), &format!("rdlen_{}", tn), &case, "rdlen(true) differs from octets written"),
                 Ok(None) => {}, Err(_) => out.check(false, &format!("rdlen_{}", tn), &case, "rdlen(true) panicked") }
    // parse back
    match parse_at(t, &wire, 0, wire.len()) {
        Ok(Ok(p)) => {
            let ev = explode(&p);
            out.check(ev.as_deref() == Some(v), &format!("roundtrip_{}", tn), &case, &format!("parsed back {}", ev.map(|e| toks(&e)).unwrap_or_default()));
            out.check(p == built, &format!("roundtrip_{}", tn), &case, "parsed value != built value (PartialEq)");
        }
        Ok(Err(e)) => {
            let short_rest = fs.iter().zip(v).any(|(f, x)| matches!((f, x), (F::Rest(m), Val::Bytes(b)) if b.len() < *m));
            let cls = if short_rest { format!("ctor_reparse_{}", tn) } else { format!("roundtrip_{}", tn) };
            out.check(false, &cls, &case, &format!("composed RDATA does not parse: {}", perr(&e)));
        }
        Err(e) => out.check(false, &format!("roundtrip_{}", tn), &case, &format!("parse panicked: {}", e)),
    }
    // canonical form: wire form of the value with the RFC-listed names lower-cased
    let lv = lower_names(t, v);
    let expect = match build(t, &lv) { Ok(b) => compose_plain(&b).unwrap_or_default(), Err(()) => vec![] };
    out.check(canon == expect, &format!("canonical_{}", tn), &case, &format!("canonical {} expected {}", hex(&canon), hex(&expect)));
    // through a message with a compressor
    if total < 60000 { message_path(out, r, t, v, &built, &case); }
}

fn message_path(out: &mut Out, r: &mut Rng, t: u16, v: &[Val], built: &Built, case: &str) {
    let tn = tname(t);
    let owner: DN = Name::from_octets(gen_name(r)).unwrap();
    let which = r.below(4);
    let res = catch_mut(|| -> Result<Vec<u8>, String> {
        macro_rules! go { ($target:expr, $fin:expr) => {{
            let mb = MessageBuilder::from_target($target).map_err(|_| "from_target".to_string())?;
            let mut q = mb.question();
            q.push((&owner, Rtype::from_int(t))).map_err(|_| "push q".to_string())?;
            let mut a = q.answer();
            a.push((&owner, Class::IN, Ttl::from_secs(300), built)).map_err(|_| "push".to_string())?;
            a.push((&owner, Class::IN, Ttl::from_secs(300), built)).map_err(|_| "push".to_string())?;
            Ok($fin(a.finish()))
        }}}
        match which {
            0 => go!(Vec::<u8>::new(), |x: Vec<u8>| x),
            1 => go!(StaticCompressor::new(Vec::<u8>::new()), |x: StaticCompressor<Vec<u8>>| x.into_target()),
            2 => go!(TreeCompressor::new(Vec::<u8>::new()), |x: TreeCompressor<Vec<u8>>| x.into_target()),
            _ => go!(HashCompressor::new(Vec::<u8>::new()), |x: HashCompressor<Vec<u8>>| x.into_target()),
        }
    });
    let bytes = match res {
        Ok(Ok(b)) => b,
        Ok(Err(_)) => return,   // did not fit / push refused: nothing to check
        Err(e) => { out.check(false, &format!("compose_panic_{}", tn), case, &format!("message build panicked: {}", e)); return; }
    };
    let cls_r = format!("roundtrip_{}", tn);
    let r2 = catch_mut(|| -> Result<(), String> {
        let msg = Message::from_octets(&bytes[..]).map_err(|_| "short message".to_string())?;
        let ans = msg.answer().map_err(|e| format!("answer: {}", e))?;
        let mut n = 0;
        for rec in ans {
            let rec = rec.map_err(|e| format!("record: {}", e))?;
            let rr: Record<_, AllRecordData<_, ParsedName<_>>> = rec.into_any_record().map_err(|e| format!("rdata: {}", e))?;
            let ev = explode(rr.data());
            if ev.as_deref() != Some(v) { return Err(format!("record {} parsed back {}", n, ev.map(|e| toks(&e)).unwrap_or_default())); }
            if rr.data() != built { return Err("parsed value != built value (PartialEq)".into()); }
            // accepted (possibly compressed) RDATA re-composes to octets that parse to an equal value
            let again = compose_plain(rr.data()).map_err(|e| format!("recompose panicked: {}", e))?;
            match parse_at(t, &again, 0, again.len()) {
                Ok(Ok(p)) => if explode(&p).as_deref() != Some(v) { return Err("recomposed RDATA parses to a different value".into()); },
                _ => return Err("recomposed RDATA does not parse".into()),
            }
            let rl = rr.data().rdlen(false);
            if rl != Some(again.len() as u16) { return Err(format!("rdlen {:?} of parsed value but {} octets written", rl, again.len())); }
            n += 1;
        }
        if n != 2 { return Err(format!("{} records", n)); }
        Ok(())
    });
    match r2 { Ok(Ok(())) => out.check(true, &cls_r, case, ""),
               Ok(Err(e)) => out.check(false, &cls_r, &format!("{} via message (target {})", case, which), &e),
               Err(e) => out.check(false, &cls_r, &format!("{} via message (target {})", case, which), &format!("panic: {}", e)) }
    // RDLENGTH written by compose_len_rdata == octets between the records
    let r3 = catch_mut(|| -> Result<(), String> {
        let msg = Message::from_octets(&bytes[..]).map_err(|_| "short".to_string())?;
        let mut p = Parser::from_ref(&bytes[..]);
        p.advance(12).map_err(|_| "hdr".to_string())?;
        let _ = msg;
        ParsedName::skip(&mut p).map_err(|_| "qname".to_string())?;
        p.advance(4).map_err(|_| "q".to_string())?;
        for _ in 0..2 {
            ParsedName::skip(&mut p).map_err(|_| "owner".to_string())?;
            p.advance(8).map_err(|_| "fixed".to_string())?;
            let rdlen = p.parse_u16_be().map_err(|_| "rdlen".to_string())? as usize;
            p.advance(rdlen).map_err(|_| format!("RDLENGTH {} runs past the message", rdlen))?;
        }
        if p.remaining() != 0 { return Err(format!("{} octets after the last record: RDLENGTH too small", p.remaining())); }
        Ok(())
    });
    match r3 { Ok(Ok(())) => out.check(true, &format!("rdlen_{}", tn), case, ""),
               Ok(Err(e)) => out.check(false, &format!("rdlen_{}", tn), &format!("{} via message (target {})", case, which), &e),
               Err(e) => out.check(false, &format!("rdlen_{}", tn), case, &format!("panic: {}", e)) }
}

fn parse_case(out: &mut Out, t: u16, msg: &[u8], pos: usize, lim: usize, kind: &str) {
    let tn = tname(t);
    let case = format!("parse {} {} {} {}", t, hex(msg), pos, lim);
    out.begin(&case);
    let res = parse_at(t, msg, pos, lim);
    let (obs, nontrivial) = match &res {
        Ok(Ok(d)) => match explode(d) { Some(v) => (format!("Ok {}", toks(&v)).trim_end().to_string(), true), None => ("NoSchema".to_string(), false) },
        Ok(Err(e)) => (perr(e).to_string(), matches!(e, ParseError::Form(_))),
        Err(_) => ("Panic".to_string(), true),
    };
    out.case(&case, &obs, nontrivial, kind);
    match res {
        Err(e) => out.check(false, &format!("parse_panic_{}", tn), &case, &e),
        Ok(Err(_)) => out.check(true, &format!("recompose_{}", tn), &case, ""),
        Ok(Ok(d)) => {
            let v = explode(&d);
            let again = compose_plain(&d);
            match again {
                Err(e) => out.check(false, &format!("recompose_{}", tn), &case, &format!("compose of accepted value panicked: {}", e)),
                Ok(w) => {
                    if w.len() > 65535 { out.check(true, &format!("recompose_{}", tn), &case, ""); return; }
                    match parse_at(t, &w, 0, w.len()) {
                        Ok(Ok(p)) => { out.check(explode(&p) == v && p == d, &format!("recompose_{}", tn), &case, "re-composed octets parse to a different value");
                                       let rl = catch_mut(|| d.rdlen(false));
                                       out.check(rl == Ok(Some(w.len() as u16)), &format!("rdlen_{}", tn), &case, &format!("rdlen {} of accepted value but {} octets written", show_rdlen(&rl), w.len())); }
                        Ok(Err(e)) => out.check(false, &format!("recompose_{}", tn), &case, &format!("re-composed octets do not parse: {}", perr(&e))),
                        Err(e) => out.check(false, &format!("recompose_{}", tn), &case, &format!("panic: {}", e)),
                    }
                }
            }
        }
    }
}

/// parse cases derived from one value
fn parse_cases_for(out: &mut Out, r: &mut Rng, t: u16, v: &[Val]) {
    let fs = fields(t);
    let compress = r.chance(2, 3);
    let mut prefix = r.bytes(r.below(6) as usize);
    let rd = encode(&fs, v, &mut prefix, r, compress);
    if rd.len() > 5000 { return; }
    let mut msg = prefix.clone();
    let pos = msg.len();
    msg.extend_from_slice(&rd);
    let lim = msg.len();
    let tail = r.bytes(r.below(4) as usize);
    msg.extend_from_slice(&tail);
    parse_case(out, t, &msg, pos, lim, if compress { "parse_compressed" } else { "parse_plain" });
    match r.below(8) {
        0 if lim > pos => { let k = 1 + r.below((lim - pos).min(6) as u64) as usize; parse_case(out, t, &msg, pos, lim - k, "parse_truncated"); }
        1 if lim < msg.len() => parse_case(out, t, &msg, pos, msg.len(), "parse_trailing"),
        2 if lim > pos => { let mut m = msg.clone(); let i = pos + r.below((lim - pos) as u64) as usize; m[i] ^= 1 << r.below(8); parse_case(out, t, &m, pos, lim, "parse_bitflip"); }
        3 if lim > pos => { let mut m = msg.clone(); let i = pos + r.below((lim - pos) as u64) as usize; m[i] = *r.pick(&[0xc0u8, 0xc1, 0xff, 0x40, 0x80, 0x00, 0x3f]); parse_case(out, t, &m, pos, lim, "parse_bytemut"); }
        4 => { let n = r.below(24) as usize; let m = r.bytes(n); let p = r.below(n as u64 + 1) as usize; parse_case(out, t, &m, p, n, "parse_random"); }
        5 if pos > 0 => parse_case(out, t, &msg, pos - 1, lim, "parse_shifted"),
        _ => {}
    }
}

fn boundary_cases(out: &mut Out, r: &mut Rng, t: u16) {
    // largest value that fits, one more than fits
    for total in [65535usize, 65536] {
        let mut v = gen_value(r, t, false);
        // keep the other variable parts small
        if !fit_total(r, t, &mut v, total) { return; }
        if vlen(&fields(t), &v) != total { continue; }
        compose_case(out, r, t, &v, if total == 65535 { "compose_max" } else { "compose_overlong" });
    }
}

// ---------------------------------------------------------------- oracle-only types
mod irregular {
    use super::*;
    pub fn run(_out: &mut Out, _r: &mut Rng, _n: u64) {}
}

fn main() {
    let a = args();
    let mut out = Out::new(&a, "C05", 60);
    let mut r = Rng::new(a.seed);
    let n = (if a.thorough { 1500 } else { 110 }) * a.scale;

    // corpus: witnesses of the _refuted lemmas and fixed boundary cases
    compose_case(&mut out, &mut r, 52, &[Val::Num(0), Val::Num(0), Val::Num(0), Val::Bytes(vec![0; 65533])], "corpus");
    compose_case(&mut out, &mut r, 63, &[Val::Num(1), Val::Num(1), Val::Num(1), Val::Bytes(vec![7; 11])], "corpus");
    compose_case(&mut out, &mut r, 15, &[Val::Num(10), Val::Name(mkname(&[b"mx".to_vec(), b"A".to_vec()]))], "corpus");
    parse_case(&mut out, 15, &[9, 1, 65, 0, 0, 10, 2, 109, 120, 192, 1], 4, 11, "corpus");
    parse_case(&mut out, 16, &[], 0, 0, "corpus");
    parse_case(&mut out, 5, &[0xc0, 0x00], 0, 2, "corpus");
    parse_case(&mut out, 65280, &[1, 2, 3], 0, 3, "corpus");

    let mut types: Vec<u16> = REGULAR.iter().map(|x| x.0).collect();
    types.extend_from_slice(&[65280, 99, 11, 255]);   // unknown types
    for &t in &types {
        boundary_cases(&mut out, &mut r, t);
        for i in 0..n {
            let v = gen_value(&mut r, t, i % 5 == 4);
            compose_case(&mut out, &mut r, t, &v, "compose");
            let v2 = gen_value(&mut r, t, false);
            parse_cases_for(&mut out, &mut r, t, &v2);
        }
    }
    irregular::run(&mut out, &mut r, n);
    out.finish(&[]);
}
