//! C09 -- zone readers see one committed version; commits are atomic, aborts
//! invisible; writers are serialised; walk enumerates the reader's version.
//!
//! T2 (a) `cell ...`: operation sequences on `Versioned<u32>` (through the
//!        cfg(domain_verif) hook) -- observation after every operation = the
//!        stored entry list (from `Debug`) and `get` at a set of probe versions,
//!        incl. version numbers around the 2^32 wrap and 2^31 apart.
//!    (b) `zt ...`: API-call traces (ZoneBuilder content incl. zone cuts and CNAMEs;
//!        reader acquire / query / walk / release; writer write().await (also
//!        queued behind a live writer) / open / update_child* + update_rrset /
//!        remove_rrset / remove_all / make_cname / make_zone_cut / make_regular /
//!        commit / drop; operations through a node handle kept beyond its
//!        session) over names up to three labels below the apex incl. wildcards
//!        at every level -- observation = the answers of the trace's queries
//!        (incl. DS, ANY, referrals) and walks.
//! Oracle (independent of the model): every held reader keeps observing the
//! snapshot (all (name,type) answers + sorted walk) it saw when it was acquired,
//! after every writer step; a fresh reader sees exactly the committed content
//! (never uncommitted data, all of a commit's data at once, the old content after
//! an abort); walk = the committed record set (zone cuts end the descent); an ANY
//! answer is an RRset of the reader's version; a second `write().await` stays
//! pending while a writer exists and is granted afterwards.
//! Supporting only (thorough tier): a real-thread stress run, 8 readers + 1 writer.
use bytes::Bytes;
use domain::base::iana::{Class, Rcode, Rtype};
use domain::base::name::{Label, Name, ParsedName, ToLabelIter, ToName};
use domain::base::net::{Ipv4Addr, Ipv6Addr};
use domain::base::{Message, MessageBuilder, Serial, Ttl};
use domain::base::iana::{DigestAlgorithm, SecurityAlgorithm};
use domain::base::Record;
use domain::rdata::{Aaaa, Cname, Ds, Ns, Soa, Txt, ZoneRecordData, A};
use domain::zonetree::types::ZoneCut;
use domain::zonetree::verif_hooks::{Version, VersionMarker, Versioned, ZoneVersions};
use domain::zonetree::{ReadableZone, Rrset, SharedRr, SharedRrset, WritableZone, WritableZoneNode, Zone, ZoneBuilder};
use dv_harness::*;
use std::collections::BTreeMap;
use std::sync::{Arc, Mutex};
use std::time::Duration;

const APEX: &str = "zone.test.";
const T_A: u16 = 1;
const T_NS: u16 = 2;
const T_DS: u16 = 43;
const T_ANY: u16 = 255;
const T_CNAME: u16 = 5;
const T_SOA: u16 = 6;
const T_TXT: u16 = 16;
const T_AAAA: u16 = 28;

// ---------------------------------------------------------------- Versioned<u32> through the hook

/// `Version` has no public constructor from a number (only `default()` and
/// `next()`); it is a newtype over `Serial(pub u32)`.  The layout assumption is
/// verified at start-up by `ver_selftest` against default()/next().
fn ver(x: u32) -> Version {
    unsafe { std::mem::transmute::<u32, Version>(x) }
}
fn ver_selftest() -> bool {
    let mut v = Version::default();
    for i in 0..5u32 {
        if v != ver(i) || format!("{:?}", v) != format!("Version(Serial({}))", i) { return false; }
        v = v.next();
    }
    format!("{:?}", ver(0xFFFF_FFFF).next()) == "Version(Serial(0))"
}

/// Entry list of a Versioned<u32> from its Debug output, in Vec order.
fn entries(v: &Versioned<u32>) -> Vec<(u32, Option<u32>)> {
    let s = format!("{:?}", v);
    let mut out = vec![];
    let mut rest = s.as_str();
    while let Some(p) = rest.find("Serial(") {
        rest = &rest[p + 7..];
        let e = rest.find(')').unwrap();
        let ver: u32 = rest[..e].parse().unwrap();
        rest = &rest[e..];
        let p2 = rest.find(", ").unwrap();
        rest = &rest[p2 + 2..];
        if rest.starts_with("None") { out.push((ver, None)); }
        else if rest.starts_with("Some(") {
            let e = rest.find(')').unwrap();
            out.push((ver, Some(rest[5..e].parse().unwrap())));
        } else { panic!("unparsed Debug of Versioned: {}", s); }
    }
    out
}
fn show_entries(e: &[(u32, Option<u32>)]) -> String {
    if e.is_empty() { return ".".into(); }
    e.iter().map(|(v, x)| format!("{}:{}", v, x.map_or("-".to_string(), |x| x.to_string()))).collect::<Vec<_>>().join(",")
}

#[derive(Clone, Copy, Debug)]
enum COp { Upd(u32, u32), Rem(u32), Rb(u32) }
impl COp {
    fn word(&self) -> String { match self { COp::Upd(v, x) => format!("u:{}:{}", v, x), COp::Rem(v) => format!("r:{}", v), COp::Rb(v) => format!("b:{}", v) } }
    fn apply(&self, c: &mut Versioned<u32>) { match *self { COp::Upd(v, x) => c.update(ver(v), x), COp::Rem(v) => c.remove(ver(v)), COp::Rb(v) => c.rollback(ver(v)) } }
}

fn cell_case(out: &mut Out, ops: &[COp], probes: &[u32], kind: &str) {
    let case = format!("cell p:{} {}", probes.iter().map(|p| p.to_string()).collect::<Vec<_>>().join(","),
        ops.iter().map(|o| o.word()).collect::<Vec<_>>().join(" "));
    out.begin(&case);
    let ops2 = ops.to_vec(); let probes2 = probes.to_vec();
    let r = catch(move || {
        let mut c = Versioned::<u32>::new();
        let mut parts = vec![];
        for o in &ops2 {
            o.apply(&mut c);
            let g: Vec<String> = probes2.iter().map(|p| c.get(ver(*p)).map_or("-".to_string(), |x| x.to_string())).collect();
            parts.push(format!("{}/{}", show_entries(&entries(&c)), g.join(",")));
        }
        parts.join(" | ")
    });
    let obs = match r { Ok(s) => s, Err(_) => "Panic".into() };
    out.check(obs != "Panic", "versioned_panic", &case, "");
    out.case(&case, &obs, ops.len() >= 3, kind);
}

/// Protocol-shaped histories on one cell: successive writer sessions at
/// version = current.next(), each a random mix of update/remove/rollback at that
/// version, ended by commit or rollback.  Oracle: committed versions keep their
/// value during and after every session; rollback restores the exact entry list;
/// after a commit the new version reads the last written value.
fn cell_sessions(out: &mut Out, r: &mut Rng, base: u32, n_sessions: usize) {
    let mut c = Versioned::<u32>::new();
    let mut cur = base;
    let mut ops: Vec<COp> = vec![];
    let mut committed: Vec<(u32, Option<u32>)> = vec![(cur, None)]; // version -> expected value
    let mut probes: Vec<u32> = vec![cur];
    let mut val = 1u32;
    let mut fails: Vec<(String, String)> = vec![];
    for _ in 0..n_sessions {
        let w = cur.wrapping_add(1);
        let before = entries(&c);
        let mut expect = committed.last().unwrap().1; // value new readers would see
        for _ in 0..r.below(6) {
            let o = match r.below(8) { 0..=3 => { val += 1; COp::Upd(w, val) } 4..=6 => COp::Rem(w), _ => COp::Rb(w) };
            o.apply(&mut c);
            ops.push(o);
            match o { COp::Upd(_, x) => expect = Some(x), COp::Rem(_) => expect = None, COp::Rb(_) => expect = committed.last().unwrap().1 }
            for (v, x) in &committed {
                if c.get(ver(*v)).copied() != *x { fails.push(("cell_snapshot_changed".into(), format!("get {} = {:?} expected {:?}", v, c.get(ver(*v)), x))); }
            }
            if c.get(ver(w)).copied() != expect { fails.push(("cell_write_value".into(), format!("get {} = {:?} expected {:?}", w, c.get(ver(w)), expect))); }
        }
        if r.chance(1, 2) {
            cur = w;
            committed.push((w, expect));
            probes.push(w);
        } else {
            let o = COp::Rb(w);
            o.apply(&mut c);
            ops.push(o);
            if entries(&c) != before { fails.push(("cell_rollback_not_exact".into(), format!("{} vs {}", show_entries(&entries(&c)), show_entries(&before)))); }
        }
        for (v, x) in &committed {
            if c.get(ver(*v)).copied() != *x { fails.push(("cell_snapshot_changed".into(), format!("after session: get {} = {:?} expected {:?}", v, c.get(ver(*v)), x))); }
        }
    }
    probes.push(cur.wrapping_add(1));
    let case = format!("sessions base={} {}", base, ops.iter().map(|o| o.word()).collect::<Vec<_>>().join(" "));
    out.check(fails.iter().all(|f| f.0 != "cell_snapshot_changed"), "cell_snapshot_changed", &case, &fails.iter().find(|f| f.0 == "cell_snapshot_changed").map_or(String::new(), |f| f.1.clone()));
    out.check(fails.iter().all(|f| f.0 != "cell_rollback_not_exact"), "cell_rollback_not_exact", &case, &fails.iter().find(|f| f.0 == "cell_rollback_not_exact").map_or(String::new(), |f| f.1.clone()));
    out.check(fails.iter().all(|f| f.0 != "cell_write_value"), "cell_write_value", &case, &fails.iter().find(|f| f.0 == "cell_write_value").map_or(String::new(), |f| f.1.clone()));
    if !ops.is_empty() { cell_case(out, &ops, &probes, "cell_sessions"); }
}

fn cell_version(r: &mut Rng, base: u32) -> u32 {
    match r.below(10) {
        0..=5 => base.wrapping_add(r.below(6) as u32),
        6 => base.wrapping_add(0x8000_0000).wrapping_add(r.below(3) as u32).wrapping_sub(1),
        7 => base.wrapping_sub(1 + r.below(3) as u32),
        8 => *r.pick(&[0u32, 1, 0xFFFF_FFFF, 0xFFFF_FFFE, 0x7FFF_FFFF, 0x8000_0000]),
        _ => r.u32(),
    }
}

// ---------------------------------------------------------------- ZoneVersions through the hook

#[derive(Clone, Copy, Debug)]
enum VOp { Commit, Acquire(u32), Release(u32), Clean }
impl VOp {
    fn word(&self) -> String { match self { VOp::Commit => "c".into(), VOp::Acquire(s) => format!("a:{}", s), VOp::Release(s) => format!("r:{}", s), VOp::Clean => "k".into() } }
}
fn ver_num(v: Version) -> u32 { let s = format!("{:?}", v); s["Version(Serial(".len()..s.len() - 2].parse().unwrap() }
/// versions listed in `all`, from the Debug output
fn all_versions(z: &ZoneVersions) -> Vec<u32> {
    let s = format!("{:?}", z);
    let p = s.find("all: [").expect("Debug of ZoneVersions");
    let mut rest = &s[p..];
    let mut out = vec![];
    while let Some(q) = rest.find("Serial(") {
        rest = &rest[q + 7..];
        let e = rest.find(')').unwrap();
        out.push(rest[..e].parse().unwrap());
        rest = &rest[e..];
    }
    out
}
/// commit = publish_new_zone_version: update_current(next) then push_version(next, marker);
/// a reader clones `current` as ZoneApex::read does.  Oracle: the current version and
/// every version some reader holds stay listed; a cleaning removes exactly the
/// versions nobody holds and returns one of the removed versions (none iff nothing
/// was removed).
fn versions_case(out: &mut Out, ops: &[VOp], kind: &str) {
    let case = format!("zv {}", ops.iter().map(|o| o.word()).collect::<Vec<_>>().join(" "));
    out.begin(&case);
    let ops2 = ops.to_vec();
    let r = catch(move || {
        let mut z = ZoneVersions::default();
        let mut readers: BTreeMap<u32, Vec<(Version, Arc<VersionMarker>)>> = BTreeMap::new();
        let mut parts = vec![];
        let mut fails: Vec<(&'static str, String)> = vec![];
        for o in &ops2 {
            let before = all_versions(&z);
            let mut res: Option<Option<u32>> = None;
            match o {
                VOp::Commit => { let v = z.current().0.next(); let m = z.update_current(v); z.push_version(v, m); }
                VOp::Acquire(s) => { let c = z.current().clone(); readers.entry(*s).or_default().push(c); }
                VOp::Release(s) => { readers.remove(s); }
                VOp::Clean => { res = Some(z.clean_versions().map(ver_num)); }
            }
            let all = all_versions(&z);
            let held: Vec<u32> = readers.values().flatten().map(|(v, _)| ver_num(*v)).collect();
            let cur = ver_num(z.current().0);
            if !all.contains(&cur) { fails.push(("current_version_cleaned", format!("after {}: current {} not in {:?}", o.word(), cur, all))); }
            for h in &held { if !all.contains(h) { fails.push(("held_version_cleaned", format!("after {}: reader holds {} but all = {:?}", o.word(), h, all))); } }
            if let Some(r0) = res {
                let want: Vec<u32> = before.iter().copied().filter(|v| *v == cur || held.contains(v)).collect();
                if all != want { fails.push(("clean_wrong_set", format!("kept {:?}, alive were {:?}", all, want))); }
                let removed: Vec<u32> = before.iter().copied().filter(|v| !all.contains(v)).collect();
                if r0.is_none() != removed.is_empty() || r0.map_or(false, |m| !removed.contains(&m)) { fails.push(("clean_wrong_result", format!("result {:?}, removed {:?}", r0, removed))); }
            }
            let a = if all.is_empty() { ".".to_string() } else { all.iter().map(|v| v.to_string()).collect::<Vec<_>>().join(",") };
            parts.push(match res { None => a, Some(r0) => format!("{}=>{}", a, r0.map_or("-".to_string(), |m| m.to_string())) });
        }
        (parts.join(" | "), fails)
    });
    match r {
        Ok((obs, fails)) => {
            for c in ["current_version_cleaned", "held_version_cleaned", "clean_wrong_set", "clean_wrong_result"] {
                let f = fails.iter().find(|f| f.0 == c);
                out.check(f.is_none(), c, &case, &f.map_or(String::new(), |f| f.1.clone()));
            }
            out.case(&case, &obs, ops.iter().any(|o| matches!(o, VOp::Clean)) && ops.len() >= 4, kind);
        }
        Err(p) => { out.check(false, "versions_panic", &case, &p); out.case(&case, "Panic", true, kind); }
    }
}

// ---------------------------------------------------------------- names, rrsets

/// Labels from the apex downwards; [] is the apex.  Label k is "n<k>", label 1 is "*".
#[derive(Clone, PartialEq, Eq, Hash, PartialOrd, Ord, Debug)]
struct Nm(Vec<u32>);
impl Nm {
    fn flat(id: u32) -> Nm { if id == 0 { Nm(vec![]) } else { Nm(vec![id]) } }
    fn label(k: u32) -> String { if k == 1 { "*".into() } else { format!("n{}", k) } }
    fn abs(&self) -> Name<Bytes> {
        let mut s = String::new();
        for l in self.0.iter().rev() { s.push_str(&Nm::label(*l)); s.push('.'); }
        s.push_str(APEX);
        Name::bytes_from_str(&s).unwrap()
    }
    /// the word used in case lines and walk output: "0" or label numbers joined by '.'
    fn word(&self) -> String { if self.0.is_empty() { "0".into() } else { self.0.iter().map(|l| l.to_string()).collect::<Vec<_>>().join(".") } }
    fn is_prefix_of(&self, o: &Nm) -> bool { o.0.len() >= self.0.len() && o.0[..self.0.len()] == self.0[..] }
    fn proper_prefixes(&self) -> Vec<Nm> { (1..self.0.len()).map(|k| Nm(self.0[..k].to_vec())).collect() }
}

fn apex() -> Name<Bytes> { Name::bytes_from_str(APEX).unwrap() }

fn mk_data(t: u16, id: u32) -> ZoneRecordData<Bytes, Name<Bytes>> {
    match t {
        T_A => ZoneRecordData::A(A::new(Ipv4Addr::from(id))),
        T_AAAA => ZoneRecordData::Aaaa(Aaaa::new(Ipv6Addr::from(id as u128))),
        T_SOA => ZoneRecordData::Soa(Soa::new(apex(), apex(), Serial(id), Ttl::from_secs(1), Ttl::from_secs(2), Ttl::from_secs(3), Ttl::from_secs(4))),
        T_NS => ZoneRecordData::Ns(Ns::new(Name::bytes_from_str(&format!("s{}.{}", id, APEX)).unwrap())),
        T_DS => ZoneRecordData::Ds(Ds::new(id as u16, SecurityAlgorithm::RSASHA256, DigestAlgorithm::SHA256, Bytes::from(vec![1u8, 2, 3, 4])).unwrap()),
        _ => ZoneRecordData::Txt(Txt::<Bytes>::build_from_slice(format!("t{}", id).as_bytes()).unwrap()),
    }
}
/// RRset number `id` of type `t`; 0 is the empty RRset.  An SOA RRset is one record
/// with serial `id` (TTL 3600); every other RRset `id` has 1 + id % 3 records with the
/// data values 4*id, 4*id+1, .. and the TTL 3600 + id % 7, so that a mixed-up or
/// partial RRset does not decode.
fn rr_count(id: u32) -> u32 { 1 + id % 3 }
fn rr_ttl(t: u16, id: u32) -> u32 { if t == T_SOA { 3600 } else { 3600 + id % 7 } }
fn mk_rrset(t: u16, id: u32) -> SharedRrset {
    let mut rs = Rrset::new(Rtype::from_int(t), Ttl::from_secs(rr_ttl(t, id)));
    if id == 0 { return SharedRrset::new(rs); }
    if t == T_SOA { rs.push_data(mk_data(t, id)); }
    else { for j in 0..rr_count(id) { rs.push_data(mk_data(t, 4 * id + j)); } }
    SharedRrset::new(rs)
}
/// the RRset number of a set of (ttl, data value) records of type `t`, if it is one
/// the records as the model driver prints an RRset: `<ttl>[v1,v2,..]`, values ascending;
/// records of one RRset with different TTLs are shown as `?ttl..`
fn fmt_recs(recs: &[(u32, u32)]) -> String {
    let mut vals: Vec<u32> = recs.iter().map(|r| r.1).collect();
    vals.sort();
    let ttl = recs.first().map_or(3600, |r| r.0);
    if recs.iter().any(|r| r.0 != ttl) { return format!("?ttl{:?}", recs); }
    format!("{}[{}]", ttl, vals.iter().map(|v| v.to_string()).collect::<Vec<_>>().join(","))
}
/// RRset number `id` of type `t` in that notation
fn fmt_rr(t: u16, id: u32) -> String {
    if id == 0 && t != T_SOA { return "3600[]".into(); }
    if t == T_SOA || t == T_CNAME { return format!("3600[{}]", id); }
    format!("{}[{}]", rr_ttl(t, id), (0..rr_count(id)).map(|j| (4 * id + j).to_string()).collect::<Vec<_>>().join(","))
}
fn fmt_opt(t: u16, x: &Option<u32>) -> String { x.map_or("-".to_string(), |x| fmt_rr(t, x)) }
#[allow(dead_code)]
fn rr_decode(t: u16, recs: &[(u32, u32)]) -> Option<u32> {
    if recs.is_empty() { return None; }
    if t == T_SOA || t == T_CNAME { return if recs.len() == 1 && recs[0].0 == 3600 { Some(recs[0].1) } else { None }; }
    let mut vals: Vec<u32> = recs.iter().map(|r| r.1).collect();
    vals.sort();
    let id = vals[0] / 4;
    let want: Vec<u32> = (0..rr_count(id)).map(|j| 4 * id + j).collect();
    if id != 0 && vals == want && recs.iter().all(|r| r.0 == rr_ttl(t, id)) { Some(id) } else { None }
}
fn cname_target(id: u32) -> Name<Bytes> { Name::bytes_from_str(&format!("c{}.{}", id, APEX)).unwrap() }
fn mk_cname(id: u32) -> SharedRr { SharedRr::new(Ttl::from_secs(3600), ZoneRecordData::Cname(Cname::new(cname_target(id)))) }
/// a zone cut at `n`: NS RRset `ns`, optional DS RRset, optional glue (an A record owned by the cut name)
fn mk_cut(n: &Nm, ns: u32, ds: Option<u32>, glue: Option<u32>) -> ZoneCut {
    ZoneCut {
        name: n.abs(),
        ns: mk_rrset(T_NS, ns),
        ds: ds.map(|d| mk_rrset(T_DS, d)),
        // glue numbers are multiples of 3: a one-record A RRset
        glue: glue.iter().map(|g| Record::new(n.abs(), Class::IN, Ttl::from_secs(rr_ttl(T_A, *g)), mk_data(T_A, 4 * *g))).collect(),
    }
}

fn first_label_num<N: ToName>(n: &N) -> u32 {
    let n = n.to_bytes();
    let l = n.iter_labels().next().unwrap();
    String::from_utf8_lossy(l.as_slice())[1..].parse().unwrap_or(999_998)
}
fn data_id<N: ToName>(d: &ZoneRecordData<Bytes, N>) -> u32 {
    match d {
        ZoneRecordData::A(a) => u32::from(a.addr()),
        ZoneRecordData::Aaaa(a) => u128::from(a.addr()) as u32,
        ZoneRecordData::Soa(s) => s.serial().0,
        ZoneRecordData::Txt(t) => { let v: Vec<u8> = t.text::<Vec<u8>>(); String::from_utf8_lossy(&v)[1..].parse().unwrap_or(999_999) }
        ZoneRecordData::Cname(c) => first_label_num(c.cname()),
        ZoneRecordData::Ns(n) => first_label_num(n.nsdname()),
        ZoneRecordData::Ds(d) => d.key_tag() as u32,
        _ => 999_997,
    }
}

/// canonical answer word, the same alphabet the model driver prints:
/// X(soa) NXDOMAIN, N(soa) NODATA, D<id> data, Y some RRset (ANY), C<id> CNAME,
/// R<ns>(ds)(glue) referral.  The second component is the (type, id) of the RRset an
/// ANY query returned.
fn observe_full(rd: &dyn ReadableZone, name: &Nm, t: u16) -> (String, Option<(u16, String)>) {
    let qname = name.abs();
    let rt = Rtype::from_int(t);
    let ans = match rd.query(qname.clone(), rt) { Ok(a) => a, Err(_) => return ("OutOfZone".into(), None) };
    let mut qb = MessageBuilder::new_vec().question();
    qb.push((qname, rt)).unwrap();
    let qmsg: Message<Vec<u8>> = qb.into();
    let msg: Message<Bytes> = ans.to_message(&qmsg, MessageBuilder::new_bytes()).into();
    let mut an: Vec<(u16, u32, u32)> = vec![];
    for r in msg.answer().unwrap().limit_to::<ZoneRecordData<_, ParsedName<_>>>() {
        let r = r.unwrap();
        an.push((r.rtype().to_int(), r.ttl().as_secs(), data_id(r.data())));
    }
    let (mut soa, mut other_auth): (Option<String>, u32) = (None, 0);
    let (mut ns_recs, mut ds_recs, mut glue_recs): (Vec<(u32, u32)>, Vec<(u32, u32)>, Vec<(u32, u32)>) = (vec![], vec![], vec![]);
    for r in msg.authority().unwrap().limit_to::<ZoneRecordData<_, ParsedName<_>>>() {
        let r = r.unwrap();
        match r.rtype() {
            Rtype::SOA => { if soa.is_some() { other_auth += 1; } soa = Some(format!("{}:{}", r.ttl().as_secs(), data_id(r.data()))); }
            Rtype::NS => ns_recs.push((r.ttl().as_secs(), data_id(r.data()))), Rtype::DS => ds_recs.push((r.ttl().as_secs(), data_id(r.data()))), _ => other_auth += 1 }
    }
    let mut other_add = 0;
    for r in msg.additional().unwrap().limit_to::<ZoneRecordData<_, ParsedName<_>>>() {
        let r = r.unwrap();
        if r.rtype() == Rtype::A { glue_recs.push((r.ttl().as_secs(), data_id(r.data()))); } else { other_add += 1; }
    }
    let opt = |x: &Option<String>| x.clone().unwrap_or_else(|| "-".to_string());
    let sect = |v: &Vec<(u32, u32)>| if v.is_empty() { "-".to_string() } else { fmt_recs(v) };
    let rc = ans.rcode();
    if other_auth > 0 || other_add > 0 { return (format!("?sections{}/{}", other_auth, other_add), None); }
    if !ns_recs.is_empty() {
        if rc == Rcode::NOERROR && an.is_empty() && soa.is_none() { return (format!("R{}({})({})", fmt_recs(&ns_recs), sect(&ds_recs), sect(&glue_recs)), None); }
        return ("?referral".into(), None);
    }
    if !ds_recs.is_empty() || !glue_recs.is_empty() { return ("?stray".into(), None); }
    if rc == Rcode::NXDOMAIN && an.is_empty() { return (format!("X({})", opt(&soa)), None); }
    if rc != Rcode::NOERROR { return (format!("?rcode{}", rc.to_int()), None); }
    if an.is_empty() { return (format!("N({})", opt(&soa)), None); }
    if soa.is_some() { return ("?soa_with_answer".into(), None); }
    let at = an[0].0;
    if an.iter().any(|r| r.0 != at) { return (format!("?mixed{:?}", an), None); }
    let recs: Vec<(u32, u32)> = an.iter().map(|r| (r.1, r.2)).collect();
    let raw = fmt_recs(&recs);
    if at == T_CNAME { return (format!("C{}", raw), None); }
    if t == T_ANY { return ("Y".into(), Some((at, raw))); }
    if at == t { return (format!("D{}", raw), None); }
    (format!("?answer{:?}", an), None)
}
fn observe(rd: &dyn ReadableZone, name: &Nm, t: u16) -> String { observe_full(rd, name, t).0 }

/// sorted (owner word, type, id) triples of a walk
fn walk_of(rd: &dyn ReadableZone) -> Vec<(String, u16, String)> {
    let acc: Arc<Mutex<Vec<(String, u16, String)>>> = Arc::new(Mutex::new(vec![]));
    let acc2 = acc.clone();
    let apex_n = apex();
    rd.walk(Box::new(move |owner: Name<Bytes>, rrset: &SharedRrset, _cut: bool| {
        let rel = rel_of(&owner, &apex_n);
        let mut a = acc2.lock().unwrap();
        let t = rrset.rtype().to_int();
        let recs: Vec<(u32, u32)> = rrset.data().iter().map(|d| (rrset.ttl().as_secs(), data_id(d))).collect();
        // an RRset that does not decode is reported as number u32::MAX
        a.push((rel.clone(), t, fmt_recs(&recs)));
    }));
    let mut v = acc.lock().unwrap().clone();
    v.sort();
    v
}
/// owner name -> the word of its label path (apex first)
fn rel_of(owner: &Name<Bytes>, apex_n: &Name<Bytes>) -> String {
    let n = owner.label_count() - apex_n.label_count();
    if n == 0 { return "0".into(); }
    let mut ls: Vec<String> = owner.iter_labels().take(n).map(|l| {
        let s = String::from_utf8_lossy(l.as_slice()).to_string();
        if s == "*" { "1".to_string() } else { s.strip_prefix('n').unwrap_or("?").to_string() }
    }).collect();
    ls.reverse();
    ls.join(".")
}
fn show_walk(w: &[(String, u16, String)]) -> String { format!("W[{}]", w.iter().map(|(o, t, rr)| format!("{}/{}/{}", o, t, rr)).collect::<Vec<_>>().join(" ")) }

// ---------------------------------------------------------------- traces

#[derive(Clone, Debug)]
enum Ev {
    Acquire(u32), Query(u32, Nm, u16), Walk(u32), Release(u32),
    WAcquire, WQueue, WTake, WOpen, Update(Nm, u16, u32), Remove(Nm, u16), Touch(Nm), RemoveAll, RemoveAllAt(Nm),
    CnameAt(Nm, u32), CutAt(Nm, u32, Option<u32>, Option<u32>), Regular(Nm), Commit, CommitBump, Drop,
    /// a data operation through the root handle kept from the session that the last commit/drop ended
    Stale(Box<Ev>),
    /// the version numbers of all entries stored anywhere in the tree (from the Debug output)
    Dump,
}
fn oword(x: &Option<u32>) -> String { x.map_or("-".to_string(), |x| x.to_string()) }
impl Ev {
    fn word(&self) -> String {
        match self {
            Ev::Acquire(r) => format!("A:{}", r), Ev::Query(r, n, t) => format!("Q:{}:{}:{}", r, n.word(), t), Ev::Walk(r) => format!("W:{}", r),
            Ev::Release(r) => format!("R:{}", r), Ev::WAcquire | Ev::WQueue | Ev::WTake => "wa".into(), Ev::WOpen => "wo".into(),
            Ev::Update(n, t, rr) => format!("u:{}:{}:{}", n.word(), t, rr), Ev::Remove(n, t) => format!("r:{}:{}", n.word(), t), Ev::Touch(n) => format!("t:{}", n.word()),
            Ev::RemoveAll => "ra".into(), Ev::RemoveAllAt(n) => format!("rn:{}", n.word()), Ev::CnameAt(n, id) => format!("cn:{}:{}", n.word(), id),
            Ev::CutAt(n, ns, ds, g) => format!("ct:{}:{}:{}:{}", n.word(), ns, oword(ds), oword(g)),
            Ev::Regular(n) => format!("rg:{}", n.word()), Ev::Commit => "c".into(), Ev::CommitBump => "cb".into(), Ev::Drop => "d".into(),
            Ev::Stale(e) => format!("s:{}", e.word()),
            Ev::Dump => "dump".into(),
        }
    }
    fn is_data(&self) -> bool { matches!(self, Ev::Update(..) | Ev::Remove(..) | Ev::Touch(..) | Ev::RemoveAll | Ev::RemoveAllAt(..) | Ev::CnameAt(..) | Ev::CutAt(..) | Ev::Regular(..)) }
}

#[derive(Clone, Debug)]
enum Init { Rrset(Nm, u16, u32), Cname(Nm, u32), Cut(Nm, u32, Option<u32>, Option<u32>) }
impl Init {
    fn word(&self) -> String {
        match self {
            Init::Rrset(n, t, rr) => format!("i:{}:{}:{}", n.word(), t, rr), Init::Cname(n, id) => format!("ic:{}:{}", n.word(), id),
            Init::Cut(n, ns, ds, g) => format!("iz:{}:{}:{}:{}", n.word(), ns, oword(ds), oword(g)),
        }
    }
}

#[derive(Clone, PartialEq, Debug)]
enum Sp { Cname(u32), Cut(u32, Option<u32>, Option<u32>) }

/// The oracle's own notion of zone content (what a version contains).
#[derive(Clone, Default, PartialEq, Debug)]
struct Content { rr: BTreeMap<(Nm, u16), u32>, sp: BTreeMap<Nm, Sp> }
impl Content {
    fn apply(&mut self, e: &Ev) {
        match e {
            Ev::Update(n, t, rr) => { if *rr == 0 { self.rr.remove(&(n.clone(), *t)); } else { self.rr.insert((n.clone(), *t), *rr); } }
            Ev::Remove(n, t) => { self.rr.remove(&(n.clone(), *t)); }
            Ev::RemoveAll => { self.rr.clear(); self.sp.clear(); }
            Ev::RemoveAllAt(n) => { self.rr.retain(|k, _| !n.is_prefix_of(&k.0)); self.sp.retain(|k, _| !n.is_prefix_of(k)); }
            Ev::CnameAt(n, id) => { self.sp.insert(n.clone(), Sp::Cname(*id)); }
            Ev::CutAt(n, ns, ds, g) => { self.sp.insert(n.clone(), Sp::Cut(*ns, *ds, *g)); }
            Ev::Regular(n) => { self.sp.remove(n); }
            _ => {}
        }
    }
    fn under_cut(&self, n: &Nm) -> bool { n.proper_prefixes().iter().any(|p| matches!(self.sp.get(p), Some(Sp::Cut(..)))) }
    /// the records a walk must report: everything not below a zone cut
    fn walk(&self) -> Vec<(String, u16, String)> {
        let mut v: Vec<(String, u16, String)> = self.rr.iter().filter(|((n, _), _)| !self.under_cut(n)).map(|((n, t), rr)| (n.word(), *t, fmt_rr(*t, *rr))).collect();
        for (n, sp) in &self.sp {
            if self.under_cut(n) { continue; }
            match sp {
                Sp::Cname(id) => v.push((n.word(), T_CNAME, fmt_rr(T_CNAME, *id))),
                Sp::Cut(ns, ds, g) => { v.push((n.word(), T_NS, fmt_rr(T_NS, *ns))); if let Some(d) = ds { v.push((n.word(), T_DS, fmt_rr(T_DS, *d))); } if let Some(g) = g { v.push((n.word(), T_A, fmt_rr(T_A, *g))); } }
            }
        }
        v.sort();
        v
    }
    fn any_wildcard(&self) -> bool { self.rr.keys().any(|k| k.0 .0.contains(&1)) || self.sp.keys().any(|k| k.0.contains(&1)) }
}

/// (sorted version numbers of every Versioned entry in the tree, current version) from `{:?}` of the zone
fn stored_versions(zone: &Zone) -> (Vec<u32>, u32) {
    let s = format!("{:?}", zone);
    let cut = s.find(", update_lock:").expect("Debug of ZoneApex");
    let nums = |mut rest: &str| { let mut out = vec![]; while let Some(q) = rest.find("(Version(Serial(") { rest = &rest[q + 16..]; let e = rest.find(')').unwrap(); out.push(rest[..e].parse::<u32>().unwrap()); rest = &rest[e..]; } out };
    let mut vs = nums(&s[..cut]);
    vs.sort();
    let tail = &s[cut..];
    let c = tail.find("current: (Version(Serial(").expect("Debug of ZoneVersions");
    let cur = nums(&tail[c + 9..])[0];
    (vs, cur)
}

type Snap = (BTreeMap<(Nm, u16), String>, Vec<(String, u16, String)>);

struct Held { rd: Box<dyn ReadableZone>, snap: Snap }

struct Sys {
    rt: tokio::runtime::Runtime,
    zone: Zone,
    universe: Vec<Nm>,
    types: Vec<u16>,
    readers: BTreeMap<u32, Held>,
    writer: Option<Box<dyn WritableZone>>,
    /// a second `write().await` that was requested while `writer` existed and is kept alive
    queued: Option<tokio::task::JoinHandle<Box<dyn WritableZone>>>,
    root: Option<Box<dyn WritableZoneNode>>,
    /// the root handle of the session ended by the last commit/drop, kept by the client
    stale_root: Option<Box<dyn WritableZoneNode>>,
    /// some operation through `stale_root` was accepted by the implementation
    stale_effective: bool,
    /// shadow run: operations through `stale_root` are skipped
    skip_stale: bool,
    /// open(create_diff = true): the writer also records an InMemoryZoneDiff; every node
    /// handle is dropped before commit (commit unwraps the shared diff builder)
    diff: bool,
    committed: Content,
    pending: Content,
    pre_session: Option<Snap>,
}

struct Fail { class: &'static str, detail: String, step: usize }

static FAIL_COUNTS: Mutex<BTreeMap<&'static str, u64>> = Mutex::new(BTreeMap::new());

impl Sys {
    fn new(inits: &[Init], universe: Vec<Nm>, types: Vec<u16>) -> Sys {
        let rt = tokio::runtime::Builder::new_current_thread().enable_all().start_paused(true).build().unwrap();
        let mut b = ZoneBuilder::new(apex(), Class::IN);
        let mut content = Content::default();
        for i in inits {
            match i {
                Init::Rrset(n, t, rr) => { b.insert_rrset(&n.abs(), mk_rrset(*t, *rr)).unwrap(); content.rr.insert((n.clone(), *t), *rr); }
                Init::Cname(n, id) => { b.insert_cname(&n.abs(), mk_cname(*id)).unwrap(); content.sp.insert(n.clone(), Sp::Cname(*id)); }
                Init::Cut(n, ns, ds, g) => { let c = mk_cut(n, *ns, *ds, *g); b.insert_zone_cut(&n.abs(), c.ns, c.ds, c.glue).unwrap(); content.sp.insert(n.clone(), Sp::Cut(*ns, *ds, *g)); }
            }
        }
        Sys { rt, zone: b.build(), universe, types, readers: BTreeMap::new(), writer: None, queued: None, root: None, stale_root: None, stale_effective: false, skip_stale: false, diff: false,
              committed: content.clone(), pending: content, pre_session: None }
    }

    fn snapshot(&self, rd: &dyn ReadableZone, fails: &mut Vec<Fail>) -> Snap {
        let mut m = BTreeMap::new();
        for n in &self.universe { for t in &self.types { m.insert((n.clone(), *t), observe(rd, n, *t)); } }
        // an ANY answer must be an RRset of this very version
        for n in &self.universe {
            let (o, which) = observe_full(rd, n, T_ANY);
            if let Some((t, id)) = which {
                let same = observe(rd, n, t);
                if same != format!("D{}", id) { fails.push(Fail { step: 0, class: "any_not_in_version", detail: format!("ANY at {} returned type {} RRset {} but a query for that type answers {}", n.word(), t, id, same) }); }
            }
            m.insert((n.clone(), T_ANY), o);
        }
        (m, walk_of(rd))
    }

    fn try_write(&self) -> Option<Box<dyn WritableZone>> {
        let z = self.zone.clone();
        self.rt.block_on(async move { tokio::time::timeout(Duration::from_millis(50), z.write()).await.ok() })
    }

    /// child node handle for `n` (update_child along the path) from the live or the kept root
    fn node_via(&self, n: &Nm, stale: bool) -> Result<Option<Box<dyn WritableZoneNode>>, std::io::Error> {
        let mut cur: Option<Box<dyn WritableZoneNode>> = None;
        for l in n.0.iter() {
            let ls = Nm::label(*l);
            let lab = Label::from_slice(ls.as_bytes()).unwrap();
            let next = {
                let top = if stale { self.stale_root.as_ref() } else { self.root.as_ref() };
                let parent: &dyn WritableZoneNode = match &cur { Some(c) => c.as_ref(), None => top.unwrap().as_ref() };
                self.rt.block_on(parent.update_child(lab))?
            };
            cur = Some(next);
        }
        Ok(cur)
    }

    /// a data operation through the live (`stale` = false) or the kept root handle
    fn data_op(&self, d: &Ev, stale: bool) -> Result<(), std::io::Error> {
        let h = match d {
            Ev::Update(n, ..) | Ev::Remove(n, ..) | Ev::Touch(n) | Ev::RemoveAllAt(n) | Ev::CnameAt(n, ..) | Ev::CutAt(n, ..) | Ev::Regular(n) => self.node_via(n, stale)?,
            _ => None,
        };
        let top = if stale { self.stale_root.as_ref().unwrap() } else { self.root.as_ref().unwrap() };
        let node: &dyn WritableZoneNode = match &h { Some(h) => h.as_ref(), None => top.as_ref() };
        match d {
            Ev::Update(_, t, rr) => self.rt.block_on(node.update_rrset(mk_rrset(*t, *rr))),
            Ev::Remove(_, t) => self.rt.block_on(node.remove_rrset(Rtype::from_int(*t))),
            Ev::Touch(_) => Ok(()),
            Ev::RemoveAll | Ev::RemoveAllAt(_) => self.rt.block_on(node.remove_all()),
            Ev::CnameAt(_, id) => self.rt.block_on(node.make_cname(mk_cname(*id))),
            Ev::CutAt(n, ns, ds, g) => self.rt.block_on(node.make_zone_cut(mk_cut(n, *ns, *ds, *g))),
            Ev::Regular(_) => self.rt.block_on(node.make_regular()),
            _ => Ok(()),
        }
    }

    fn compare(&self, old: &Snap, new: &Snap, class: &'static str, who: &str, fails: &mut Vec<Fail>) {
        for (k, o) in &old.0 {
            let n = &new.0[k];
            if o != n { fails.push(Fail { step: 0, class, detail: format!("{}: {} type {}: {} -> {}", who, k.0.word(), k.1, o, n) }); }
        }
        if old.1 != new.1 { fails.push(Fail { step: 0, class: "walk_mismatch", detail: format!("{}: walk {} -> {}", who, show_walk(&old.1), show_walk(&new.1)) }); }
    }

    /// data-level check of a fresh reader against the oracle's committed content
    fn check_fresh(&self, fails: &mut Vec<Fail>, class: &'static str, when: &str) {
        let rd = self.zone.read();
        let w = walk_of(rd.as_ref());
        let want = self.committed.walk();
        if w != want { fails.push(Fail { step: 0, class: "walk_mismatch", detail: format!("{}: fresh reader walk {}, committed content {}", when, show_walk(&w), show_walk(&want)) }); }
        let wild = self.committed.any_wildcard();
        for n in &self.universe {
            // below or at a zone cut the zone only refers
            if self.committed.under_cut(n) { continue; }
            for t in &self.types {
                let o = observe(rd.as_ref(), n, *t);
                let want = match self.committed.sp.get(n) {
                    Some(Sp::Cname(id)) => Some(format!("C{}", fmt_rr(T_CNAME, *id))),
                    Some(Sp::Cut(ns, ds, g)) => Some(if *t == T_DS { match ds { Some(d) => format!("D{}", fmt_rr(T_DS, *d)), None => "N".into() } } else { format!("R{}({})({})", fmt_rr(T_NS, *ns), fmt_opt(T_DS, ds), fmt_opt(T_A, g)) }),
                    None => self.committed.rr.get(&(n.clone(), *t)).map(|rr| format!("D{}", fmt_rr(*t, *rr))),
                };
                match want {
                    Some(wd) if wd == "N" => if !o.starts_with("N(") { fails.push(Fail { step: 0, class, detail: format!("{}: fresh reader {} type {}: {} expected NODATA", when, n.word(), t, o) }); },
                    Some(wd) => if o != wd { fails.push(Fail { step: 0, class, detail: format!("{}: fresh reader {} type {}: {} expected {}", when, n.word(), t, o, wd) }); },
                    None => {
                        let nodata = o.starts_with("X(") || o.starts_with("N(");
                        // a name without own content may be answered from a wildcard
                        let own = self.committed.rr.keys().any(|k| n.is_prefix_of(&k.0)) || self.committed.sp.keys().any(|k| n.is_prefix_of(k));
                        if !nodata && !(wild && !own && !n.0.is_empty()) { fails.push(Fail { step: 0, class, detail: format!("{}: fresh reader {} type {}: {} but the committed content has no such record", when, n.word(), t, o) }); }
                    }
                }
            }
        }
    }

    fn begin_session(&mut self, fails: &mut Vec<Fail>) {
        let rd = self.zone.read();
        self.pre_session = Some(self.snapshot(rd.as_ref(), fails));
        self.pending = self.committed.clone();
    }

    /// run one event; returns the T2 observation (if the event has one)
    fn exec(&mut self, e: &Ev, fails: &mut Vec<Fail>) -> Option<String> {
        let mut obs = None;
        match e {
            Ev::Acquire(r) => {
                let rd = self.zone.read();
                let snap = self.snapshot(rd.as_ref(), fails);
                self.readers.insert(*r, Held { rd, snap });
            }
            Ev::Release(r) => { self.readers.remove(r); }
            Ev::Query(r, n, t) => { obs = Some(match self.readers.get(r) { Some(h) => observe(h.rd.as_ref(), n, *t), None => "noreader".into() }); }
            Ev::Walk(r) => { obs = Some(match self.readers.get(r) { Some(h) => show_walk(&walk_of(h.rd.as_ref())), None => "noreader".into() }); }
            Ev::WAcquire => {
                let had = self.writer.is_some();
                let got = self.try_write();
                obs = Some(if got.is_some() { "granted".into() } else { "pending".into() });
                if had {
                    if got.is_some() { fails.push(Fail { step: 0, class: "second_writer_granted", detail: "write().await completed while another WritableZone is alive".into() }); }
                    drop(got);
                } else {
                    if got.is_none() { fails.push(Fail { step: 0, class: "writer_lock_stuck", detail: "write().await pending although no writer exists".into() }); }
                    if got.is_some() { self.begin_session(fails); }
                    self.writer = got;
                }
            }
            Ev::WQueue => {
                // request the write lock in a task and keep the request alive: the
                // future is polled (so it has done everything it does before waiting
                // for the lock) and completes only after the current writer is dropped
                if self.writer.is_some() && self.queued.is_none() {
                    let z = self.zone.clone();
                    let h = self.rt.spawn(async move { z.write().await });
                    self.rt.block_on(async { tokio::task::yield_now().await; tokio::task::yield_now().await; });
                    if h.is_finished() {
                        obs = Some("granted".into());
                        fails.push(Fail { step: 0, class: "second_writer_granted", detail: "queued write().await completed while another WritableZone is alive".into() });
                        let _ = self.rt.block_on(h);
                    } else {
                        obs = Some("pending".into());
                        self.queued = Some(h);
                    }
                } else { obs = Some("pending".into()); }
            }
            Ev::WTake => {
                if let (None, Some(h)) = (&self.writer, self.queued.take()) {
                    let got = self.rt.block_on(async move { tokio::time::timeout(Duration::from_millis(50), h).await });
                    match got {
                        Ok(Ok(w)) => { obs = Some("granted".into()); self.begin_session(fails); self.writer = Some(w); }
                        _ => {
                            obs = Some("pending".into());
                            fails.push(Fail { step: 0, class: "writer_lock_stuck", detail: "queued write().await still pending after the writer was dropped".into() });
                        }
                    }
                } else { obs = Some("granted".into()); }
            }
            Ev::WOpen => { if let Some(w) = &self.writer { self.root = None; self.root = Some(self.rt.block_on(w.open(self.diff)).unwrap()); } }
            Ev::Commit | Ev::CommitBump => {
                let bump = matches!(e, Ev::CommitBump);
                let mut want_diff: Option<(u32, u32)> = None;
                if let Some(w) = self.writer.as_mut() {
                    if let Some(r) = self.root.take() { if !self.diff { self.stale_root = Some(r); } }
                    let zdiff = self.rt.block_on(w.commit(bump)).unwrap();
                    want_diff = zdiff.map(|d| (d.start_serial.0, d.end_serial.0));
                    if bump {
                        // commit(true): a zone that had a SOA gets serial + 1 unless the writer stored another SOA
                        let k = (Nm(vec![]), T_SOA);
                        if let Some(old) = self.committed.rr.get(&k).copied() {
                            if self.pending.rr.get(&k).map_or(true, |n| *n == old) { self.pending.rr.insert(k, old.wrapping_add(1)); }
                        }
                    }
                    // a recorded diff leads from the SOA of the version that was current to the SOA of the new one
                    if let Some((from, to)) = want_diff {
                        let k = (Nm(vec![]), T_SOA);
                        let (old, new) = (self.committed.rr.get(&k).copied(), self.pending.rr.get(&k).copied());
                        if old != Some(from) || new != Some(to) {
                            fails.push(Fail { step: 0, class: "diff_serials_not_versions", detail: format!("commit returned a diff {} -> {} but the SOA serials of the two versions are {:?} -> {:?}", from, to, old, new) });
                        }
                    }
                    self.committed = self.pending.clone();
                    let rd = self.zone.read();
                    self.pre_session = Some(self.snapshot(rd.as_ref(), fails));
                }
            }
            Ev::Drop => {
                if self.writer.is_some() {
                    if let Some(r) = self.root.take() { self.stale_root = Some(r); }
                    self.writer = None;
                    self.pending = self.committed.clone();
                }
            }
            Ev::Dump => { let (vs, _) = stored_versions(&self.zone); obs = Some(format!("V[{}]", vs.iter().map(|v| v.to_string()).collect::<Vec<_>>().join(","))); }
            Ev::Stale(_) if self.skip_stale => {}
            Ev::Stale(d) => {
                obs = Some(if self.stale_root.is_none() { "snone".to_string() } else {
                    match self.data_op(d, true) { Ok(()) => { self.stale_effective = true; "sdone".into() } Err(_) => "srej".into() }
                });
            }
            d if d.is_data() => {
                if self.root.is_some() {
                    self.pending.apply(d);
                    self.data_op(d, false).unwrap();
                }
            }
            _ => {}
        }
        obs
    }

    /// the oracle, run after every writer-side step
    fn oracle(&self, e: &Ev, fails: &mut Vec<Fail>) {
        // held readers keep their snapshot
        for (r, h) in &self.readers {
            let now = self.snapshot(h.rd.as_ref(), fails);
            self.compare(&h.snap, &now, "snapshot_changed", &format!("reader {} after {}", r, e.word()), fails);
        }
        // no entry of a version above the current one is stored anywhere in the tree, except
        // entries of current+1 while a writer is alive
        {
            let (vs, cur) = stored_versions(&self.zone);
            let lim = if self.writer.is_some() { cur.wrapping_add(1) } else { cur };
            if let Some(v) = vs.iter().find(|v| **v > lim) {
                fails.push(Fail { step: 0, class: "marker_above_current", detail: format!("after {}: an entry of version {} is stored, current is {}, writer {}", e.word(), v, cur, if self.writer.is_some() { "alive" } else { "gone" }) });
            }
        }
        match e {
            Ev::Drop => {
                // abort (or drop after commit): a fresh reader sees what was committed
                if let Some(pre) = &self.pre_session {
                    let rd = self.zone.read();
                    let now = self.snapshot(rd.as_ref(), fails);
                    self.compare(pre, &now, "abort_visible", "fresh reader after drop", fails);
                }
                self.check_fresh(fails, "abort_visible", "after drop");
            }
            Ev::Commit | Ev::CommitBump => self.check_fresh(fails, "commit_not_atomic", "after commit"),
            d if d.is_data() || matches!(d, Ev::WOpen | Ev::WAcquire | Ev::WQueue | Ev::WTake | Ev::Stale(_)) => self.check_fresh(fails, "commit_not_atomic", &format!("before commit, after {}", d.word())),
            _ => {}
        }
    }
}

fn run_trace(out: &mut Out, inits: &[Init], evs: &[Ev], universe: Vec<Nm>, kind: &str) {
    let diff = kind == "zt_diff";
    let case = format!("zt {} ; {}", inits.iter().map(|i| i.word()).collect::<Vec<_>>().join(" "), evs.iter().map(|e| e.word()).collect::<Vec<_>>().join(" "));
    out.begin(&case);
    let types = vec![T_A, T_TXT, T_AAAA, T_SOA, T_DS];
    // A trace with operations through a retired handle is also run without them
    // (the shadow).  A deviation of the real run is charged to the retired handle
    // exactly if an operation through it had been accepted before and the same
    // deviation does not occur at the same step of the shadow run; every other
    // deviation keeps its own class.
    let has_stale = evs.iter().any(|e| matches!(e, Ev::Stale(_)));
    let run = |skip_stale: bool| {
        let universe = universe.clone(); let types = types.clone();
        catch_mut(move || {
            let mut sys = Sys::new(inits, universe, types);
            sys.skip_stale = skip_stale;
            sys.diff = diff;
            let mut fails: Vec<Fail> = vec![];
            let mut obs: Vec<String> = vec![];
            let mut first_stale: Option<usize> = None;
            for (i, e) in evs.iter().enumerate() {
                let n0 = fails.len();
                if let Some(o) = sys.exec(e, &mut fails) { obs.push(o); }
                if sys.stale_effective && first_stale.is_none() { first_stale = Some(i); }
                if skip_stale && matches!(e, Ev::Stale(_)) { continue; }
                if !matches!(e, Ev::Query(..) | Ev::Walk(..) | Ev::Release(..)) { sys.oracle(e, &mut fails); }
                for f in fails[n0..].iter_mut() { f.step = i; }
            }
            (obs, fails, first_stale)
        })
    };
    let shadow: Vec<(usize, &'static str, String)> = if has_stale {
        match run(true) { Ok((_, f, _)) => f.into_iter().map(|f| (f.step, f.class, f.detail)).collect(), Err(_) => vec![] }
    } else { vec![] };
    let r = run(false).map(|(obs, mut fails, first_stale)| {
        if let Some(s0) = first_stale {
            for f in fails.iter_mut() {
                if f.step >= s0 && !shadow.iter().any(|(st, c, d)| *st == f.step && *c == f.class && *d == f.detail) { f.class = "stale_node_handle_write"; }
            }
        }
        (obs, fails)
    });
    let classes = ["snapshot_changed", "commit_not_atomic", "abort_visible", "walk_mismatch", "any_not_in_version", "diff_serials_not_versions", "marker_above_current",
        "second_writer_granted", "writer_lock_stuck", "stale_node_handle_write"];
    match r {
        Ok((obs, fails)) => {
            for c in classes {
                let f = fails.iter().find(|f| f.class == c);
                if f.is_some() { *FAIL_COUNTS.lock().unwrap().entry(c).or_insert(0) += 1; }
                out.check(f.is_none(), c, &case, &f.map_or(String::new(), |f| f.detail.clone()));
            }
            out.check(true, "zone_panic", &case, "");
            let line = if obs.is_empty() { "-".to_string() } else { obs.join(" ") };
            let nontrivial = evs.iter().any(|e| e.is_data() || matches!(e, Ev::Stale(_))) && evs.iter().any(|e| matches!(e, Ev::Query(..) | Ev::Walk(..)));
            out.case(&case, &line, nontrivial, kind);
        }
        Err(p) => { out.check(false, "zone_panic", &case, &p); out.case(&case, "Panic", true, kind); }
    }
}

/// an SOA serial for an update at the apex: mostly not the "next" one - the same few small
/// serials again (so that a writer re-writes the published SOA, an older one, or one that
/// is smaller as a number), and serials on both sides of the 2^32 wrap
fn gen_soa(r: &mut Rng, val: u32) -> u32 {
    match r.below(8) { 0 | 1 => val, 2..=4 => 1 + r.below(6) as u32, 5 => 0xFFFF_FFF0 + r.below(16) as u32, 6 => 0x8000_0000u32.wrapping_add(r.below(5) as u32).wrapping_sub(2), _ => 1 + r.below(3) as u32 }
}

fn gen_data(r: &mut Rng, n: Nm, val: u32) -> Ev {
    let types = [T_A, T_TXT, T_AAAA];
    match r.below(18) {
        0..=6 => { let t = if n.0.is_empty() && r.chance(1, 3) { T_SOA } else { *r.pick(&types) }; let v = if t == T_SOA { gen_soa(r, val) } else { val }; Ev::Update(n, t, if r.chance(1, 12) { 0 } else { v }) }
        7..=9 => { let t = if n.0.is_empty() && r.chance(1, 4) { T_SOA } else { *r.pick(&types) }; Ev::Remove(n, t) }
        10 => if n.0.is_empty() { Ev::RemoveAll } else { Ev::Touch(n) },
        11 => Ev::RemoveAll,
        12 => if n.0.is_empty() { Ev::RemoveAll } else { Ev::RemoveAllAt(n) },
        13 | 14 => if n.0.is_empty() { Ev::Update(n, T_A, val) } else { Ev::CnameAt(n, val) },
        15 | 16 => if n.0.is_empty() { Ev::Update(n, T_TXT, val) } else { Ev::CutAt(n, val, if r.chance(1, 2) { Some(val + 1000) } else { None }, if r.chance(1, 2) { Some((val + 2000) / 3 * 3) } else { None }) },
        _ => if n.0.is_empty() { Ev::Remove(n, T_A) } else { Ev::Regular(n) },
    }
}

/// random trace: one writer (plus at most one queued request), up to 4 held readers
fn gen_trace(r: &mut Rng, names: &[Nm], targets: &[Nm], max_len: usize, stale: bool) -> Vec<Ev> {
    let types = [T_A, T_TXT, T_AAAA, T_SOA, T_DS, T_ANY];
    let mut evs = vec![];
    let mut held: Vec<u32> = vec![];
    let mut writer = false; let mut open = false; let mut queued = false;
    let mut val = 100u32;
    let n_ev = r.range(4, max_len as u64) as usize;
    let mut have_handle = false;
    while evs.len() < n_ev {
        if stale && have_handle && !targets.is_empty() && r.chance(1, 5) {
            val += 1;
            let n = r.pick(targets).clone();
            evs.push(Ev::Stale(Box::new(gen_data(r, n, val))));
            continue;
        }
        if r.chance(1, 25) { evs.push(Ev::Dump); continue; }
        if writer && open && !targets.is_empty() && r.chance(1, 30) {
            // remove all data of a name in this version, abandon the version, and let the next
            // writer reuse the version number for something at or below that name
            let n = r.pick(targets).clone();
            if !n.0.is_empty() {
                if r.chance(1, 2) { evs.push(Ev::RemoveAllAt(n.clone())); } else { for t in [T_A, T_TXT, T_AAAA] { evs.push(Ev::Remove(n.clone(), t)); } evs.push(Ev::Regular(n.clone())); }
                evs.push(Ev::Dump); evs.push(Ev::Drop); evs.push(Ev::Dump);
                if queued { queued = false; evs.push(Ev::WTake); } else { evs.push(Ev::WAcquire); }
                evs.push(Ev::WOpen);
                val += 1;
                let below: Vec<&Nm> = names.iter().filter(|m| n.is_prefix_of(m)).collect();
                evs.push(Ev::Update((*r.pick(&below)).clone(), T_TXT, val));
                have_handle = true;
                continue;
            }
        }
        match r.below(20) {
            0..=2 => { if held.len() < 4 { let id = (0..4u32).find(|i| !held.contains(i)).unwrap(); held.push(id); evs.push(Ev::Acquire(id)); } }
            3 => { if !held.is_empty() && r.chance(1, 2) { let i = r.below(held.len() as u64) as usize; let id = held.remove(i); evs.push(Ev::Release(id)); } }
            4..=7 => { if !held.is_empty() { let id = *r.pick(&held); let n = r.pick(names).clone(); let t = if n.0.is_empty() { *r.pick(&types) } else { *r.pick(&[T_A, T_TXT, T_AAAA, T_A, T_DS, T_ANY]) }; evs.push(Ev::Query(id, n, t)); } }
            8 => { if !held.is_empty() { let id = *r.pick(&held); evs.push(Ev::Walk(id)); } }
            9 => { if !writer { writer = true; open = false; evs.push(Ev::WAcquire); } else if r.chance(1, 3) { evs.push(Ev::WAcquire); } else if !queued && r.chance(1, 2) { queued = true; evs.push(Ev::WQueue); } }
            10 => { if writer && (!open || r.chance(1, 4)) { open = true; evs.push(Ev::WOpen); } }
            11..=16 => {
                if !writer { writer = true; evs.push(Ev::WAcquire); open = false; }
                if !open { open = true; evs.push(Ev::WOpen); }
                if targets.is_empty() { continue; }
                let n = r.pick(targets).clone();
                val += 1;
                let e = gen_data(r, n, val);
                evs.push(e);
            }
            17 | 18 => { if writer { if open { have_handle = true; } open = false; evs.push(if r.chance(1, 4) { Ev::CommitBump } else { Ev::Commit }); } }
            _ => { if writer { if open { have_handle = true; } writer = false; open = false; evs.push(Ev::Drop); if queued { queued = false; writer = true; evs.push(Ev::WTake); } } }
        }
    }
    if writer && r.chance(2, 3) {
        if r.chance(1, 2) { evs.push(Ev::Commit); } else {
            evs.push(Ev::Drop);
            if queued { evs.push(Ev::WTake); evs.push(Ev::WOpen); val += 1; evs.push(Ev::Update(r.pick(names).clone(), T_A, val)); }
        }
    }
    // a final look by everyone still holding a reader
    for id in held { let n = r.pick(names).clone(); evs.push(Ev::Query(id, n, T_A)); evs.push(Ev::Walk(id)); }
    evs
}

fn gen_inits(r: &mut Rng, names: &[Nm], p_num: u64) -> Vec<Init> {
    let mut v = vec![];
    let mut val = 10u32;
    if r.chance(3, 4) { v.push(Init::Rrset(Nm(vec![]), T_SOA, if r.chance(1, 6) { 0xFFFF_FFF0 + r.below(16) as u32 } else { 1 + r.below(5) as u32 })); }
    for n in names {
        for t in [T_A, T_TXT, T_AAAA] {
            if r.chance(p_num, 10) { val += 1; v.push(Init::Rrset(n.clone(), t, val)); }
        }
        if !n.0.is_empty() && r.chance(1, 12) { val += 1; v.push(Init::Cname(n.clone(), val)); }
        else if !n.0.is_empty() && r.chance(1, 12) { val += 1; v.push(Init::Cut(n.clone(), val, if r.chance(1, 2) { Some(val + 1000) } else { None }, if r.chance(1, 2) { Some((val + 2000) / 3 * 3) } else { None })); }
    }
    v
}

/// names that have a node in the zone the ZoneBuilder made
fn existing_nodes(inits: &[Init]) -> Vec<Nm> {
    let mut s = vec![Nm(vec![])];
    for i in inits {
        let n = match i { Init::Rrset(n, _, _) => n, Init::Cname(n, _) => n, Init::Cut(n, ..) => n };
        for k in 1..=n.0.len() { let p = Nm(n.0[..k].to_vec()); if !s.contains(&p) { s.push(p); } }
    }
    s
}

// ---------------------------------------------------------------- thread stress (supporting only)

/// the RRset number of a complete `D<ttl>[..]` observation of type t (u32::MAX if it is not one)
fn gen_of(obs: &str, t: u16) -> u32 {
    let first = obs.find('[').and_then(|p| obs[p + 1..].split(|c| c == ',' || c == ']').next()).and_then(|x| x.parse::<u32>().ok());
    match first { Some(v) => { let id = if t == T_SOA { v } else { v / 4 }; if obs == format!("D{}", fmt_rr(t, id)) { id } else { u32::MAX } } None => u32::MAX }
}

/// Real threads, supporting evidence only: 8 reader threads and one writer thread.
/// The run is count-based (a fixed number of writer sessions, every third one
/// aborted; readers run until the writer is done), and every 16th session waits -
/// by counting reader passes, not by time - until a reader pass has started while
/// the session is open, so that some overlap is there whatever the machine load.
/// The writer publishes a step counter; a reader pass records the counter when it
/// acquires its ReadZone and when it has finished its second look, which tells what
/// the writer did meanwhile.  Returns the coverage as a JSON object.
fn stress(out: &mut Out, sessions: u32) -> String {
    use std::sync::atomic::{AtomicBool, AtomicU64, Ordering::SeqCst};
    let names: Vec<Nm> = (2..8).map(Nm::flat).collect();
    let mut b = ZoneBuilder::new(apex(), Class::IN);
    for n in &names { b.insert_rrset(&n.abs(), mk_rrset(T_A, 1)).unwrap(); }
    b.insert_rrset(&apex(), mk_rrset(T_SOA, 1)).unwrap();
    let zone = b.build();
    let stop = Arc::new(AtomicBool::new(false));
    let bad: Arc<Mutex<Vec<String>>> = Arc::new(Mutex::new(vec![]));
    // writer progress: steps done (acquire, open, each update, commit/drop), commits done, and whether a session is open
    let steps = Arc::new(AtomicU64::new(0));
    let commits_done = Arc::new(AtomicU64::new(0));
    let session_open = Arc::new(AtomicBool::new(false));
    let passes_started = Arc::new(AtomicU64::new(0));
    #[derive(Default, Clone)]
    struct Cov { passes: u64, overlapped_steps: u64, overlapped_commit: u64, started_in_session: u64, held_across_2_commits: u64, gens: std::collections::BTreeSet<u32> }
    let mut hs = vec![];
    for _ in 0..8 {
        let (zone, stop, bad, names) = (zone.clone(), stop.clone(), bad.clone(), names.clone());
        let (steps, commits_done, session_open, passes_started) = (steps.clone(), commits_done.clone(), session_open.clone(), passes_started.clone());
        hs.push(std::thread::spawn(move || {
            let mut cov = Cov::default();
            while !stop.load(SeqCst) {
                let (s0, c0, in_session) = (steps.load(SeqCst), commits_done.load(SeqCst), session_open.load(SeqCst));
                passes_started.fetch_add(1, SeqCst);
                let rd = zone.read();
                let first: Vec<String> = names.iter().map(|n| observe(rd.as_ref(), n, T_A)).collect();
                let soa = observe(rd.as_ref(), &Nm(vec![]), T_SOA);
                // every name carries the generation of the version; all equal
                let g = if first[0].starts_with("D36") { Some(gen_of(&first[0], T_A)) } else { None };
                if first.iter().any(|x| x != &first[0]) || Some(gen_of(&soa, T_SOA)) != g || !soa.starts_with("D3600[") { bad.lock().unwrap().push(format!("torn version: {:?} soa {}", first, soa)); }
                match g { Some(g) if g < 1_000_000 => { cov.gens.insert(g); } _ => bad.lock().unwrap().push(format!("aborted or broken generation visible: {}", first[0])) }
                std::thread::yield_now();
                let again: Vec<String> = names.iter().rev().map(|n| observe(rd.as_ref(), n, T_A)).collect();
                if again.iter().any(|x| x != &first[0]) { bad.lock().unwrap().push(format!("held reader changed: {:?} -> {:?}", first, again)); }
                let (s1, c1) = (steps.load(SeqCst), commits_done.load(SeqCst));
                cov.passes += 1;
                if s1 > s0 { cov.overlapped_steps += 1; }
                if c1 > c0 { cov.overlapped_commit += 1; }
                if c1 >= c0 + 2 { cov.held_across_2_commits += 1; }
                if in_session { cov.started_in_session += 1; }
            }
            cov
        }));
    }
    let rt = tokio::runtime::Builder::new_current_thread().enable_all().build().unwrap();
    let mut gen = 1u32;
    let (mut commits, mut aborts, mut forced, mut forced_missed) = (0u64, 0u64, 0u64, 0u64);
    for k in 0..sessions {
        let abort = k % 3 == 2;
        let g = if abort { 1_000_000 + k } else { gen + 1 };
        let mut w = rt.block_on(zone.write());
        steps.fetch_add(1, SeqCst);
        let root = rt.block_on(w.open(false)).unwrap();
        session_open.store(true, SeqCst);
        steps.fetch_add(1, SeqCst);
        let p0 = passes_started.load(SeqCst);
        for (i, n) in names.iter().enumerate() {
            let h = rt.block_on(root.update_child(Label::from_slice(Nm::label(n.0[0]).as_bytes()).unwrap())).unwrap();
            rt.block_on(h.update_rrset(mk_rrset(T_A, g))).unwrap();
            steps.fetch_add(1, SeqCst);
            if k % 16 == 0 && i == 2 {
                // wait for a reader pass to start inside this session (bounded by a count of yields)
                forced += 1;
                let mut spins = 0u64;
                while passes_started.load(SeqCst) == p0 && spins < 5_000_000 { std::thread::yield_now(); spins += 1; }
                if passes_started.load(SeqCst) == p0 { forced_missed += 1; }
            }
        }
        rt.block_on(root.update_rrset(mk_rrset(T_SOA, g))).unwrap();
        steps.fetch_add(1, SeqCst);
        drop(root);
        if abort { session_open.store(false, SeqCst); drop(w); aborts += 1; }
        else { rt.block_on(w.commit(false)).unwrap(); commits_done.fetch_add(1, SeqCst); session_open.store(false, SeqCst); drop(w); gen = g; commits += 1; }
        steps.fetch_add(1, SeqCst);
    }
    stop.store(true, SeqCst);
    let mut tot = Cov::default();
    for h in hs {
        if let Ok(c) = h.join() {
            tot.passes += c.passes; tot.overlapped_steps += c.overlapped_steps; tot.overlapped_commit += c.overlapped_commit;
            tot.started_in_session += c.started_in_session; tot.held_across_2_commits += c.held_across_2_commits; tot.gens.extend(c.gens);
        }
    }
    let bad = bad.lock().unwrap();
    out.check(bad.is_empty(), "stress_inconsistent", "stress 8 readers 1 writer", &bad.first().cloned().unwrap_or_default());
    format!("{{\"writer_sessions\": {}, \"commits\": {}, \"aborts\": {}, \"writer_steps\": {}, \"reader_threads\": 8, \"reader_passes\": {}, \"passes_started_inside_a_session\": {}, \"passes_during_which_the_writer_stepped\": {}, \"passes_during_which_a_commit_happened\": {}, \"passes_held_across_two_or_more_commits\": {}, \"distinct_generations_seen_by_readers\": {}, \"sessions_that_waited_for_a_reader_pass\": {}, \"of_which_no_reader_showed_up\": {}, \"checked_per_pass\": \"6 names + SOA carry one generation (atomic commit, no aborted generation), second look by the same ReadZone unchanged\"}}",
        sessions, commits, aborts, steps.load(SeqCst), tot.passes, tot.started_in_session, tot.overlapped_steps, tot.overlapped_commit, tot.held_across_2_commits, tot.gens.len(), forced, forced_missed)
}

// ---------------------------------------------------------------- main

fn main() {
    let a = args();
    let mut out = Out::new(&a, "C09", 60);
    let mut r = Rng::new(a.seed);
    let mut idx = 0u64;
    if a.extra.iter().any(|x| x == "stress") {
        // c09 ... stress : only the thread run (for looking at its coverage)
        let cov = stress(&mut out, 30000);
        out.finish(&[("stress_supporting_only", cov)]);
        return;
    }
    out.check(ver_selftest(), "harness_version_layout", "ver_selftest", "transmute u32 -> Version does not match default()/next()");

    // ---- (1) Versioned<u32>: corpus
    let corpus: Vec<(Vec<COp>, Vec<u32>)> = vec![
        // remove in the first version: pop, then rollback finds nothing
        (vec![COp::Upd(1, 5), COp::Rem(1), COp::Rb(1)], vec![0, 1, 2]),
        // remove with nothing stored: no marker
        (vec![COp::Rem(1), COp::Upd(1, 5), COp::Rb(1)], vec![0, 1, 2]),
        // update after remove in one version, on top of an older value
        (vec![COp::Upd(0, 7), COp::Rem(1), COp::Upd(1, 8), COp::Rem(1), COp::Rb(1)], vec![0, 1, 2]),
        // marker already there: remove is a no-op, rollback must not pop it
        (vec![COp::Upd(0, 7), COp::Rem(1), COp::Rem(2), COp::Rb(2), COp::Upd(2, 9), COp::Rb(2)], vec![0, 1, 2, 3]),
        // across the 2^32 wrap
        (vec![COp::Upd(0xFFFF_FFFE, 1), COp::Upd(0xFFFF_FFFF, 2), COp::Upd(0, 3), COp::Rem(1), COp::Rb(1), COp::Rb(0)], vec![0xFFFF_FFFD, 0xFFFF_FFFE, 0xFFFF_FFFF, 0, 1, 2]),
        // versions 2^31 apart are incomparable: `<=` is false both ways
        (vec![COp::Upd(5, 1), COp::Upd(0x8000_0005, 2)], vec![5, 0x8000_0004, 0x8000_0005, 0x8000_0006, 4]),
        // same-version update overwrites
        (vec![COp::Upd(3, 1), COp::Upd(3, 2), COp::Rb(4), COp::Rb(3)], vec![2, 3, 4]),
    ];
    for (ops, probes) in &corpus { idx += 1; if out.wants(idx) { cell_case(&mut out, ops, probes, "cell_corpus"); } }
    let n_cell = if a.thorough { 60_000 } else { 2_000 } * a.scale;
    for _ in 0..n_cell {
        let base = match r.below(4) { 0 => 0, 1 => 0xFFFF_FFF0u32.wrapping_add(r.below(32) as u32), 2 => 0x7FFF_FFF0u32.wrapping_add(r.below(32) as u32), _ => r.u32() };
        let n_ops = r.range(1, 12) as usize;
        let mut ops = vec![];
        let mut val = 0;
        for _ in 0..n_ops {
            let v = cell_version(&mut r, base);
            val += 1;
            ops.push(match r.below(7) { 0..=2 => COp::Upd(v, val), 3 | 4 => COp::Rem(v), _ => COp::Rb(v) });
        }
        let mut probes: Vec<u32> = (0..4).map(|_| cell_version(&mut r, base)).collect();
        probes.push(base); probes.push(base.wrapping_add(6));
        idx += 1;
        if out.wants(idx) { cell_case(&mut out, &ops, &probes, "cell_random"); }
    }
    let n_sess = if a.thorough { 20_000 } else { 1_500 } * a.scale;
    for _ in 0..n_sess {
        let base = match r.below(4) { 0 => 0, 1 => 0xFFFF_FFF8u32.wrapping_add(r.below(8) as u32), 2 => 0x7FFF_FFF8u32.wrapping_add(r.below(8) as u32), _ => r.u32() };
        idx += 1;
        let n = r.range(1, 6) as usize;
        let mut rr = r.fork();
        if out.wants(idx) { cell_sessions(&mut out, &mut rr, base, n); }
    }

    // ---- (1b) ZoneVersions / VersionMarker
    {
        use VOp::*;
        let corpus: Vec<Vec<VOp>> = vec![
            vec![Acquire(0), Commit, Acquire(1), Commit, Release(1), Clean, Commit, Clean],
            vec![Clean, Commit, Clean, Commit, Commit, Clean],
            vec![Acquire(0), Acquire(0), Commit, Release(0), Clean, Acquire(1), Commit, Commit, Acquire(2), Commit, Release(1), Clean, Release(2), Clean],
            // two dead versions at once: the result is the greater one
            vec![Acquire(0), Commit, Acquire(1), Commit, Acquire(2), Commit, Release(1), Release(2), Clean, Release(0), Clean],
        ];
        for c in &corpus { idx += 1; if out.wants(idx) { versions_case(&mut out, c, "zv_corpus"); } }
        let n_zv = if a.thorough { 20_000 } else { 500 } * a.scale;
        for _ in 0..n_zv {
            let n = r.range(3, 25) as usize;
            let ops: Vec<VOp> = (0..n).map(|_| match r.below(10) { 0..=2 => Commit, 3..=5 => Acquire(r.below(4) as u32), 6 | 7 => Release(r.below(4) as u32), _ => Clean }).collect();
            idx += 1;
            if out.wants(idx) { versions_case(&mut out, &ops, "zv_random"); }
        }
    }

    // ---- (2) zone traces
    let p = |v: &[u32]| Nm(v.to_vec());
    // universe: apex, wildcard, children, grandchildren (incl. wildcards below), one three-label name
    let names: Vec<Nm> = vec![p(&[]), p(&[1]), p(&[2]), p(&[3]), p(&[4]), p(&[2, 3]), p(&[2, 1]), p(&[3, 4]), p(&[3, 4, 2]), p(&[5, 2]), p(&[4, 5])];
    let flat_names: Vec<Nm> = (0..6).map(Nm::flat).collect();
    let soa = Init::Rrset(Nm(vec![]), T_SOA, 1);
    let www = Init::Rrset(Nm::flat(2), T_A, 11);
    let st = |e: Ev| Ev::Stale(Box::new(e));
    {
        let g = Nm::flat(3);
        let traces: Vec<(Vec<Init>, Vec<Ev>)> = vec![
            // aborted update_child: n3 is NXDOMAIN before, and must be after
            (vec![soa.clone(), www.clone()], vec![Ev::Acquire(0), Ev::Query(0, g.clone(), T_A), Ev::WAcquire, Ev::WOpen, Ev::Update(g.clone(), T_A, 12), Ev::Query(0, g.clone(), T_A), Ev::Drop,
                Ev::Query(0, g.clone(), T_A), Ev::Acquire(1), Ev::Query(1, g.clone(), T_A), Ev::Walk(1)]),
            // committed creation seen by an old reader
            (vec![soa.clone(), www.clone()], vec![Ev::Acquire(0), Ev::WAcquire, Ev::WOpen, Ev::Update(g.clone(), T_A, 12), Ev::Commit, Ev::Query(0, g.clone(), T_A), Ev::Acquire(1), Ev::Query(1, g.clone(), T_A), Ev::Drop]),
            // abort of changes to existing names only
            (vec![soa.clone(), www.clone()], vec![Ev::Acquire(0), Ev::WAcquire, Ev::WOpen, Ev::Update(Nm::flat(2), T_A, 13), Ev::Remove(Nm::flat(2), T_A), Ev::Update(Nm::flat(2), T_TXT, 14), Ev::RemoveAll,
                Ev::Update(Nm::flat(0), T_SOA, 2), Ev::Query(0, Nm::flat(2), T_A), Ev::Drop, Ev::Acquire(1), Ev::Query(1, Nm::flat(2), T_A), Ev::Query(1, Nm::flat(2), T_TXT), Ev::Walk(1), Ev::Walk(0)]),
            // two successive versions, reader held across both, second writer while first is alive
            (vec![soa.clone(), www.clone()], vec![Ev::Acquire(0), Ev::WAcquire, Ev::WAcquire, Ev::WOpen, Ev::Update(Nm::flat(2), T_A, 21), Ev::Commit, Ev::Acquire(1), Ev::WOpen, Ev::Remove(Nm::flat(2), T_A), Ev::Commit,
                Ev::Acquire(2), Ev::Drop, Ev::WAcquire, Ev::Query(0, Nm::flat(2), T_A), Ev::Query(1, Nm::flat(2), T_A), Ev::Query(2, Nm::flat(2), T_A), Ev::Walk(0), Ev::Walk(1), Ev::Walk(2)]),
            // remove in the first version of a type, then abort
            (vec![soa.clone(), www.clone()], vec![Ev::Acquire(0), Ev::WAcquire, Ev::WOpen, Ev::Update(Nm::flat(2), T_TXT, 31), Ev::Remove(Nm::flat(2), T_TXT), Ev::Update(Nm::flat(2), T_TXT, 32), Ev::Drop, Ev::Acquire(1), Ev::Query(1, Nm::flat(2), T_TXT), Ev::Walk(1)]),
            // wildcard created by an aborted writer
            (vec![soa.clone(), www.clone()], vec![Ev::Acquire(0), Ev::Query(0, Nm::flat(4), T_A), Ev::WAcquire, Ev::WOpen, Ev::Update(Nm::flat(1), T_A, 41), Ev::Drop, Ev::Acquire(1), Ev::Query(1, Nm::flat(4), T_A)]),
            // a second writer requested while the first is active; the first commits and goes away;
            // the second must then write at the version after the committed one
            (vec![soa.clone(), www.clone()], vec![Ev::Acquire(0), Ev::WAcquire, Ev::WQueue, Ev::WOpen, Ev::Update(Nm::flat(2), T_A, 21), Ev::Commit, Ev::Acquire(1), Ev::Drop, Ev::WTake, Ev::WOpen,
                Ev::Update(Nm::flat(2), T_A, 22), Ev::Update(Nm::flat(3), T_TXT, 23), Ev::Query(1, Nm::flat(2), T_A), Ev::Query(1, Nm::flat(3), T_TXT), Ev::Acquire(2), Ev::Query(2, Nm::flat(2), T_A), Ev::Drop,
                Ev::Acquire(3), Ev::Query(3, Nm::flat(2), T_A), Ev::Walk(3), Ev::Walk(0)]),
            // cname set and rolled back
            (vec![soa.clone(), www.clone()], vec![Ev::Acquire(0), Ev::WAcquire, Ev::WOpen, Ev::CnameAt(Nm::flat(2), 51), Ev::Query(0, Nm::flat(2), T_A), Ev::Drop, Ev::Acquire(1), Ev::Query(1, Nm::flat(2), T_A), Ev::Walk(1)]),
            // below the first level: a new three-label name makes two empty non-terminals; aborted, then committed
            (vec![soa.clone(), www.clone()], vec![Ev::Acquire(0), Ev::WAcquire, Ev::WOpen, Ev::Update(p(&[3, 4, 2]), T_A, 61), Ev::Query(0, p(&[3, 4]), T_A), Ev::Query(0, p(&[3]), T_A), Ev::Drop,
                Ev::Acquire(1), Ev::Query(1, p(&[3, 4, 2]), T_A), Ev::Query(1, p(&[3, 4]), T_A), Ev::Walk(1), Ev::WAcquire, Ev::WOpen, Ev::Update(p(&[3, 4, 2]), T_A, 62), Ev::Commit,
                Ev::Acquire(2), Ev::Query(2, p(&[3, 4, 2]), T_A), Ev::Query(2, p(&[3, 4]), T_A), Ev::Query(2, p(&[3]), T_TXT), Ev::Query(1, p(&[3, 4]), T_A), Ev::Walk(2), Ev::Walk(1)]),
            // remove_all at an inner node reaches the grandchildren; rollback restores them
            (vec![soa.clone(), Init::Rrset(p(&[3]), T_A, 71), Init::Rrset(p(&[3, 4]), T_A, 72), Init::Rrset(p(&[3, 4, 2]), T_TXT, 73)],
                vec![Ev::Acquire(0), Ev::WAcquire, Ev::WOpen, Ev::RemoveAllAt(p(&[3])), Ev::Query(0, p(&[3, 4, 2]), T_TXT), Ev::Walk(0), Ev::Drop, Ev::Acquire(1), Ev::Query(1, p(&[3, 4, 2]), T_TXT), Ev::Walk(1),
                     Ev::WAcquire, Ev::WOpen, Ev::RemoveAllAt(p(&[3])), Ev::Commit, Ev::Acquire(2), Ev::Query(2, p(&[3, 4, 2]), T_TXT), Ev::Query(2, p(&[3]), T_A), Ev::Walk(2), Ev::Walk(0)]),
            // wildcard below the first level and the empty non-terminal that blocks it
            (vec![soa.clone(), Init::Rrset(p(&[2, 1]), T_A, 81)], vec![Ev::Acquire(0), Ev::Query(0, p(&[2, 3]), T_A), Ev::Query(0, p(&[2, 3, 4]), T_A), Ev::WAcquire, Ev::WOpen, Ev::Update(p(&[2, 3, 4]), T_A, 82),
                Ev::Query(0, p(&[2, 3]), T_A), Ev::Commit, Ev::Acquire(1), Ev::Query(1, p(&[2, 3]), T_A), Ev::Query(1, p(&[2, 5]), T_A), Ev::Query(0, p(&[2, 3]), T_A), Ev::Walk(1)]),
            // zone cut: referral at and below, DS at the cut, walk ends the descent; made and unmade by writers
            (vec![soa.clone(), www.clone(), Init::Cut(p(&[3]), 91, Some(92), Some(93)), Init::Rrset(p(&[3, 4]), T_A, 94)],
                vec![Ev::Acquire(0), Ev::Query(0, p(&[3]), T_A), Ev::Query(0, p(&[3]), T_DS), Ev::Query(0, p(&[3, 4]), T_A), Ev::Query(0, p(&[3, 5, 2]), T_A), Ev::Walk(0),
                     Ev::WAcquire, Ev::WOpen, Ev::Regular(p(&[3])), Ev::CutAt(p(&[2]), 95, None, None), Ev::Query(0, p(&[3, 4]), T_A), Ev::Commit, Ev::Acquire(1),
                     Ev::Query(1, p(&[3, 4]), T_A), Ev::Query(1, p(&[2]), T_A), Ev::Query(1, p(&[2]), T_DS), Ev::Query(0, p(&[2]), T_A), Ev::Walk(1), Ev::Walk(0),
                     Ev::WOpen, Ev::CutAt(p(&[3]), 96, None, Some(99)), Ev::Drop, Ev::Acquire(2), Ev::Query(2, p(&[3, 4]), T_A), Ev::Walk(2)]),
            // commit(true): serial bumped unless the writer stored a SOA; removing the SOA counts as not having stored one
            (vec![soa.clone(), www.clone()], vec![Ev::Acquire(0), Ev::WAcquire, Ev::WOpen, Ev::Update(Nm::flat(2), T_A, 13), Ev::CommitBump, Ev::Acquire(1), Ev::Query(1, Nm::flat(0), T_SOA), Ev::Query(0, Nm::flat(0), T_SOA),
                Ev::Query(1, Nm::flat(3), T_A), Ev::WOpen, Ev::Update(Nm::flat(0), T_SOA, 7), Ev::CommitBump, Ev::Acquire(2), Ev::Query(2, Nm::flat(0), T_SOA), Ev::WOpen, Ev::Remove(Nm::flat(0), T_SOA), Ev::CommitBump,
                Ev::Acquire(3), Ev::Query(3, Nm::flat(0), T_SOA), Ev::CommitBump, Ev::Drop, Ev::Acquire(0), Ev::Query(0, Nm::flat(0), T_SOA), Ev::Walk(0), Ev::Walk(1)]),
            // commit(true) at the end of the serial space: 2^32 - 1 is followed by serial 0, a SOA like any other
            (vec![Init::Rrset(Nm(vec![]), T_SOA, 0xFFFF_FFFF), www.clone()], vec![Ev::Acquire(0), Ev::WAcquire, Ev::CommitBump, Ev::Acquire(1), Ev::Query(1, Nm::flat(0), T_SOA), Ev::Query(1, Nm::flat(3), T_A),
                Ev::Query(0, Nm::flat(0), T_SOA), Ev::CommitBump, Ev::Acquire(2), Ev::Query(2, Nm::flat(0), T_SOA), Ev::Walk(1), Ev::Walk(2), Ev::Walk(0)]),
            // the aborted version removes all data of a name (it stops existing there): no marker of that
            // version stays anywhere, and the next writer reuses the version number below that name
            (vec![soa.clone(), Init::Rrset(p(&[2, 3]), T_A, 11), Init::Rrset(p(&[2, 3]), T_TXT, 12)],
                vec![Ev::Acquire(0), Ev::WAcquire, Ev::WOpen, Ev::Remove(p(&[2, 3]), T_A), Ev::Remove(p(&[2, 3]), T_TXT), Ev::RemoveAll, Ev::Dump, Ev::Query(0, p(&[2, 3]), T_A), Ev::Drop, Ev::Dump,
                     Ev::WAcquire, Ev::WOpen, Ev::Update(p(&[2, 3, 4]), T_TXT, 7), Ev::Dump, Ev::Commit, Ev::Dump, Ev::Acquire(1), Ev::Query(1, p(&[2, 3]), T_A), Ev::Query(1, p(&[2, 3, 4]), T_TXT), Ev::Query(0, p(&[2, 3, 4]), T_TXT), Ev::Walk(1), Ev::Walk(0)]),
            // update then remove within one version, in the first version of a type and on top of an older value; abort, then the same committed
            (vec![soa.clone(), www.clone()], vec![Ev::Acquire(0), Ev::WAcquire, Ev::WOpen, Ev::Update(Nm::flat(2), T_A, 31), Ev::Remove(Nm::flat(2), T_A), Ev::Update(Nm::flat(2), T_TXT, 32), Ev::Remove(Nm::flat(2), T_TXT), Ev::Dump,
                Ev::Update(p(&[4, 5]), T_A, 33), Ev::Remove(p(&[4, 5]), T_A), Ev::Dump, Ev::Drop, Ev::Dump, Ev::WAcquire, Ev::WOpen, Ev::Update(Nm::flat(2), T_A, 34), Ev::Remove(Nm::flat(2), T_A), Ev::Update(Nm::flat(2), T_TXT, 35),
                Ev::Remove(Nm::flat(2), T_TXT), Ev::Dump, Ev::Commit, Ev::Dump, Ev::Acquire(1), Ev::Query(1, Nm::flat(2), T_A), Ev::Query(1, Nm::flat(2), T_TXT), Ev::Query(0, Nm::flat(2), T_A), Ev::Walk(1), Ev::Walk(0)]),
            // names two and three labels below a node that exists only in an uncommitted / abandoned / later version,
            // with a wildcard beside it: the old readers keep the wildcard answer, new ones get the empty non-terminal
            (vec![soa.clone(), Init::Rrset(p(&[3, 1]), T_A, 41)], vec![Ev::Acquire(0), Ev::Query(0, p(&[3, 4, 2]), T_A), Ev::Query(0, p(&[3, 4]), T_A), Ev::WAcquire, Ev::WOpen, Ev::Update(p(&[3, 4, 2]), T_A, 42),
                Ev::Query(0, p(&[3, 4, 2]), T_A), Ev::Query(0, p(&[3, 4]), T_A), Ev::Query(0, p(&[3, 4, 5]), T_A), Ev::Drop, Ev::Acquire(1), Ev::Query(1, p(&[3, 4, 2]), T_A), Ev::Query(1, p(&[3, 4]), T_A),
                Ev::WAcquire, Ev::WOpen, Ev::Update(p(&[3, 4, 2]), T_A, 43), Ev::Update(p(&[3, 4, 1]), T_TXT, 44), Ev::Commit, Ev::Acquire(2), Ev::Query(2, p(&[3, 4, 2]), T_A), Ev::Query(2, p(&[3, 4]), T_A), Ev::Query(2, p(&[3, 4, 5]), T_TXT),
                Ev::Query(2, p(&[3, 5, 2]), T_A), Ev::Query(1, p(&[3, 4, 2]), T_A), Ev::Query(1, p(&[3, 4, 5]), T_TXT), Ev::Query(0, p(&[3, 4]), T_A), Ev::WOpen, Ev::RemoveAllAt(p(&[3, 4])), Ev::Commit, Ev::Acquire(3),
                Ev::Query(3, p(&[3, 4, 2]), T_A), Ev::Query(3, p(&[3, 4]), T_A), Ev::Query(2, p(&[3, 4, 2]), T_A), Ev::Walk(3), Ev::Walk(2), Ev::Walk(0)]),
            // a WriteZone kept after commit and re-opened (as ZoneUpdater does between batches) still holds the lock:
            // a queued writer and fresh requests stay pending through commit, re-open and the second commit
            (vec![soa.clone(), www.clone()], vec![Ev::WAcquire, Ev::WQueue, Ev::WOpen, Ev::Update(Nm::flat(2), T_A, 51), Ev::Commit, Ev::WAcquire, Ev::Acquire(0), Ev::WOpen, Ev::WAcquire, Ev::Update(Nm::flat(2), T_A, 52),
                Ev::Query(0, Nm::flat(2), T_A), Ev::CommitBump, Ev::WAcquire, Ev::Acquire(1), Ev::Query(1, Nm::flat(2), T_A), Ev::Dump, Ev::Drop, Ev::WTake, Ev::WOpen, Ev::Update(Nm::flat(2), T_A, 53), Ev::Dump,
                Ev::Query(1, Nm::flat(2), T_A), Ev::Commit, Ev::Acquire(2), Ev::Query(2, Nm::flat(2), T_A), Ev::Query(2, Nm::flat(0), T_SOA), Ev::Dump]),
            // commit(true) keeps whatever SOA the writer stored unless it is the published one: a serial
            // that is smaller as a number (across the 2^32 wrap, or simply older), and the same SOA again
            (vec![Init::Rrset(Nm(vec![]), T_SOA, 0xFFFF_FFF0), www.clone()], vec![Ev::Acquire(0), Ev::WAcquire, Ev::WOpen, Ev::Update(Nm::flat(0), T_SOA, 5), Ev::CommitBump, Ev::Acquire(1), Ev::Query(1, Nm::flat(0), T_SOA),
                Ev::WOpen, Ev::Update(Nm::flat(0), T_SOA, 3), Ev::CommitBump, Ev::Acquire(2), Ev::Query(2, Nm::flat(0), T_SOA), Ev::WOpen, Ev::Update(Nm::flat(0), T_SOA, 3), Ev::CommitBump, Ev::Acquire(3), Ev::Query(3, Nm::flat(0), T_SOA),
                Ev::WOpen, Ev::Update(Nm::flat(0), T_SOA, 0x8000_0003), Ev::CommitBump, Ev::Release(0), Ev::Acquire(0), Ev::Query(0, Nm::flat(0), T_SOA), Ev::Query(1, Nm::flat(3), T_A), Ev::Walk(0), Ev::Walk(2)]),
            // ANY
            (vec![soa.clone(), www.clone(), Init::Rrset(Nm::flat(2), T_TXT, 12)], vec![Ev::Acquire(0), Ev::Query(0, Nm::flat(2), T_ANY), Ev::Query(0, Nm::flat(3), T_ANY), Ev::Query(0, Nm::flat(0), T_ANY),
                Ev::WAcquire, Ev::WOpen, Ev::Remove(Nm::flat(2), T_A), Ev::Remove(Nm::flat(2), T_TXT), Ev::Update(Nm::flat(3), T_AAAA, 13), Ev::Query(0, Nm::flat(2), T_ANY), Ev::Commit, Ev::Acquire(1),
                Ev::Query(1, Nm::flat(2), T_ANY), Ev::Query(1, Nm::flat(3), T_ANY), Ev::Query(0, Nm::flat(3), T_ANY)]),
        ];
        for (i, e) in &traces { idx += 1; if out.wants(idx) { run_trace(&mut out, i, e, names.clone(), "zt_corpus"); } }
    }
    // flat zones (apex, wildcard, four children)
    let n_tr = if a.thorough { 15_000 } else { 330 } * a.scale;
    for k in 0..n_tr {
        let inits = gen_inits(&mut r, &flat_names[..5], 4);
        // two thirds of the traces only touch names that have a node already
        let create_ok = k % 3 == 0;
        let targets = if create_ok { flat_names.clone() } else { existing_nodes(&inits) };
        let evs = gen_trace(&mut r, &flat_names, &targets, if a.thorough { 40 } else { 30 }, false);
        idx += 1;
        if out.wants(idx) { run_trace(&mut out, &inits, &evs, flat_names.clone(), if create_ok { "zt_flat_create" } else { "zt_flat" }); }
    }
    // trees: names up to three labels below the apex
    let n_deep = if a.thorough { 20_000 } else { 450 } * a.scale;
    for k in 0..n_deep {
        let inits = gen_inits(&mut r, &names[..9], 3);
        let create_ok = k % 3 != 1;
        let targets = if create_ok { names.clone() } else { existing_nodes(&inits) };
        let evs = gen_trace(&mut r, &names, &targets, if a.thorough { 40 } else { 30 }, false);
        idx += 1;
        if out.wants(idx) { run_trace(&mut out, &inits, &evs, names.clone(), if create_ok { "zt_tree_create" } else { "zt_tree" }); }
    }
    // nodes that exist only in some versions, wildcards at every level, names up to three labels deep
    let ghost_names: Vec<Nm> = vec![p(&[]), p(&[1]), p(&[3]), p(&[3, 1]), p(&[3, 4]), p(&[3, 4, 1]), p(&[3, 4, 2]), p(&[3, 4, 5]), p(&[3, 5, 2]), p(&[2, 4, 2])];
    let n_ghost = if a.thorough { 10_000 } else { 300 } * a.scale;
    for _ in 0..n_ghost {
        // sparse initial content so that most nodes start out absent
        let inits = gen_inits(&mut r, &ghost_names[..7], 1);
        let evs = gen_trace(&mut r, &ghost_names, &ghost_names, 34, false);
        idx += 1;
        if out.wants(idx) { run_trace(&mut out, &inits, &evs, ghost_names.clone(), "zt_ghost"); }
    }
    // the same with diff recording switched on: it must not change what any version contains
    let n_diff = if a.thorough { 5_000 } else { 200 } * a.scale;
    for _ in 0..n_diff {
        let inits = gen_inits(&mut r, &names[..9], 3);
        let evs = gen_trace(&mut r, &names, &names, 40, false);
        idx += 1;
        if out.wants(idx) { run_trace(&mut out, &inits, &evs, names.clone(), "zt_diff"); }
    }
    // long histories: many successive versions, readers held across several of them
    let n_long = if a.thorough { 600 } else { 40 } * a.scale;
    for _ in 0..n_long {
        let inits = gen_inits(&mut r, &names[..9], 3);
        let evs = gen_trace(&mut r, &names, &names, 160, false);
        idx += 1;
        if out.wants(idx) { run_trace(&mut out, &inits, &evs, names.clone(), "zt_long"); }
    }
    // write handles kept beyond the commit/drop that ended their session
    {
        let traces: Vec<(Vec<Init>, Vec<Ev>)> = vec![
            // after commit the handle writes into the published version
            (vec![soa.clone(), www.clone()], vec![Ev::WAcquire, Ev::WOpen, Ev::Update(Nm::flat(2), T_A, 21), Ev::Commit, Ev::Acquire(1),
                st(Ev::Update(Nm::flat(2), T_A, 22)), Ev::Query(1, Nm::flat(2), T_A), Ev::Acquire(2), Ev::Query(2, Nm::flat(2), T_A)]),
            // after drop it writes without the lock, at the version number of the next writer
            (vec![soa.clone(), www.clone()], vec![Ev::WAcquire, Ev::WOpen, Ev::Update(Nm::flat(2), T_A, 21), Ev::Drop, st(Ev::Update(Nm::flat(2), T_TXT, 31)),
                Ev::WAcquire, Ev::WOpen, Ev::Update(Nm::flat(2), T_A, 22), Ev::Commit, Ev::Acquire(1), Ev::Query(1, Nm::flat(2), T_TXT), Ev::Walk(1)]),
            // an older handle writes into the middle of history
            (vec![soa.clone(), www.clone()], vec![Ev::Acquire(0), Ev::WAcquire, Ev::WOpen, Ev::Update(Nm::flat(2), T_A, 21), Ev::Commit, Ev::Commit,
                Ev::Drop, Ev::Acquire(1), st(Ev::Remove(Nm::flat(2), T_A)), Ev::Query(1, Nm::flat(2), T_A), Ev::Walk(1), Ev::Query(0, Nm::flat(2), T_A),
                st(Ev::Update(Nm::flat(2), T_A, 23)), Ev::Query(1, Nm::flat(2), T_A), Ev::Query(0, Nm::flat(2), T_A)]),
        ];
        for (i, e) in &traces { idx += 1; if out.wants(idx) { run_trace(&mut out, i, e, flat_names.clone(), "zt_stale_corpus"); } }
    }
    let n_stale = if a.thorough { 6_000 } else { 250 } * a.scale;
    for k in 0..n_stale {
        let (u, nin) = if k % 2 == 0 { (&flat_names, 5) } else { (&names, 9) };
        let inits = gen_inits(&mut r, &u[..nin], 4);
        let evs = gen_trace(&mut r, u, u, 30, true);
        idx += 1;
        if out.wants(idx) { run_trace(&mut out, &inits, &evs, u.clone(), "zt_stale"); }
    }

    // ---- (3) supporting only: real threads
    let mut extra: Vec<(&str, String)> = vec![];
    if a.thorough && a.only.is_none() {
        out.begin("stress");
        let cov = stress(&mut out, 30000);
        extra.push(("stress_supporting_only", cov));
    }
    let fc = FAIL_COUNTS.lock().unwrap().iter().map(|(k, v)| format!("{}: {}", json_str(k), v)).collect::<Vec<_>>().join(", ");
    extra.push(("zone_oracle_failing_traces_by_class", format!("{{{}}}", fc)));
    out.finish(&extra);
}
