//! C09 -- zone readers see one committed version; commits are atomic, aborts
//! invisible; writers are serialised; walk enumerates the reader's version.
//!
//! T2 (a) `cell ...`: operation sequences on `Versioned<u32>` (through the
//!        cfg(domain_verif) hook) -- observation after every operation = the
//!        stored entry list (from `Debug`) and `get` at a set of probe versions,
//!        incl. version numbers around the 2^32 wrap and 2^31 apart.
//!    (b) `zt ...`: API-call traces (ZoneBuilder content; reader acquire / query /
//!        walk / release; writer write().await / open / update_child+update_rrset /
//!        remove_rrset / remove_all / make_cname / make_regular / commit / drop) on
//!        a zone with an apex, the wildcard label and a few direct children --
//!        observation = the answers of the trace's queries and walks.
//! Oracle (independent of the model): every held reader keeps observing the
//! snapshot (all (name,type) answers + sorted walk) it saw when it was acquired,
//! after every writer step; a fresh reader sees exactly the committed content
//! (never uncommitted data, all of a commit's data at once, the old content after
//! an abort); walk = the committed record set; a second `write().await` stays
//! pending while a writer exists and is granted afterwards.  Traces over two-level
//! names take part in the snapshot/abort checks only.
//! Supporting only (thorough tier): a real-thread stress run, 8 readers + 1 writer.
use bytes::Bytes;
use domain::base::iana::{Class, Rcode, Rtype};
use domain::base::name::{Label, Name, ParsedName, ToLabelIter, ToName};
use domain::base::net::{Ipv4Addr, Ipv6Addr};
use domain::base::{Message, MessageBuilder, Serial, Ttl};
use domain::rdata::{Aaaa, Cname, Soa, Txt, ZoneRecordData, A};
use domain::zonetree::verif_hooks::{Version, Versioned};
use domain::zonetree::{ReadableZone, Rrset, SharedRr, SharedRrset, WritableZone, WritableZoneNode, Zone, ZoneBuilder};
use dv_harness::*;
use std::collections::{BTreeMap, BTreeSet};
use std::sync::{Arc, Mutex};
use std::time::Duration;

const APEX: &str = "zone.test.";
const T_A: u16 = 1;
const T_CNAME: u16 = 5;
const T_SOA: u16 = 6;
const T_TXT: u16 = 16;
const T_AAAA: u16 = 28;

// ---------------------------------------------------------------- Versioned<u32> through the hook

/// `Version` has no public constructor from a number (only `default()` and
/// `next()`); it is a newtype over `Serial(pub u32)`.  The layout assumption is
/// verified at start-up by `ver_selftest` against default()/next().
fn ver(x: u32) -> Version {
    unsafe { std::mem::transmute::<u32, Version>(x) }
}
fn ver_selftest() -> bool {
    let mut v = Version::default();
    for i in 0..5u32 {
        if v != ver(i) || format!("{:?}", v) != format!("Version(Serial({}))", i) { return false; }
        v = v.next();
    }
    format!("{:?}", ver(0xFFFF_FFFF).next()) == "Version(Serial(0))"
}

/// Entry list of a Versioned<u32> from its Debug output, in Vec order.
fn entries(v: &Versioned<u32>) -> Vec<(u32, Option<u32>)> {
    let s = format!("{:?}", v);
    let mut out = vec![];
    let mut rest = s.as_str();
    while let Some(p) = rest.find("Serial(") {
        rest = &rest[p + 7..];
        let e = rest.find(')').unwrap();
        let ver: u32 = rest[..e].parse().unwrap();
        rest = &rest[e..];
        let p2 = rest.find(", ").unwrap();
        rest = &rest[p2 + 2..];
        if rest.starts_with("None") { out.push((ver, None)); }
        else if rest.starts_with("Some(") {
            let e = rest.find(')').unwrap();
            out.push((ver, Some(rest[5..e].parse().unwrap())));
        } else { panic!("unparsed Debug of Versioned: {}", s); }
    }
    out
}
fn show_entries(e: &[(u32, Option<u32>)]) -> String {
    if e.is_empty() { return ".".into(); }
    e.iter().map(|(v, x)| format!("{}:{}", v, x.map_or("-".to_string(), |x| x.to_string()))).collect::<Vec<_>>().join(",")
}

#[derive(Clone, Copy, Debug)]
enum COp { Upd(u32, u32), Rem(u32), Rb(u32) }
impl COp {
    fn word(&self) -> String { match self { COp::Upd(v, x) => format!("u:{}:{}", v, x), COp::Rem(v) => format!("r:{}", v), COp::Rb(v) => format!("b:{}", v) } }
    fn apply(&self, c: &mut Versioned<u32>) { match *self { COp::Upd(v, x) => c.update(ver(v), x), COp::Rem(v) => c.remove(ver(v)), COp::Rb(v) => c.rollback(ver(v)) } }
}

fn cell_case(out: &mut Out, ops: &[COp], probes: &[u32], kind: &str) {
    let case = format!("cell p:{} {}", probes.iter().map(|p| p.to_string()).collect::<Vec<_>>().join(","),
        ops.iter().map(|o| o.word()).collect::<Vec<_>>().join(" "));
    out.begin(&case);
    let ops2 = ops.to_vec(); let probes2 = probes.to_vec();
    let r = catch(move || {
        let mut c = Versioned::<u32>::new();
        let mut parts = vec![];
        for o in &ops2 {
            o.apply(&mut c);
            let g: Vec<String> = probes2.iter().map(|p| c.get(ver(*p)).map_or("-".to_string(), |x| x.to_string())).collect();
            parts.push(format!("{}/{}", show_entries(&entries(&c)), g.join(",")));
        }
        parts.join(" | ")
    });
    let obs = match r { Ok(s) => s, Err(_) => "Panic".into() };
    out.check(obs != "Panic", "versioned_panic", &case, "");
    out.case(&case, &obs, ops.len() >= 3, kind);
}

/// Protocol-shaped histories on one cell: successive writer sessions at
/// version = current.next(), each a random mix of update/remove/rollback at that
/// version, ended by commit or rollback.  Oracle: committed versions keep their
/// value during and after every session; rollback restores the exact entry list;
/// after a commit the new version reads the last written value.
fn cell_sessions(out: &mut Out, r: &mut Rng, base: u32, n_sessions: usize) {
    let mut c = Versioned::<u32>::new();
    let mut cur = base;
    let mut ops: Vec<COp> = vec![];
    let mut committed: Vec<(u32, Option<u32>)> = vec![(cur, None)]; // version -> expected value
    let mut probes: Vec<u32> = vec![cur];
    let mut val = 1u32;
    let mut fails: Vec<(String, String)> = vec![];
    for _ in 0..n_sessions {
        let w = cur.wrapping_add(1);
        let before = entries(&c);
        let mut expect = committed.last().unwrap().1; // value new readers would see
        for _ in 0..r.below(6) {
            let o = match r.below(8) { 0..=3 => { val += 1; COp::Upd(w, val) } 4..=6 => COp::Rem(w), _ => COp::Rb(w) };
            o.apply(&mut c);
            ops.push(o);
            match o { COp::Upd(_, x) => expect = Some(x), COp::Rem(_) => expect = None, COp::Rb(_) => expect = committed.last().unwrap().1 }
            for (v, x) in &committed {
                if c.get(ver(*v)).copied() != *x { fails.push(("cell_snapshot_changed".into(), format!("get {} = {:?} expected {:?}", v, c.get(ver(*v)), x))); }
            }
            if c.get(ver(w)).copied() != expect { fails.push(("cell_write_value".into(), format!("get {} = {:?} expected {:?}", w, c.get(ver(w)), expect))); }
        }
        if r.chance(1, 2) {
            cur = w;
            committed.push((w, expect));
            probes.push(w);
        } else {
            let o = COp::Rb(w);
            o.apply(&mut c);
            ops.push(o);
            if entries(&c) != before { fails.push(("cell_rollback_not_exact".into(), format!("{} vs {}", show_entries(&entries(&c)), show_entries(&before)))); }
        }
        for (v, x) in &committed {
            if c.get(ver(*v)).copied() != *x { fails.push(("cell_snapshot_changed".into(), format!("after session: get {} = {:?} expected {:?}", v, c.get(ver(*v)), x))); }
        }
    }
    probes.push(cur.wrapping_add(1));
    let case = format!("sessions base={} {}", base, ops.iter().map(|o| o.word()).collect::<Vec<_>>().join(" "));
    out.check(fails.iter().all(|f| f.0 != "cell_snapshot_changed"), "cell_snapshot_changed", &case, &fails.iter().find(|f| f.0 == "cell_snapshot_changed").map_or(String::new(), |f| f.1.clone()));
    out.check(fails.iter().all(|f| f.0 != "cell_rollback_not_exact"), "cell_rollback_not_exact", &case, &fails.iter().find(|f| f.0 == "cell_rollback_not_exact").map_or(String::new(), |f| f.1.clone()));
    out.check(fails.iter().all(|f| f.0 != "cell_write_value"), "cell_write_value", &case, &fails.iter().find(|f| f.0 == "cell_write_value").map_or(String::new(), |f| f.1.clone()));
    if !ops.is_empty() { cell_case(out, &ops, &probes, "cell_sessions"); }
}

fn cell_version(r: &mut Rng, base: u32) -> u32 {
    match r.below(10) {
        0..=5 => base.wrapping_add(r.below(6) as u32),
        6 => base.wrapping_add(0x8000_0000).wrapping_add(r.below(3) as u32).wrapping_sub(1),
        7 => base.wrapping_sub(1 + r.below(3) as u32),
        8 => *r.pick(&[0u32, 1, 0xFFFF_FFFF, 0xFFFF_FFFE, 0x7FFF_FFFF, 0x8000_0000]),
        _ => r.u32(),
    }
}

// ---------------------------------------------------------------- names, rrsets

/// Labels from the apex downwards; [] is the apex.
#[derive(Clone, PartialEq, Eq, Hash, PartialOrd, Ord, Debug)]
struct Nm(Vec<String>);
impl Nm {
    fn flat(id: u32) -> Nm { match id { 0 => Nm(vec![]), 1 => Nm(vec!["*".into()]), k => Nm(vec![format!("n{}", k)]) } }
    fn flat_id(&self) -> Option<u32> {
        match self.0.len() { 0 => Some(0), 1 => if self.0[0] == "*" { Some(1) } else { self.0[0].strip_prefix('n').and_then(|x| x.parse().ok()) }, _ => None }
    }
    fn abs(&self) -> Name<Bytes> {
        let mut s = String::new();
        for l in self.0.iter().rev() { s.push_str(l); s.push('.'); }
        s.push_str(APEX);
        Name::bytes_from_str(&s).unwrap()
    }
    fn show(&self) -> String { if self.0.is_empty() { "@".into() } else { let mut v = self.0.clone(); v.reverse(); v.join(".") } }
    fn prefixes(&self) -> Vec<Nm> { (1..=self.0.len()).map(|k| Nm(self.0[..k].to_vec())).collect() }
    fn is_prefix_of(&self, o: &Nm) -> bool { o.0.len() >= self.0.len() && o.0[..self.0.len()] == self.0[..] }
}

fn apex() -> Name<Bytes> { Name::bytes_from_str(APEX).unwrap() }

fn mk_data(t: u16, id: u32) -> ZoneRecordData<Bytes, Name<Bytes>> {
    match t {
        T_A => ZoneRecordData::A(A::new(Ipv4Addr::from(id))),
        T_AAAA => ZoneRecordData::Aaaa(Aaaa::new(Ipv6Addr::from(id as u128))),
        T_SOA => ZoneRecordData::Soa(Soa::new(apex(), apex(), Serial(id), Ttl::from_secs(1), Ttl::from_secs(2), Ttl::from_secs(3), Ttl::from_secs(4))),
        _ => ZoneRecordData::Txt(Txt::<Bytes>::build_from_slice(format!("t{}", id).as_bytes()).unwrap()),
    }
}
/// rrset number `id` of type `t`; 0 is the empty RRset.
fn mk_rrset(t: u16, id: u32) -> SharedRrset {
    let mut rs = Rrset::new(Rtype::from_int(t), Ttl::from_secs(3600));
    if id != 0 { rs.push_data(mk_data(t, id)); }
    SharedRrset::new(rs)
}
fn cname_target(id: u32) -> Name<Bytes> { Name::bytes_from_str(&format!("c{}.{}", id, APEX)).unwrap() }
fn mk_cname(id: u32) -> SharedRr { SharedRr::new(Ttl::from_secs(3600), ZoneRecordData::Cname(Cname::new(cname_target(id)))) }

fn data_id<N: ToName>(d: &ZoneRecordData<Bytes, N>) -> u32 {
    match d {
        ZoneRecordData::A(a) => u32::from(a.addr()),
        ZoneRecordData::Aaaa(a) => u128::from(a.addr()) as u32,
        ZoneRecordData::Soa(s) => s.serial().0,
        ZoneRecordData::Txt(t) => { let v: Vec<u8> = t.text::<Vec<u8>>(); String::from_utf8_lossy(&v)[1..].parse().unwrap_or(999_999) }
        ZoneRecordData::Cname(c) => {
            let n = c.cname().to_bytes();
            let l = n.iter_labels().next().unwrap();
            String::from_utf8_lossy(l.as_slice())[1..].parse().unwrap_or(999_998)
        }
        _ => 999_997,
    }
}

/// canonical answer word, the same alphabet the model driver prints:
/// X(soa) NXDOMAIN, N(soa) NODATA, D<id> data, C<id> CNAME
fn observe(rd: &dyn ReadableZone, name: &Nm, t: u16) -> String {
    let qname = name.abs();
    let rt = Rtype::from_int(t);
    let ans = match rd.query(qname.clone(), rt) { Ok(a) => a, Err(_) => return "OutOfZone".into() };
    let mut qb = MessageBuilder::new_vec().question();
    qb.push((qname, rt)).unwrap();
    let qmsg: Message<Vec<u8>> = qb.into();
    let msg: Message<Bytes> = ans.to_message(&qmsg, MessageBuilder::new_bytes()).into();
    let mut an: Vec<(u16, u32)> = vec![];
    for r in msg.answer().unwrap().limit_to::<ZoneRecordData<_, ParsedName<_>>>() {
        let r = r.unwrap();
        an.push((r.rtype().to_int(), data_id(r.data())));
    }
    let mut soa: Option<u32> = None;
    let mut other_auth = 0;
    for r in msg.authority().unwrap().limit_to::<ZoneRecordData<_, ParsedName<_>>>() {
        let r = r.unwrap();
        if r.rtype() == Rtype::SOA { soa = Some(data_id(r.data())); } else { other_auth += 1; }
    }
    let soa_s = soa.map_or("-".to_string(), |x| x.to_string());
    let rc = ans.rcode();
    if other_auth > 0 { return format!("?auth{}", other_auth); }
    if rc == Rcode::NXDOMAIN && an.is_empty() { return format!("X({})", soa_s); }
    if rc != Rcode::NOERROR { return format!("?rcode{}", rc.to_int()); }
    if an.is_empty() { return format!("N({})", soa_s); }
    if an.len() == 1 && an[0].0 == T_CNAME && t != T_CNAME { return format!("C{}", an[0].1); }
    if an.len() == 1 && an[0].0 == T_CNAME {
        // a CNAME query at a CNAME node answers with the special CNAME as well
        return format!("C{}", an[0].1);
    }
    if an.len() == 1 && an[0].0 == t { return format!("D{}", an[0].1); }
    format!("?answer{:?}", an)
}

/// sorted (owner, type, id) triples of a walk; owners as shown by Nm::show
fn walk_of(rd: &dyn ReadableZone) -> Vec<(String, u16, u32)> {
    let acc: Arc<Mutex<Vec<(String, u16, u32)>>> = Arc::new(Mutex::new(vec![]));
    let acc2 = acc.clone();
    let apex_n = apex();
    rd.walk(Box::new(move |owner: Name<Bytes>, rrset: &SharedRrset, _cut: bool| {
        let rel = rel_of(&owner, &apex_n);
        let mut a = acc2.lock().unwrap();
        for d in rrset.data() { a.push((rel.clone(), rrset.rtype().to_int(), data_id(d))); }
    }));
    let mut v = acc.lock().unwrap().clone();
    v.sort();
    v
}
fn rel_of(owner: &Name<Bytes>, apex_n: &Name<Bytes>) -> String {
    let n = owner.label_count() - apex_n.label_count();
    if n == 0 { return "@".into(); }
    owner.iter_labels().take(n).map(|l| String::from_utf8_lossy(l.as_slice()).to_string()).collect::<Vec<_>>().join(".")
}

// ---------------------------------------------------------------- traces

#[derive(Clone, Debug)]
enum Ev {
    Acquire(u32), Query(u32, Nm, u16), Walk(u32), Release(u32),
    WAcquire, WQueue, WTake, WOpen, Update(Nm, u16, u32), Remove(Nm, u16), Touch(Nm), RemoveAll, RemoveAllAt(Nm),
    CnameAt(Nm, u32), Regular(Nm), Commit, Drop,
}
impl Ev {
    fn word(&self) -> String {
        let f = |n: &Nm| n.flat_id().map_or(n.show(), |i| i.to_string());
        match self {
            Ev::Acquire(r) => format!("A:{}", r), Ev::Query(r, n, t) => format!("Q:{}:{}:{}", r, f(n), t), Ev::Walk(r) => format!("W:{}", r),
            Ev::Release(r) => format!("R:{}", r), Ev::WAcquire | Ev::WQueue | Ev::WTake => "wa".into(), Ev::WOpen => "wo".into(),
            Ev::Update(n, t, rr) => format!("u:{}:{}:{}", f(n), t, rr), Ev::Remove(n, t) => format!("r:{}:{}", f(n), t), Ev::Touch(n) => format!("t:{}", f(n)),
            Ev::RemoveAll => "ra".into(), Ev::RemoveAllAt(n) => format!("rn:{}", f(n)), Ev::CnameAt(n, id) => format!("cn:{}:{}", f(n), id),
            Ev::Regular(n) => format!("rg:{}", f(n)), Ev::Commit => "c".into(), Ev::Drop => "d".into(),
        }
    }
    fn is_data(&self) -> bool { matches!(self, Ev::Update(..) | Ev::Remove(..) | Ev::Touch(..) | Ev::RemoveAll | Ev::RemoveAllAt(..) | Ev::CnameAt(..) | Ev::Regular(..)) }
}

#[derive(Clone, Debug)]
enum Init { Rrset(Nm, u16, u32), Cname(Nm, u32) }
impl Init {
    fn word(&self) -> String {
        let f = |n: &Nm| n.flat_id().map_or(n.show(), |i| i.to_string());
        match self { Init::Rrset(n, t, rr) => format!("i:{}:{}:{}", f(n), t, rr), Init::Cname(n, id) => format!("ic:{}:{}", f(n), id) }
    }
}

/// The oracle's own notion of zone content (what a version contains).
#[derive(Clone, Default, PartialEq, Debug)]
struct Content { rr: BTreeMap<(Nm, u16), u32>, cname: BTreeMap<Nm, u32> }
impl Content {
    fn apply(&mut self, e: &Ev) {
        match e {
            Ev::Update(n, t, rr) => { if *rr == 0 { self.rr.remove(&(n.clone(), *t)); } else { self.rr.insert((n.clone(), *t), *rr); } }
            Ev::Remove(n, t) => { self.rr.remove(&(n.clone(), *t)); }
            Ev::RemoveAll => { self.rr.clear(); self.cname.clear(); }
            Ev::RemoveAllAt(n) => { self.rr.retain(|k, _| !n.is_prefix_of(&k.0)); self.cname.retain(|k, _| !n.is_prefix_of(k)); }
            Ev::CnameAt(n, id) => { self.cname.insert(n.clone(), *id); }
            Ev::Regular(n) => { self.cname.remove(n); }
            _ => {}
        }
    }
    fn walk(&self) -> Vec<(String, u16, u32)> {
        let mut v: Vec<(String, u16, u32)> = self.rr.iter().map(|((n, t), rr)| (n.show(), *t, *rr)).collect();
        for (n, id) in &self.cname { v.push((n.show(), T_CNAME, *id)); }
        v.sort();
        v
    }
}

type Snap = (BTreeMap<(Nm, u16), String>, Vec<(String, u16, u32)>);

struct Held { rd: Box<dyn ReadableZone>, snap: Snap, seq: u64 }

struct Sys {
    rt: tokio::runtime::Runtime,
    zone: Zone,
    universe: Vec<Nm>,
    types: Vec<u16>,
    readers: BTreeMap<u32, Held>,
    writer: Option<Box<dyn WritableZone>>,
    /// a second `write().await` that was requested while `writer` existed and is kept alive
    queued: Option<tokio::task::JoinHandle<Box<dyn WritableZone>>>,
    root: Option<Box<dyn WritableZoneNode>>,
    /// nodes present in the tree -> sequence number of the step that created them
    nodes: BTreeMap<Nm, u64>,
    /// nodes created by the current (uncommitted) writer session
    session_created: BTreeSet<Nm>,
    /// nodes that exist only because an aborted session created them
    ghosts: BTreeSet<Nm>,
    seq: u64,
    committed: Content,
    pending: Content,
    pre_session: Option<Snap>,
}

struct Fail { class: &'static str, detail: String }

static FAIL_COUNTS: Mutex<BTreeMap<&'static str, u64>> = Mutex::new(BTreeMap::new());

impl Sys {
    fn new(inits: &[Init], universe: Vec<Nm>, types: Vec<u16>) -> Sys {
        let rt = tokio::runtime::Builder::new_current_thread().enable_all().start_paused(true).build().unwrap();
        let mut b = ZoneBuilder::new(apex(), Class::IN);
        let mut nodes = BTreeMap::new();
        let mut content = Content::default();
        for i in inits {
            match i {
                Init::Rrset(n, t, rr) => { b.insert_rrset(&n.abs(), mk_rrset(*t, *rr)).unwrap(); if *rr != 0 { content.rr.insert((n.clone(), *t), *rr); } else { content.rr.remove(&(n.clone(), *t)); } for p in n.prefixes() { nodes.insert(p, 0); } }
                Init::Cname(n, id) => { b.insert_cname(&n.abs(), mk_cname(*id)).unwrap(); content.cname.insert(n.clone(), *id); for p in n.prefixes() { nodes.insert(p, 0); } }
            }
        }
        Sys { rt, zone: b.build(), universe, types, readers: BTreeMap::new(), writer: None, queued: None, root: None, nodes, session_created: BTreeSet::new(),
              ghosts: BTreeSet::new(), seq: 0, committed: content.clone(), pending: content, pre_session: None }
    }

    fn snapshot(&self, rd: &dyn ReadableZone) -> Snap {
        let mut m = BTreeMap::new();
        for n in &self.universe { for t in &self.types { m.insert((n.clone(), *t), observe(rd, n, *t)); } }
        (m, walk_of(rd))
    }

    fn try_write(&self) -> Option<Box<dyn WritableZone>> {
        let z = self.zone.clone();
        self.rt.block_on(async move { tokio::time::timeout(Duration::from_millis(50), z.write()).await.ok() })
    }

    /// child node handle for `n` (update_child along the path), recording created nodes
    fn node_for(&mut self, n: &Nm) -> Option<Box<dyn WritableZoneNode>> {
        let mut cur: Option<Box<dyn WritableZoneNode>> = None;
        for (i, l) in n.0.iter().enumerate() {
            let lab = Label::from_slice(l.as_bytes()).unwrap();
            let next = {
                let parent: &dyn WritableZoneNode = match &cur { Some(c) => c.as_ref(), None => self.root.as_ref().unwrap().as_ref() };
                self.rt.block_on(parent.update_child(lab)).unwrap()
            };
            let p = Nm(n.0[..=i].to_vec());
            if !self.nodes.contains_key(&p) { self.nodes.insert(p.clone(), self.seq); self.session_created.insert(p.clone()); }
            // a node left behind by an aborted session becomes legitimate only if this session commits
            if self.ghosts.remove(&p) { self.session_created.insert(p.clone()); }
            cur = Some(next);
        }
        cur
    }

    /// is a changed answer at `q` explained by a node that was created at or after step `since`?
    fn created_explains(&self, q: &Nm, since: u64, old: &str, new: &str) -> bool {
        let no_data = |s: &str| s.starts_with("X(") || s.starts_with("N(");
        if !no_data(new) { return false; }
        let _ = old;
        self.nodes.iter().any(|(c, s)| *s >= since && (c.is_prefix_of(q)
            || (c.0.last().map_or(false, |l| l == "*") && Nm(c.0[..c.0.len() - 1].to_vec()).is_prefix_of(q) && c.0.len() <= q.0.len())))
    }

    fn compare(&self, old: &Snap, new: &Snap, since: u64, plain: &'static str, known: &'static str, who: &str, fails: &mut Vec<Fail>) {
        for (k, o) in &old.0 {
            let n = &new.0[k];
            if o != n {
                let class = if self.created_explains(&k.0, since, o, n) { known } else { plain };
                fails.push(Fail { class, detail: format!("{}: {} type {}: {} -> {}", who, k.0.show(), k.1, o, n) });
            }
        }
        if old.1 != new.1 { fails.push(Fail { class: "walk_mismatch", detail: format!("{}: walk {:?} -> {:?}", who, old.1, new.1) }); }
    }

    /// data-level check of a fresh reader against the oracle's committed content
    fn check_fresh(&self, fails: &mut Vec<Fail>, class: &'static str, when: &str) {
        let rd = self.zone.read();
        let w = walk_of(rd.as_ref());
        let want = self.committed.walk();
        if w != want { fails.push(Fail { class: "walk_mismatch", detail: format!("{}: fresh reader walk {:?}, committed content {:?}", when, w, want) }); }
        let star = Nm(vec!["*".into()]);
        let star_has = self.committed.cname.contains_key(&star) || self.committed.rr.keys().any(|k| k.0 == star);
        for n in &self.universe {
            if n.0.len() > 1 { continue; }
            for t in &self.types {
                let o = observe(rd.as_ref(), n, *t);
                let want = if let Some(id) = self.committed.cname.get(n) { Some(format!("C{}", id)) }
                    else { self.committed.rr.get(&(n.clone(), *t)).map(|rr| format!("D{}", rr)) };
                let own = self.committed.cname.contains_key(n) || self.committed.rr.keys().any(|k| &k.0 == n);
                match want {
                    Some(wd) => if o != wd { fails.push(Fail { class, detail: format!("{}: fresh reader {} type {}: {} expected {}", when, n.show(), t, o, wd) }); },
                    None => {
                        let nodata = o.starts_with("X(") || o.starts_with("N(");
                        let wildcard_may_apply = star_has && !own && !n.0.is_empty();
                        if !nodata && !wildcard_may_apply { fails.push(Fail { class, detail: format!("{}: fresh reader {} type {}: {} but the committed content has no such record", when, n.show(), t, o) }); }
                    }
                }
            }
        }
    }

    /// run one event; returns the T2 observation (if the event has one)
    fn exec(&mut self, e: &Ev, fails: &mut Vec<Fail>) -> Option<String> {
        self.seq += 1;
        let mut obs = None;
        match e {
            Ev::Acquire(r) => {
                let rd = self.zone.read();
                let snap = self.snapshot(rd.as_ref());
                self.readers.insert(*r, Held { rd, snap, seq: self.seq });
            }
            Ev::Release(r) => { self.readers.remove(r); }
            Ev::Query(r, n, t) => { obs = Some(match self.readers.get(r) { Some(h) => observe(h.rd.as_ref(), n, *t), None => "noreader".into() }); }
            Ev::Walk(r) => {
                obs = Some(match self.readers.get(r) {
                    Some(h) => {
                        let mut w: Vec<(u64, u16, u32)> = walk_of(h.rd.as_ref()).iter().map(|(o, t, id)| (show_owner_id(o).parse::<u64>().unwrap_or(u64::MAX), *t, *id)).collect();
                        w.sort();
                        format!("W[{}]", w.iter().map(|(o, t, id)| format!("{}.{}.{}", o, t, id)).collect::<Vec<_>>().join(","))
                    }
                    None => "noreader".into() });
            }
            Ev::WAcquire => {
                let had = self.writer.is_some();
                let got = self.try_write();
                if had {
                    obs = Some(if got.is_some() { "granted".into() } else { "pending".into() });
                    if got.is_some() { fails.push(Fail { class: "second_writer_granted", detail: "write().await completed while another WritableZone is alive".into() }); }
                    drop(got);
                } else {
                    obs = Some(if got.is_some() { "granted".into() } else { "pending".into() });
                    if got.is_none() { fails.push(Fail { class: "writer_lock_stuck", detail: "write().await pending although no writer exists".into() }); }
                    if got.is_some() {
                        let rd = self.zone.read();
                        self.pre_session = Some(self.snapshot(rd.as_ref()));
                        self.pending = self.committed.clone();
                        self.session_created.clear();
                    }
                    self.writer = got;
                }
            }
            Ev::WQueue => {
                // request the write lock in a task and keep the request alive: the
                // future is polled (so it has done everything it does before waiting
                // for the lock) and completes only after the current writer is dropped
                if self.writer.is_some() && self.queued.is_none() {
                    let z = self.zone.clone();
                    let h = self.rt.spawn(async move { z.write().await });
                    self.rt.block_on(async { tokio::task::yield_now().await; tokio::task::yield_now().await; });
                    if h.is_finished() {
                        obs = Some("granted".into());
                        fails.push(Fail { class: "second_writer_granted", detail: "queued write().await completed while another WritableZone is alive".into() });
                        let _ = self.rt.block_on(h);
                    } else {
                        obs = Some("pending".into());
                        self.queued = Some(h);
                    }
                } else { obs = Some("pending".into()); }
            }
            Ev::WTake => {
                if let (None, Some(h)) = (&self.writer, self.queued.take()) {
                    let got = self.rt.block_on(async move { tokio::time::timeout(Duration::from_millis(50), h).await });
                    match got {
                        Ok(Ok(w)) => {
                            obs = Some("granted".into());
                            let rd = self.zone.read();
                            self.pre_session = Some(self.snapshot(rd.as_ref()));
                            self.pending = self.committed.clone();
                            self.session_created.clear();
                            self.writer = Some(w);
                        }
                        _ => {
                            obs = Some("pending".into());
                            fails.push(Fail { class: "writer_lock_stuck", detail: "queued write().await still pending after the writer was dropped".into() });
                        }
                    }
                } else { obs = Some("granted".into()); }
            }
            Ev::WOpen => { if let Some(w) = &self.writer { self.root = Some(self.rt.block_on(w.open(false)).unwrap()); } }
            Ev::Commit => {
                if let Some(w) = self.writer.as_mut() {
                    self.root = None;
                    self.rt.block_on(w.commit(false)).unwrap();
                    self.committed = self.pending.clone();
                    self.session_created.clear();
                    let rd = self.zone.read();
                    self.pre_session = Some(self.snapshot(rd.as_ref()));
                }
            }
            Ev::Drop => {
                if self.writer.is_some() {
                    self.root = None;
                    self.writer = None;
                    self.pending = self.committed.clone();
                    for c in std::mem::take(&mut self.session_created) { self.ghosts.insert(c); }
                }
            }
            d if d.is_data() => {
                if self.root.is_some() {
                    self.pending.apply(d);
                    match d {
                        Ev::Update(n, t, rr) => { let rs = mk_rrset(*t, *rr); match self.node_for(n) { Some(h) => self.rt.block_on(h.update_rrset(rs)).unwrap(), None => self.rt.block_on(self.root.as_ref().unwrap().update_rrset(rs)).unwrap() } }
                        Ev::Remove(n, t) => { let rt_ = Rtype::from_int(*t); match self.node_for(n) { Some(h) => self.rt.block_on(h.remove_rrset(rt_)).unwrap(), None => self.rt.block_on(self.root.as_ref().unwrap().remove_rrset(rt_)).unwrap() } }
                        Ev::Touch(n) => { let _ = self.node_for(n); }
                        Ev::RemoveAll => { self.rt.block_on(self.root.as_ref().unwrap().remove_all()).unwrap(); }
                        Ev::RemoveAllAt(n) => { if let Some(h) = self.node_for(n) { self.rt.block_on(h.remove_all()).unwrap(); } }
                        Ev::CnameAt(n, id) => { if let Some(h) = self.node_for(n) { self.rt.block_on(h.make_cname(mk_cname(*id))).unwrap(); } }
                        Ev::Regular(n) => { if let Some(h) = self.node_for(n) { self.rt.block_on(h.make_regular()).unwrap(); } }
                        _ => {}
                    }
                }
            }
            _ => {}
        }
        obs
    }

    /// the oracle, run after every writer-side step
    fn oracle(&self, e: &Ev, fails: &mut Vec<Fail>) {
        // held readers keep their snapshot
        for (r, h) in &self.readers {
            let now = self.snapshot(h.rd.as_ref());
            self.compare(&h.snap, &now, h.seq, "snapshot_changed", "held_reader_sees_update_child", &format!("reader {} after {}", r, e.word()), fails);
        }
        match e {
            Ev::Drop => {
                // abort (or drop after commit): a fresh reader sees what was committed
                if let Some(pre) = &self.pre_session {
                    let rd = self.zone.read();
                    let now = self.snapshot(rd.as_ref());
                    let since = self.ghosts.iter().filter_map(|g| self.nodes.get(g)).min().copied().unwrap_or(u64::MAX);
                    // only nodes created by the session just dropped may explain a difference
                    let since = if self.ghosts.is_empty() { u64::MAX } else { since };
                    self.compare_abort(pre, &now, since, fails);
                }
                self.check_fresh(fails, "abort_visible_other", "after drop");
            }
            Ev::Commit => self.check_fresh(fails, "commit_not_atomic", "after commit"),
            d if d.is_data() || matches!(d, Ev::WOpen | Ev::WAcquire | Ev::WQueue | Ev::WTake) => self.check_fresh(fails, "commit_not_atomic", &format!("before commit, after {}", d.word())),
            _ => {}
        }
    }

    fn compare_abort(&self, old: &Snap, new: &Snap, _since: u64, fails: &mut Vec<Fail>) {
        for (k, o) in &old.0 {
            let n = &new.0[k];
            if o != n {
                let no_data = n.starts_with("X(") || n.starts_with("N(");
                let q = &k.0;
                let ghost = self.ghosts.iter().any(|c| c.is_prefix_of(q)
                    || (c.0.last().map_or(false, |l| l == "*") && Nm(c.0[..c.0.len() - 1].to_vec()).is_prefix_of(q) && c.0.len() <= q.0.len()));
                let class = if no_data && ghost { "aborted_update_child_visible" } else { "abort_visible_other" };
                fails.push(Fail { class, detail: format!("fresh reader after drop: {} type {}: {} -> {}", q.show(), k.1, o, n) });
            }
        }
        if old.1 != new.1 { fails.push(Fail { class: "walk_mismatch", detail: format!("fresh reader after drop: walk {:?} -> {:?}", old.1, new.1) }); }
    }
}

fn show_owner_id(o: &str) -> String {
    if o == "@" { "0".into() } else if o == "*" { "1".into() } else { o.strip_prefix('n').unwrap_or(o).to_string() }
}

fn run_trace(out: &mut Out, inits: &[Init], evs: &[Ev], universe: Vec<Nm>, flat: bool, kind: &str) {
    let case = format!("zt {} ; {}", inits.iter().map(|i| i.word()).collect::<Vec<_>>().join(" "), evs.iter().map(|e| e.word()).collect::<Vec<_>>().join(" "));
    out.begin(&case);
    let types = vec![T_A, T_TXT, T_AAAA, T_SOA];
    let r = catch_mut(|| {
        let mut sys = Sys::new(inits, universe, types);
        let mut fails: Vec<Fail> = vec![];
        let mut obs: Vec<String> = vec![];
        for e in evs {
            if let Some(o) = sys.exec(e, &mut fails) { obs.push(o); }
            if !matches!(e, Ev::Query(..) | Ev::Walk(..) | Ev::Release(..)) { sys.oracle(e, &mut fails); }
        }
        (obs, fails)
    });
    let classes = ["snapshot_changed", "held_reader_sees_update_child", "commit_not_atomic", "aborted_update_child_visible",
        "abort_visible_other", "walk_mismatch", "second_writer_granted", "writer_lock_stuck"];
    match r {
        Ok((obs, fails)) => {
            for c in classes {
                let f = fails.iter().find(|f| f.class == c);
                if f.is_some() { *FAIL_COUNTS.lock().unwrap().entry(c).or_insert(0) += 1; }
                out.check(f.is_none(), c, &case, &f.map_or(String::new(), |f| f.detail.clone()));
            }
            out.check(true, "zone_panic", &case, "");
            let line = if obs.is_empty() { "-".to_string() } else { obs.join(" ") };
            let nontrivial = evs.iter().any(|e| e.is_data()) && evs.iter().any(|e| matches!(e, Ev::Query(..) | Ev::Walk(..)));
            if flat { out.case(&case, &line, nontrivial, kind); } else { out.oracle_case(&case, nontrivial, kind); }
        }
        Err(p) => { out.check(false, "zone_panic", &case, &p); if flat { out.case(&case, "Panic", true, kind); } }
    }
}

/// random trace: one writer, up to 4 held readers
fn gen_trace(r: &mut Rng, names: &[Nm], max_len: usize, create_ok: bool, existing: &BTreeSet<Nm>) -> Vec<Ev> {
    let types = [T_A, T_TXT, T_AAAA, T_SOA];
    let mut evs = vec![];
    let mut held: Vec<u32> = vec![];
    let mut writer = false; let mut open = false; let mut queued = false;
    let mut val = 100u32;
    let n_ev = r.range(4, max_len as u64) as usize;
    // names a data operation may address
    let targets: Vec<Nm> = names.iter().filter(|n| create_ok || n.0.is_empty() || existing.contains(n)).cloned().collect();
    while evs.len() < n_ev {
        match r.below(20) {
            0..=2 => { if held.len() < 4 { let id = (0..4u32).find(|i| !held.contains(i)).unwrap(); held.push(id); evs.push(Ev::Acquire(id)); } }
            3 => { if !held.is_empty() && r.chance(1, 2) { let i = r.below(held.len() as u64) as usize; let id = held.remove(i); evs.push(Ev::Release(id)); } }
            4..=7 => { if !held.is_empty() { let id = *r.pick(&held); let n = r.pick(names).clone(); let t = if n.0.is_empty() { *r.pick(&types) } else { *r.pick(&types[..3]) }; evs.push(Ev::Query(id, n, t)); } }
            8 => { if !held.is_empty() { let id = *r.pick(&held); evs.push(Ev::Walk(id)); } }
            9 => { if !writer { writer = true; open = false; evs.push(Ev::WAcquire); } else if r.chance(1, 3) { evs.push(Ev::WAcquire); } else if !queued && r.chance(1, 2) { queued = true; evs.push(Ev::WQueue); } }
            10 => { if writer && (!open || r.chance(1, 4)) { open = true; evs.push(Ev::WOpen); } }
            11..=16 => {
                if !writer { writer = true; evs.push(Ev::WAcquire); open = false; }
                if !open { open = true; evs.push(Ev::WOpen); }
                if targets.is_empty() { continue; }
                let n = r.pick(&targets).clone();
                val += 1;
                let e = match r.below(16) {
                    0..=6 => { let t = if n.0.is_empty() && r.chance(1, 3) { T_SOA } else { *r.pick(&types[..3]) }; Ev::Update(n, t, if r.chance(1, 12) { 0 } else { val }) }
                    7..=9 => { let t = if n.0.is_empty() && r.chance(1, 4) { T_SOA } else { *r.pick(&types[..3]) }; Ev::Remove(n, t) }
                    10 => if n.0.is_empty() { Ev::RemoveAll } else { Ev::Touch(n) },
                    11 => Ev::RemoveAll,
                    12 => if n.0.is_empty() { Ev::RemoveAll } else { Ev::RemoveAllAt(n) },
                    13 | 14 => if n.0.is_empty() { Ev::Update(n, T_A, val) } else { Ev::CnameAt(n, val) },
                    _ => if n.0.is_empty() { Ev::Remove(n, T_A) } else { Ev::Regular(n) },
                };
                evs.push(e);
            }
            17 | 18 => { if writer { open = false; evs.push(Ev::Commit); } }
            _ => { if writer { writer = false; open = false; evs.push(Ev::Drop); if queued { queued = false; writer = true; evs.push(Ev::WTake); } } }
        }
    }
    if writer && r.chance(2, 3) {
        if r.chance(1, 2) { evs.push(Ev::Commit); } else {
            evs.push(Ev::Drop);
            if queued { evs.push(Ev::WTake); evs.push(Ev::WOpen); val += 1; evs.push(Ev::Update(r.pick(names).clone(), T_A, val)); }
        }
    }
    // a final look by everyone still holding a reader
    for id in held { let n = r.pick(names).clone(); evs.push(Ev::Query(id, n, T_A)); evs.push(Ev::Walk(id)); }
    evs
}

fn gen_inits(r: &mut Rng, names: &[Nm], p_num: u64) -> Vec<Init> {
    let mut v = vec![];
    let mut val = 10u32;
    if r.chance(3, 4) { v.push(Init::Rrset(Nm(vec![]), T_SOA, 1 + r.below(5) as u32)); }
    for n in names {
        for t in [T_A, T_TXT, T_AAAA] {
            if r.chance(p_num, 10) { val += 1; v.push(Init::Rrset(n.clone(), t, val)); }
        }
        if !n.0.is_empty() && r.chance(1, 10) { val += 1; v.push(Init::Cname(n.clone(), val)); }
    }
    v
}

fn existing_nodes(inits: &[Init]) -> BTreeSet<Nm> {
    let mut s = BTreeSet::new();
    for i in inits { let n = match i { Init::Rrset(n, _, _) => n, Init::Cname(n, _) => n }; for p in n.prefixes() { s.insert(p); } }
    s
}

// ---------------------------------------------------------------- thread stress (supporting only)

fn stress(out: &mut Out, millis: u64) -> (u64, u64) {
    let names: Vec<Nm> = (2..8).map(Nm::flat).collect();
    let mut b = ZoneBuilder::new(apex(), Class::IN);
    for n in &names { b.insert_rrset(&n.abs(), mk_rrset(T_A, 1)).unwrap(); }
    b.insert_rrset(&apex(), mk_rrset(T_SOA, 1)).unwrap();
    let zone = b.build();
    let stop = Arc::new(std::sync::atomic::AtomicBool::new(false));
    let bad: Arc<Mutex<Vec<String>>> = Arc::new(Mutex::new(vec![]));
    let reads = Arc::new(std::sync::atomic::AtomicU64::new(0));
    let mut hs = vec![];
    for _ in 0..8 {
        let (zone, stop, bad, reads, names) = (zone.clone(), stop.clone(), bad.clone(), reads.clone(), names.clone());
        hs.push(std::thread::spawn(move || {
            while !stop.load(std::sync::atomic::Ordering::Relaxed) {
                let rd = zone.read();
                let first: Vec<String> = names.iter().map(|n| observe(rd.as_ref(), n, T_A)).collect();
                let soa = observe(rd.as_ref(), &Nm(vec![]), T_SOA);
                // every name carries the generation of the version; all equal
                if first.iter().any(|x| x != &first[0]) || soa != first[0] { bad.lock().unwrap().push(format!("torn version: {:?} soa {}", first, soa)); }
                if first[0].starts_with("D") { if let Ok(g) = first[0][1..].parse::<u32>() { if g >= 1_000_000 { bad.lock().unwrap().push(format!("aborted generation visible: {}", first[0])); } } }
                std::thread::yield_now();
                let again: Vec<String> = names.iter().rev().map(|n| observe(rd.as_ref(), n, T_A)).collect();
                if again.iter().any(|x| x != &first[0]) { bad.lock().unwrap().push(format!("held reader changed: {:?} -> {:?}", first, again)); }
                reads.fetch_add(1, std::sync::atomic::Ordering::Relaxed);
            }
        }));
    }
    let rt = tokio::runtime::Builder::new_current_thread().enable_all().build().unwrap();
    let t0 = std::time::Instant::now();
    let mut gen = 1u32;
    let mut commits = 0u64;
    while t0.elapsed() < Duration::from_millis(millis) {
        let abort = gen % 3 == 0;
        let g = if abort { 1_000_000 + gen } else { gen + 1 };
        let mut w = rt.block_on(zone.write());
        let root = rt.block_on(w.open(false)).unwrap();
        for n in &names {
            let h = rt.block_on(root.update_child(Label::from_slice(n.0[0].as_bytes()).unwrap())).unwrap();
            rt.block_on(h.update_rrset(mk_rrset(T_A, g))).unwrap();
        }
        rt.block_on(root.update_rrset(mk_rrset(T_SOA, g))).unwrap();
        drop(root);
        if abort { drop(w); gen += 1; } else { rt.block_on(w.commit(false)).unwrap(); drop(w); gen = g; commits += 1; }
    }
    stop.store(true, std::sync::atomic::Ordering::Relaxed);
    for h in hs { let _ = h.join(); }
    let bad = bad.lock().unwrap();
    out.check(bad.is_empty(), "stress_inconsistent", "stress 8 readers 1 writer", &bad.first().cloned().unwrap_or_default());
    (reads.load(std::sync::atomic::Ordering::Relaxed), commits)
}

// ---------------------------------------------------------------- main

fn main() {
    let a = args();
    let mut out = Out::new(&a, "C09", 60);
    let mut r = Rng::new(a.seed);
    let mut idx = 0u64;
    out.check(ver_selftest(), "harness_version_layout", "ver_selftest", "transmute u32 -> Version does not match default()/next()");

    // ---- (1) Versioned<u32>: corpus
    let corpus: Vec<(Vec<COp>, Vec<u32>)> = vec![
        // remove in the first version: pop, then rollback finds nothing
        (vec![COp::Upd(1, 5), COp::Rem(1), COp::Rb(1)], vec![0, 1, 2]),
        // remove with nothing stored: no marker
        (vec![COp::Rem(1), COp::Upd(1, 5), COp::Rb(1)], vec![0, 1, 2]),
        // update after remove in one version, on top of an older value
        (vec![COp::Upd(0, 7), COp::Rem(1), COp::Upd(1, 8), COp::Rem(1), COp::Rb(1)], vec![0, 1, 2]),
        // marker already there: remove is a no-op, rollback must not pop it
        (vec![COp::Upd(0, 7), COp::Rem(1), COp::Rem(2), COp::Rb(2), COp::Upd(2, 9), COp::Rb(2)], vec![0, 1, 2, 3]),
        // across the 2^32 wrap
        (vec![COp::Upd(0xFFFF_FFFE, 1), COp::Upd(0xFFFF_FFFF, 2), COp::Upd(0, 3), COp::Rem(1), COp::Rb(1), COp::Rb(0)], vec![0xFFFF_FFFD, 0xFFFF_FFFE, 0xFFFF_FFFF, 0, 1, 2]),
        // versions 2^31 apart are incomparable: `<=` is false both ways
        (vec![COp::Upd(5, 1), COp::Upd(0x8000_0005, 2)], vec![5, 0x8000_0004, 0x8000_0005, 0x8000_0006, 4]),
        // same-version update overwrites
        (vec![COp::Upd(3, 1), COp::Upd(3, 2), COp::Rb(4), COp::Rb(3)], vec![2, 3, 4]),
    ];
    for (ops, probes) in &corpus { idx += 1; if out.wants(idx) { cell_case(&mut out, ops, probes, "cell_corpus"); } }
    let n_cell = if a.thorough { 60_000 } else { 3_000 } * a.scale;
    for _ in 0..n_cell {
        let base = match r.below(4) { 0 => 0, 1 => 0xFFFF_FFF0u32.wrapping_add(r.below(32) as u32), 2 => 0x7FFF_FFF0u32.wrapping_add(r.below(32) as u32), _ => r.u32() };
        let n_ops = r.range(1, 12) as usize;
        let mut ops = vec![];
        let mut val = 0;
        for _ in 0..n_ops {
            let v = cell_version(&mut r, base);
            val += 1;
            ops.push(match r.below(7) { 0..=2 => COp::Upd(v, val), 3 | 4 => COp::Rem(v), _ => COp::Rb(v) });
        }
        let mut probes: Vec<u32> = (0..4).map(|_| cell_version(&mut r, base)).collect();
        probes.push(base); probes.push(base.wrapping_add(6));
        idx += 1;
        if out.wants(idx) { cell_case(&mut out, &ops, &probes, "cell_random"); }
    }
    let n_sess = if a.thorough { 20_000 } else { 1_500 } * a.scale;
    for _ in 0..n_sess {
        let base = match r.below(4) { 0 => 0, 1 => 0xFFFF_FFF8u32.wrapping_add(r.below(8) as u32), 2 => 0x7FFF_FFF8u32.wrapping_add(r.below(8) as u32), _ => r.u32() };
        idx += 1;
        let n = r.range(1, 6) as usize;
        let mut rr = r.fork();
        if out.wants(idx) { cell_sessions(&mut out, &mut rr, base, n); }
    }

    let extra_probe: String;
    // ---- (2) zone traces
    let flat_names: Vec<Nm> = (0..6).map(Nm::flat).collect();
    let x = |s: &str| Nm(s.split('.').rev().map(|l| l.to_string()).collect());
    // corpus: the DESIGN section 7 #13 witness and friends
    {
        let soa = Init::Rrset(Nm(vec![]), T_SOA, 1);
        let www = Init::Rrset(Nm::flat(2), T_A, 11);
        let g = Nm::flat(3);
        let traces: Vec<(Vec<Init>, Vec<Ev>)> = vec![
            // aborted update_child: n3 is NXDOMAIN before, and must be after
            (vec![soa.clone(), www.clone()], vec![Ev::Acquire(0), Ev::Query(0, g.clone(), T_A), Ev::WAcquire, Ev::WOpen, Ev::Update(g.clone(), T_A, 12), Ev::Query(0, g.clone(), T_A), Ev::Drop,
                Ev::Query(0, g.clone(), T_A), Ev::Acquire(1), Ev::Query(1, g.clone(), T_A), Ev::Walk(1)]),
            // committed creation seen by an old reader
            (vec![soa.clone(), www.clone()], vec![Ev::Acquire(0), Ev::WAcquire, Ev::WOpen, Ev::Update(g.clone(), T_A, 12), Ev::Commit, Ev::Query(0, g.clone(), T_A), Ev::Acquire(1), Ev::Query(1, g.clone(), T_A), Ev::Drop]),
            // abort of changes to existing names only
            (vec![soa.clone(), www.clone()], vec![Ev::Acquire(0), Ev::WAcquire, Ev::WOpen, Ev::Update(Nm::flat(2), T_A, 13), Ev::Remove(Nm::flat(2), T_A), Ev::Update(Nm::flat(2), T_TXT, 14), Ev::RemoveAll,
                Ev::Update(Nm::flat(0), T_SOA, 2), Ev::Query(0, Nm::flat(2), T_A), Ev::Drop, Ev::Acquire(1), Ev::Query(1, Nm::flat(2), T_A), Ev::Query(1, Nm::flat(2), T_TXT), Ev::Walk(1), Ev::Walk(0)]),
            // two successive versions, reader held across both, second writer while first is alive
            (vec![soa.clone(), www.clone()], vec![Ev::Acquire(0), Ev::WAcquire, Ev::WAcquire, Ev::WOpen, Ev::Update(Nm::flat(2), T_A, 21), Ev::Commit, Ev::Acquire(1), Ev::WOpen, Ev::Remove(Nm::flat(2), T_A), Ev::Commit,
                Ev::Acquire(2), Ev::Drop, Ev::WAcquire, Ev::Query(0, Nm::flat(2), T_A), Ev::Query(1, Nm::flat(2), T_A), Ev::Query(2, Nm::flat(2), T_A), Ev::Walk(0), Ev::Walk(1), Ev::Walk(2)]),
            // remove in the first version of a type, then abort
            (vec![soa.clone(), www.clone()], vec![Ev::Acquire(0), Ev::WAcquire, Ev::WOpen, Ev::Update(Nm::flat(2), T_TXT, 31), Ev::Remove(Nm::flat(2), T_TXT), Ev::Update(Nm::flat(2), T_TXT, 32), Ev::Drop, Ev::Acquire(1), Ev::Query(1, Nm::flat(2), T_TXT), Ev::Walk(1)]),
            // wildcard created by an aborted writer
            (vec![soa.clone(), www.clone()], vec![Ev::Acquire(0), Ev::Query(0, Nm::flat(4), T_A), Ev::WAcquire, Ev::WOpen, Ev::Update(Nm::flat(1), T_A, 41), Ev::Drop, Ev::Acquire(1), Ev::Query(1, Nm::flat(4), T_A)]),
            // a second writer requested while the first is active; the first commits and goes away;
            // the second must then write at the version after the committed one
            (vec![soa.clone(), www.clone()], vec![Ev::Acquire(0), Ev::WAcquire, Ev::WQueue, Ev::WOpen, Ev::Update(Nm::flat(2), T_A, 21), Ev::Commit, Ev::Acquire(1), Ev::Drop, Ev::WTake, Ev::WOpen,
                Ev::Update(Nm::flat(2), T_A, 22), Ev::Update(Nm::flat(3), T_TXT, 23), Ev::Query(1, Nm::flat(2), T_A), Ev::Query(1, Nm::flat(3), T_TXT), Ev::Acquire(2), Ev::Query(2, Nm::flat(2), T_A), Ev::Drop,
                Ev::Acquire(3), Ev::Query(3, Nm::flat(2), T_A), Ev::Walk(3), Ev::Walk(0)]),
            // cname set and rolled back
            (vec![soa.clone(), www.clone()], vec![Ev::Acquire(0), Ev::WAcquire, Ev::WOpen, Ev::CnameAt(Nm::flat(2), 51), Ev::Query(0, Nm::flat(2), T_A), Ev::Drop, Ev::Acquire(1), Ev::Query(1, Nm::flat(2), T_A), Ev::Walk(1)]),
        ];
        for (i, e) in &traces { idx += 1; if out.wants(idx) { run_trace(&mut out, i, e, flat_names.clone(), true, "zt_corpus"); } }
    }
    let n_tr = if a.thorough { 30_000 } else { 900 } * a.scale;
    for k in 0..n_tr {
        let inits = gen_inits(&mut r, &flat_names[..5], 4);
        let ex = existing_nodes(&inits);
        // two thirds of the traces only touch names that exist (no node creation)
        let create_ok = k % 3 == 0;
        let evs = gen_trace(&mut r, &flat_names, if a.thorough { 40 } else { 30 }, create_ok, &ex);
        idx += 1;
        if out.wants(idx) { run_trace(&mut out, &inits, &evs, flat_names.clone(), true, if create_ok { "zt_flat_create" } else { "zt_flat" }); }
    }
    // two-level names: oracle only
    let deep: Vec<Nm> = vec![Nm(vec![]), x("a"), x("b"), x("*"), x("x.a"), x("*.a"), x("y.b"), x("x.y.b"), x("c")];
    let n_deep = if a.thorough { 10_000 } else { 250 } * a.scale;
    for k in 0..n_deep {
        let inits = gen_inits(&mut r, &deep[..7], 3);
        let ex = existing_nodes(&inits);
        let create_ok = k % 3 == 0;
        let evs = gen_trace(&mut r, &deep, 30, create_ok, &ex);
        idx += 1;
        if out.wants(idx) { run_trace(&mut out, &inits, &evs, deep.clone(), false, if create_ok { "zt_deep_create" } else { "zt_deep" }); }
    }

    // ---- informational probe (not an oracle verdict): a node handle obtained
    // before commit() and used after it keeps the committed version number
    {
        let rt = tokio::runtime::Builder::new_current_thread().enable_all().build().unwrap();
        let mut b = ZoneBuilder::new(apex(), Class::IN);
        b.insert_rrset(&Nm::flat(2).abs(), mk_rrset(T_A, 1)).unwrap();
        let zone = b.build();
        let mut w = rt.block_on(zone.write());
        let root = rt.block_on(w.open(false)).unwrap();
        let h = rt.block_on(root.update_child(Label::from_slice(b"n2").unwrap())).unwrap();
        rt.block_on(h.update_rrset(mk_rrset(T_A, 2))).unwrap();
        rt.block_on(w.commit(false)).unwrap();
        let rd = zone.read();
        let before = observe(rd.as_ref(), &Nm::flat(2), T_A);
        rt.block_on(h.update_rrset(mk_rrset(T_A, 3))).unwrap();
        let after = observe(rd.as_ref(), &Nm::flat(2), T_A);
        extra_probe = format!("\"reader acquired after commit: {} then {} after a write through the pre-commit node handle\"", before, after);
    }

    // ---- (3) supporting only: real threads
    let mut extra: Vec<(&str, String)> = vec![("probe_stale_node_handle_after_commit", extra_probe)];
    if a.thorough && a.only.is_none() {
        out.begin("stress");
        let (reads, commits) = stress(&mut out, 1000);
        extra.push(("stress_reader_passes", reads.to_string()));
        extra.push(("stress_commits", commits.to_string()));
    }
    let fc = FAIL_COUNTS.lock().unwrap().iter().map(|(k, v)| format!("{}: {}", json_str(k), v)).collect::<Vec<_>>().join(", ");
    extra.push(("zone_oracle_failing_traces_by_class", format!("{{{}}}", fc)));
    out.finish(&extra);
}
