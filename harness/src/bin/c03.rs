//! temporary probe
use domain::base::name::{NameBuilder, RelativeName};
use octseq::array::Array;
use dv_harness::*;

fn main() {
    // 1. full label then append_slice
    let r = catch(|| {
        let mut b = NameBuilder::new_vec();
        b.append_slice(&[b'a'; 63]).unwrap();
        let r = b.append_slice(b"x");
        format!("{:?} {}", r, hex(b.as_slice()))
    });
    println!("full-label append_slice: {:?}", r);
    let r = catch(|| {
        let mut b = NameBuilder::new_vec();
        for _ in 0..63 { b.push(b'a').unwrap(); }
        let r = b.append_slice(b"x");
        format!("{:?} {}", r, hex(b.as_slice()))
    });
    println!("63 pushes then append_slice: {:?}", r);
    // 2. ShortBuf paths
    let r = catch(|| {
        let mut b = NameBuilder::<Array<5>>::new();
        b.append_label(b"abc").unwrap();
        let r1 = b.push(b'x');
        let r2 = b.push(b'y');
        let s = hex(b.as_slice());
        let n = b.finish();
        format!("{:?} {:?} {} finish={} check={:?}", r1, r2, s, hex(n.as_slice()), RelativeName::from_slice(n.as_slice()).map(|_| ()))
    });
    println!("array5 push push: {:?}", r);
    let r = catch(|| {
        let mut b = NameBuilder::<Array<5>>::new();
        b.append_label(b"abc").unwrap();
        let r1 = b.append_slice(b"xy");
        let s = hex(b.as_slice());
        let n = b.finish();
        format!("{:?} {} finish={} check={:?}", r1, s, hex(n.as_slice()), RelativeName::from_slice(n.as_slice()).map(|_| ()))
    });
    println!("array5 append_slice: {:?}", r);
    let r = catch(|| {
        let mut b = NameBuilder::<Array<4>>::new();
        b.append_label(b"abc").unwrap();
        let r1 = b.push(b'x');
        let s = hex(b.as_slice());
        let il = b.in_label();
        b.end_label();
        format!("{:?} {} {}", r1, s, il)
    });
    println!("array4 push end_label: {:?}", r);
    let r = catch(|| {
        let mut b = NameBuilder::<Array<6>>::new();
        b.append_label(b"abc").unwrap();
        let rel = RelativeName::from_slice(b"\x03xyz").unwrap();
        let r1 = b.append_name(&rel);
        let s = hex(b.as_slice());
        let n = b.finish();
        format!("{:?} {} finish={} check={:?}", r1, s, hex(n.as_slice()), RelativeName::from_slice(n.as_slice()).map(|_| ()))
    });
    println!("array6 append_name: {:?}", r);
}
