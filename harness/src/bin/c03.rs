//! C03 -- every domain-name value is valid; limits are enforced at
//! construction.  Correspondence cases for the Coq model (builder sequences,
//! text parsing, validators) and the implementation-side property oracle
//! (independent validator on every produced name, builder usable after every
//! error, display->parse and compose->parse round trips).
use domain::base::name::{Name, NameBuilder, PushError, PushNameError, RelativeName};
use dv_harness::*;
use octseq::array::Array;
use octseq::builder::{EmptyBuilder, FreezeBuilder, OctetsBuilder};
use std::str::FromStr;

// ------------------------------------------------------------------ validator
/// Independent validator: relative name = labels of 1..63 octets, no root
/// label, at most 254 octets.
fn check_rel(b: &[u8]) -> Result<(), &'static str> {
    let mut i = 0usize;
    while i < b.len() {
        let l = b[i] as usize;
        if l == 0 { return Err("root_label_in_relative_name"); }
        if l > 63 { return Err("label_longer_than_63"); }
        if i + 1 + l > b.len() { return Err("label_runs_past_end"); }
        i += 1 + l;
    }
    if b.len() > 254 { return Err("relative_name_longer_than_254"); }
    Ok(())
}
/// absolute name = relative part + exactly one root label, at most 255 octets
fn check_abs(b: &[u8]) -> Result<(), &'static str> {
    if b.is_empty() { return Err("empty_absolute_name"); }
    if b[b.len() - 1] != 0 { return Err("no_root_label"); }
    if b.len() > 255 { return Err("absolute_name_longer_than_255"); }
    match check_rel(&b[..b.len() - 1]) {
        Err("relative_name_longer_than_254") => Err("absolute_name_longer_than_255"),
        r => r,
    }
}

/// Known-finding classes: the first few occurrences are reported as oracle
/// failures (the check matches them by class), the rest are only counted so
/// that they cannot crowd other classes out of oracle.txt.
fn known_hit(out: &mut Out, class: &str, case: &str, detail: &str) {
    let k = format!("known:{}", class);
    let seen = out.dist.get(&k).copied().unwrap_or(0);
    out.count(&k);
    if seen < 5 { out.check(false, class, case, detail); }
}

// ------------------------------------------------------------------ builder sequences
#[derive(Clone, Debug)]
enum Op { Push(u8), Slice(Vec<u8>), End, Label(Vec<u8>), Dec(u8), Hex(u8), Name(Vec<u8>) }
#[derive(Clone, Debug)]
enum Fin { Finish, IntoName, Origin(Vec<u8>), Nothing }

impl Op {
    fn word(&self) -> String {
        match self {
            Op::Push(c) => format!("p:{:02x}", c),
            Op::Slice(s) => format!("s:{}", hex(s)),
            Op::End => "e".into(),
            Op::Label(s) => format!("l:{}", hex(s)),
            Op::Dec(v) => format!("d:{}", v),
            Op::Hex(v) => format!("h:{}", v),
            Op::Name(w) => format!("n:{}", hex(w)),
        }
    }
    fn atomic(&self) -> bool { !matches!(self, Op::Dec(_) | Op::Hex(_)) }
}
impl Fin {
    fn word(&self) -> String {
        match self { Fin::Finish => "F".into(), Fin::IntoName => "I".into(), Fin::Origin(w) => format!("O:{}", hex(w)), Fin::Nothing => "X".into() }
    }
}

fn pe(e: PushError) -> &'static str {
    match e { PushError::LongLabel => "LongLabel", PushError::LongName => "LongName", PushError::ShortBuf => "ShortBuf" }
}
fn pne(e: PushNameError) -> &'static str {
    match e { PushNameError::LongName => "LongName", PushNameError::ShortBuf => "ShortBuf" }
}

trait Bld: OctetsBuilder + AsRef<[u8]> + AsMut<[u8]> + EmptyBuilder + FreezeBuilder + Clone {}
impl<T: OctetsBuilder + AsRef<[u8]> + AsMut<[u8]> + EmptyBuilder + FreezeBuilder + Clone> Bld for T {}

fn apply<B: Bld>(b: &mut NameBuilder<B>, op: &Op) -> &'static str {
    match op {
        Op::Push(c) => b.push(*c).map_or_else(pe, |_| "Ok"),
        Op::Slice(s) => b.append_slice(s).map_or_else(pe, |_| "Ok"),
        Op::End => { b.end_label(); "Ok" }
        Op::Label(s) => b.append_label(s).map_or_else(pe, |_| "Ok"),
        Op::Dec(v) => b.append_dec_u8_label(*v).map_or_else(pe, |_| "Ok"),
        Op::Hex(v) => b.append_hex_digit_label(*v).map_or_else(pe, |_| "Ok"),
        Op::Name(w) => {
            let n = RelativeName::from_slice(w).expect("generator made an invalid relative name");
            b.append_name(&n).map_or_else(pne, |_| "Ok")
        }
    }
}

fn closed_view<B: Bld>(b: &NameBuilder<B>) -> Result<Vec<u8>, String>
where B::Octets: AsRef<[u8]> {
    let c = b.clone();
    catch_mut(move || c.finish().as_slice().to_vec())
}

/// Run one sequence on the implementation; returns the T2 observation.
/// `oracle` switches the property checks on.
fn run_seq<B: Bld>(out: &mut Out, case: &str, ops: &[Op], fin: &Fin, oracle: bool) -> String
where B::Octets: AsRef<[u8]> {
    run_seq_from(out, case, NameBuilder::<B>::new(), ops, fin, oracle)
}

fn run_seq_from<B: Bld>(out: &mut Out, case: &str, b0: NameBuilder<B>, ops: &[Op], fin: &Fin, oracle: bool) -> String
where B::Octets: AsRef<[u8]> {
    let mut b = b0;
    let mut words: Vec<&'static str> = vec![];
    let mut tainted = false;     // a known-class state has been reached
    let mut shortbuf_seen = false;
    let mut panicked = false;
    for op in ops {
        let before = b.clone();
        let (pre_len, pre_inl) = (b.len(), b.in_label());
        let r = catch_mut(|| apply(&mut b, op));
        let w = match r { Ok(w) => w, Err(_) => "Panic" };
        words.push(w);
        if w == "Panic" {
            panicked = true;
            if oracle && !tainted {
                let class = if shortbuf_seen { "shortbuf_corrupts_builder" }
                    else if matches!(op, Op::Slice(_)) && pre_inl { "append_slice_full_label_panic" }
                    else { "builder_panic" };
                out.check(false, class, case, &format!("{} panicked at len {} in_label {}", op.word(), pre_len, pre_inl));
            }
            break;
        }
        if w == "ShortBuf" { shortbuf_seen = true; }
        if !oracle || tainted { continue; }
        // (1) whatever happened, the builder denotes a valid relative name
        let now = closed_view(&b);
        let n = match op { Op::Slice(s) if !pre_inl => s.len(), Op::Label(s) => s.len(), _ => 0 };
        let known_gap = w == "Ok" && (1..=63).contains(&n) && pre_len + n == 254
            && matches!(op, Op::Slice(_) | Op::Label(_));
        match &now {
            Err(e) => out.check(false, if shortbuf_seen { "shortbuf_corrupts_builder" } else { "builder_panic" }, case, &format!("finish after {} panicked: {}", op.word(), e)),
            Ok(v) => match check_rel(v) {
                Ok(()) => {
                    out.check(true, "invalid_relative_name", case, "");
                    out.check(!known_gap, "oracle_self_check", case, "known-gap step gave a valid name");
                }
                Err(why) => {
                    if known_gap && why == "relative_name_longer_than_254" && v.len() == 255 {
                        known_hit(out, "relname_255_new_label", case, &format!("{} at len {} gives a 255 octet relative name", op.word(), pre_len));
                        tainted = true;
                    } else {
                        let class = if shortbuf_seen { "shortbuf_corrupts_builder" } else { "invalid_relative_name" };
                        out.check(false, class, case, &format!("after {}: {} ({})", op.word(), why, hex(v)));
                    }
                }
            },
        }
        if tainted { continue; }
        // (2) an error leaves the builder usable: same length, same open/closed
        // status, same name when finished, same answer to a following push
        if w != "Ok" && op.atomic() {
            let class = if w == "ShortBuf" { "shortbuf_corrupts_builder" } else { "error_changed_builder" };
            let same = b.len() == pre_len && b.in_label() == pre_inl && closed_view(&before).ok() == now.clone().ok();
            out.check(same, class, case, &format!("{} -> {}: len {}->{} in_label {}->{}", op.word(), w, pre_len, b.len(), pre_inl, b.in_label()));
            let (mut x, mut y) = (before.clone(), b.clone());
            let rx = catch_mut(|| { let r = x.push(b'z').map_err(pe); (r, x.as_slice().len()) });
            let ry = catch_mut(|| { let r = y.push(b'z').map_err(pe); (r, y.as_slice().len()) });
            out.check(rx == ry && rx.is_ok(), class, case, &format!("push after failed {} differs: {:?} vs {:?}", op.word(), rx, ry));
        }
    }
    let inl = if b.in_label() { 1 } else { 0 };
    let slice = hex(b.as_slice());
    let finw = if panicked { "-".to_string() } else {
        let rel_before = closed_view(&b).unwrap_or_default();
        match fin {
            Fin::Nothing => "-".to_string(),
            Fin::Finish => match catch_mut(move || b.finish().as_slice().to_vec()) {
                Err(_) => { if oracle && !tainted { out.check(false, "builder_panic", case, "finish panicked"); } "Panic".into() }
                Ok(v) => {
                    if oracle && !tainted { oracle_rel(out, case, &v, shortbuf_seen); }
                    format!("Ok:{}", hex(&v))
                }
            },
            Fin::IntoName => match catch_mut(move || b.into_name().map(|n| n.as_slice().to_vec())) {
                Err(_) => { if oracle && !tainted { out.check(false, "builder_panic", case, "into_name panicked"); } "Panic".into() }
                Ok(Err(e)) => pe(e).into(),
                Ok(Ok(v)) => {
                    if oracle && !tainted {
                        oracle_abs(out, case, &v, shortbuf_seen);
                        let mut want = rel_before.clone(); want.push(0);
                        out.check(v == want, "into_name_octets", case, &hex(&v));
                    }
                    format!("Ok:{}", hex(&v))
                }
            },
            Fin::Origin(w) => {
                let origin = Name::from_slice(w).expect("generator made an invalid origin");
                match catch_mut(move || b.append_origin(&origin).map(|n| n.as_slice().to_vec())) {
                    Err(_) => { if oracle && !tainted { out.check(false, "builder_panic", case, "append_origin panicked"); } "Panic".into() }
                    Ok(Err(e)) => pne(e).into(),
                    Ok(Ok(v)) => {
                        if oracle && !tainted {
                            oracle_abs(out, case, &v, shortbuf_seen);
                            let mut want = rel_before.clone(); want.extend_from_slice(w);
                            out.check(v == want, "append_origin_octets", case, &hex(&v));
                        }
                        format!("Ok:{}", hex(&v))
                    }
                }
            }
        }
    };
    format!("{} {} {} {}", if words.is_empty() { "-".to_string() } else { words.join(",") }, inl, slice, finw)
}

/// A RelativeName value came out of the API: validate, wire round trip.
fn oracle_rel(out: &mut Out, case: &str, v: &[u8], shortbuf_seen: bool) {
    let ok = check_rel(v);
    out.check(ok.is_ok(), if shortbuf_seen { "shortbuf_corrupts_builder" } else { "invalid_relative_name" }, case, &format!("{:?} {}", ok, hex(v)));
    if ok.is_ok() {
        let back = RelativeName::from_octets(v.to_vec());
        out.check(back.as_ref().map(|n| n.as_slice() == v).unwrap_or(false), "wire_roundtrip_relative", case, &hex(v));
        if let Ok(n) = back {
            let text = format!("{}", n);
            let again = RelativeName::<Vec<u8>>::from_str(&text);
            out.check(again.as_ref().map(|m| m.as_slice() == v).unwrap_or(false), "display_parse_roundtrip_relative", case,
                &format!("{} displayed as {:?} parses to {:?}", hex(v), text, again.map(|m| hex(m.as_slice()))));
        }
    }
}

/// A Name value came out of the API: validate, wire and text round trips.
fn oracle_abs(out: &mut Out, case: &str, v: &[u8], shortbuf_seen: bool) {
    let ok = check_abs(v);
    out.check(ok.is_ok(), if shortbuf_seen { "shortbuf_corrupts_builder" } else { "invalid_absolute_name" }, case, &format!("{:?} {}", ok, hex(v)));
    if ok.is_ok() {
        let back = Name::from_octets(v.to_vec());
        out.check(back.as_ref().map(|n| n.as_slice() == v).unwrap_or(false), "wire_roundtrip", case, &hex(v));
        if let Ok(n) = back {
            let text = format!("{}", n);
            let again = Name::<Vec<u8>>::from_str(&text);
            out.check(again.as_ref().map(|m| m.as_slice() == v).unwrap_or(false), "display_parse_roundtrip", case,
                &format!("{} displayed as {:?} parses to {:?}", hex(v), text, again.map(|m| hex(m.as_slice()))));
        }
    }
}


// ------------------------------------------------------------------ wire validators
fn err_word(dbg: &str) -> String {
    // "NameError(BadLabel(Undefined))" -> "BadLabel"
    let inner = dbg.splitn(2, '(').nth(1).unwrap_or(dbg);
    inner.split(|c| c == '(' || c == ')').next().unwrap_or("").to_string()
}

fn gen_octets(r: &mut Rng) -> Vec<u8> {
    let base_len = match r.below(6) { 0 => r.range(250, 257) as usize, 1 => r.range(0, 6) as usize, _ => r.range(2, 120) as usize };
    let total = if base_len == 1 { 2 } else { base_len };
    let mut w = rel_wire(r, total.min(255));
    if r.chance(3, 4) { w.push(0); }
    match r.below(12) {
        0 => { let i = r.below(w.len().max(1) as u64) as usize; if i < w.len() { w[i] = *r.pick(&[0u8, 0x3f, 0x40, 0x7f, 0x80, 0xbf, 0xc0, 0xff, 64, 65]); } }
        1 => { let k = r.range(1, 3) as usize; w.extend(r.bytes(k)); }
        2 => { let n = r.below(w.len().max(1) as u64) as usize; w.truncate(n); }
        3 => { let k = r.range(0, 12) as usize; w = r.bytes(k); }
        4 => { w.push(0); }
        5 => { let l = r.range(62, 66) as usize; let mut v = vec![l as u8]; v.extend(label_bytes(r, l)); v.extend(w); w = v; }
        _ => {}
    }
    w
}

/// Fixed in /repo (7d1010a): the class must stay silent.
const HOLD_UNCERTAIN_255: bool = false;

fn uncertain_case(out: &mut Out, w: &[u8]) {
    use domain::base::name::{ToLabelIter, ToName, UncertainName};
    let c = format!("unc {}", hex(w));
    let u = UncertainName::from_octets(w.to_vec());
    let obs = match &u { Ok(UncertainName::Absolute(_)) => "A".to_string(), Ok(UncertainName::Relative(_)) => "R".to_string(), Err(e) => err_word(&format!("{:?}", e)) };
    out.case(&c, &obs, w.len() > 1, "uncertain_from_octets");
    match u {
        Err(_) => {}
        Ok(UncertainName::Absolute(n)) => {
            oracle_abs(out, &c, n.as_slice(), false);
            // an absolute left side ignores the suffix
            let right = Name::from_octets(vec![3, b'c', b'o', b'm', 0]).unwrap();
            let uc = format!("uchain A {} 03636f6d00", hex(n.as_slice()));
            let l = n.as_slice().to_vec();
            match UncertainName::Absolute(n).chain(right) {
                Ok(ch) => { let v = ch.to_vec(); out.case(&uc, &format!("Ok:{}", hex(v.as_slice())), true, "chain_uncertain_octets");
                            out.check(v.as_slice() == &l[..] && usize::from(ch.compose_len()) == l.len(), "uncertain_chain_octets", &uc, &hex(v.as_slice())); }
                Err(_) => { out.case(&uc, "LongChain", true, "chain_uncertain_octets"); out.check(false, "chain_refused_fitting", &uc, "absolute left side refused"); }
            }
        }
        Ok(UncertainName::Relative(n)) => {
            let ok = check_rel(n.as_slice());
            if ok == Err("relative_name_longer_than_254") && n.as_slice().len() == 255 {
                // and what the conversions make of it
                let abs = UncertainName::Relative(n.clone()).into_absolute().map(|a: Name<Vec<u8>>| a.as_slice().len());
                let d = format!("from_octets returns a 255 octet relative name; into_absolute gives {:?} octets", abs);
                if HOLD_UNCERTAIN_255 { out.count("held:uncertain_relative_255"); } else { out.check(false, "uncertain_relative_255", &c, &d); }
            } else {
                oracle_rel(out, &c, n.as_slice(), false);
                // chain with an absolute name: Chain::new_uncertain
                let right = Name::from_octets(vec![3, b'c', b'o', b'm', 0]).unwrap();
                let ll = n.as_slice().len();
                let cc = format!("chainu R {} 5", ll);
                let uc = format!("uchain R {} 03636f6d00", hex(n.as_slice()));
                let mut want = n.as_slice().to_vec(); want.extend_from_slice(&[3, b'c', b'o', b'm', 0]);
                match UncertainName::Relative(n).chain(right) {
                    Ok(ch) => { out.case(&cc, "Ok", true, "chain_uncertain"); let v = ch.to_vec(); oracle_abs(out, &cc, v.as_slice(), false);
                                out.case(&uc, &format!("Ok:{}", hex(v.as_slice())), true, "chain_uncertain_octets");
                                out.check(v.as_slice() == &want[..] && usize::from(ch.compose_len()) == want.len(), "uncertain_chain_octets", &uc, &hex(v.as_slice())); }
                    Err(_) => { out.case(&cc, "LongChain", true, "chain_uncertain"); out.case(&uc, "LongChain", true, "chain_uncertain_octets"); out.check(ll + 5 > 255, "chain_refused_fitting", &cc, ""); }
                }
            }
        }
    }
}

fn wire_case(out: &mut Out, w: &[u8]) {
    let c = format!("abs {}", hex(w));
    out.begin(&c);
    let r = Name::from_octets(w.to_vec());
    let obs = match &r { Ok(_) => "Ok".to_string(), Err(e) => err_word(&format!("{:?}", e)) };
    out.case(&c, &obs, w.len() > 1, "from_octets_abs");
    let mine = check_abs(w);
    out.check(r.is_ok() == mine.is_ok(), "name_check_slice_wrong", &c, &format!("from_octets {:?}, validator {:?}", obs, mine));
    if let Ok(n) = &r {
        oracle_abs(out, &c, n.as_slice(), false);
        out.check(Name::from_slice(w).is_ok(), "from_slice_differs", &c, "");
        slicing_oracle(out, &c, n);
    }
    uncertain_case(out, w);
    if RelativeName::from_octets(w.to_vec()).is_err() {
        let cc = format!("fromb {} F", hex(w));
        let e = NameBuilder::from_builder(w.to_vec()).err().map(|e| err_word(&format!("{:?}", e)));
        out.check(e.is_some(), "from_builder_differs", &cc, "accepts what RelativeName::from_octets rejects");
        if let Some(e) = e { out.case(&cc, &e, w.len() > 1, "from_builder"); }
    }
    let c = format!("rel {}", hex(w));
    let r = RelativeName::from_octets(w.to_vec());
    let obs = match &r { Ok(_) => "Ok".to_string(), Err(e) => err_word(&format!("{:?}", e)) };
    out.case(&c, &obs, w.len() > 1, "from_octets_rel");
    let mine = check_rel(w);
    out.check(r.is_ok() == mine.is_ok(), "relname_check_slice_wrong", &c, &format!("from_octets {:?}, validator {:?}", obs, mine));
    if let Ok(n) = r {
        oracle_rel(out, &c, n.as_slice(), false);
        // NameBuilder::from_builder accepts the same octets and continues from them
        let b = NameBuilder::from_builder(w.to_vec());
        out.check(b.is_ok(), "from_builder_differs", &c, "");
        if let Ok(b0) = b {
            // continue building from the accepted octets
            let ops = vec![Op::Push(b'p'), Op::Label(vec![b'q'; (w.len() % 7) + 1]), Op::Slice(vec![b'r'; 3])];
            let fin = if w.len() % 2 == 0 { Fin::Finish } else { Fin::IntoName };
            let mut cc = format!("fromb {}", hex(w)); for o in &ops { cc.push(' '); cc.push_str(&o.word()); } cc.push(' '); cc.push_str(&fin.word());
            let obs = run_seq_from::<Vec<u8>>(out, &cc, b0, &ops, &fin, true);
            out.case(&cc, &obs, true, "from_builder");
        }
        // into_absolute appends the root label
        let abs = n.clone().into_absolute();
        match abs {
            Ok(a) => { oracle_abs(out, &c, a.as_slice(), false);
                       let back = a.into_relative(); out.check(back.as_slice() == w, "into_relative_octets", &c, &hex(back.as_slice())); }
            Err(e) => out.check(false, "into_absolute_failed", &c, pe(e)),
        }
    }
}

/// split / truncate / range / slice / parent / strip_suffix at every label start
fn slicing_oracle(out: &mut Out, c: &str, n: &Name<Vec<u8>>) {
    let w = n.as_slice().to_vec();
    for i in 0..w.len() {
        if !n.is_label_start(i) { continue; }
        let r = catch(std::panic::AssertUnwindSafe(|| {
            let (l, rgt) = n.split(i);
            let t = n.clone().truncate(i);
            let rg = n.range(..i);
            let sl = n.slice(..i).as_slice().to_vec();
            let sf = n.slice_from(i).as_slice().to_vec();
            let rf = n.range_from(i);
            (l.as_slice().to_vec(), rgt.as_slice().to_vec(), t.as_slice().to_vec(), rg.as_slice().to_vec(), sl, sf, rf.as_slice().to_vec())
        }));
        match r {
            Err(e) => out.check(false, "slicing_panic", c, &format!("index {}: {}", i, e)),
            Ok((l, rgt, t, rg, sl, sf, rf)) => {
                out.check(check_rel(&l).is_ok() && l == w[..i], "split_left_invalid", c, &hex(&l));
                out.check(check_abs(&rgt).is_ok() && rgt == w[i..], "split_right_invalid", c, &hex(&rgt));
                out.check(t == l && rg == l && sl == l, "truncate_range_differs", c, &format!("index {}", i));
                out.check(sf == rgt && rf == rgt, "slice_from_differs", c, &format!("index {}", i));
                // strip_suffix with the right part gives back the left part
                let base = Name::from_octets(rgt.clone()).unwrap();
                match n.clone().strip_suffix(&base) {
                    Ok(rel) => out.check(rel.as_slice() == &l[..], "strip_suffix_octets", c, &hex(rel.as_slice())),
                    Err(_) => out.check(false, "strip_suffix_refused", c, &format!("index {}", i)),
                }
            }
        }
    }
    match n.parent() {
        None => out.check(w.len() == 1, "parent_none", c, ""),
        Some(p) => out.check(check_abs(p.as_slice()).is_ok() && p.as_slice() == &w[1 + w[0] as usize..], "parent_invalid", c, &hex(p.as_slice())),
    }
    // an index that is not a label start must be refused (panic), never yield a name
    if w.len() > 2 {
        let i = 1usize; // inside the first label (its content), never a label start
        let r = catch(std::panic::AssertUnwindSafe(|| n.split(i).0.as_slice().to_vec()));
        out.check(r.is_err(), "split_inside_label_accepted", c, "");
    }
}

// ------------------------------------------------------------------ text
fn last_word(dbg: &str) -> String {
    let mut cur = String::new(); let mut last = String::new();
    for ch in dbg.chars() { if ch.is_ascii_alphanumeric() { cur.push(ch); } else { if !cur.is_empty() { last = cur.clone(); cur.clear(); } } }
    if !cur.is_empty() { last = cur; }
    last
}
fn chars_word(s: &str) -> String {
    if s.is_empty() { "-".into() } else { s.chars().map(|c| format!("{:x}", c as u32)).collect::<Vec<_>>().join(",") }
}
fn gen_text(r: &mut Rng) -> String {
    const ALPHA: [&str; 24] = ["\\", "\\", "\\", ".", ".", ".", "0", "1", "2", "5", "9", " ", "\"", ";", "(", ")", "[", "a", "b", "z", "é", "\u{0}", "\u{7f}", "\u{1F600}"];
    let mut s = String::new();
    let style = r.below(6);
    let n = match style { 0 => r.range(0, 4), 1 => r.range(240, 270), _ => r.range(1, 30) };
    for i in 0..n {
        if style == 1 {
            // long names: labels of steered length
            if i > 0 && i % r.range(2, 64) == 0 { s.push('.'); } else { s.push((b'a' + r.below(26) as u8) as char); }
        } else if style == 2 && r.chance(1, 3) {
            s.push_str(&format!("\\{:03}", r.below(300)));
        } else {
            s.push_str(*r.pick(&ALPHA[..]));
        }
    }
    if r.chance(1, 4) { s.push('.'); }
    s
}
fn text_case(out: &mut Out, s: &str) {
    use domain::base::name::UncertainName;
    let c = format!("txt {}", chars_word(s));
    out.begin(&c);
    let a = catch(|| Name::<Vec<u8>>::from_chars(s.chars()));
    let rl = catch(|| RelativeName::<Vec<u8>>::from_chars(s.chars()));
    let u = catch(|| UncertainName::<Vec<u8>>::from_chars(s.chars()));
    let wa = match &a { Err(_) => "Panic".into(), Ok(Ok(n)) => format!("Ok:{}", hex(n.as_slice())), Ok(Err(e)) => last_word(&format!("{:?}", e)) };
    let wr = match &rl { Err(_) => "Panic".into(), Ok(Ok(n)) => format!("Ok:{}", hex(n.as_slice())), Ok(Err(e)) => last_word(&format!("{:?}", e)) };
    let wu = match &u { Err(_) => "Panic".into(),
        Ok(Ok(UncertainName::Absolute(n))) => format!("Ok:A:{}", hex(n.as_slice())),
        Ok(Ok(UncertainName::Relative(n))) => format!("Ok:R:{}", hex(n.as_slice())),
        Ok(Err(e)) => last_word(&format!("{:?}", e)) };
    out.case(&c, &format!("abs={} rel={} unc={}", wa, wr, wu), s.len() > 1, "from_chars");
    if !s.is_empty() {
        use domain::base::scan::IterScanner;
        let c = format!("scan {}", chars_word(s));
        let o = catch(|| { let mut sc = IterScanner::<_, Vec<u8>>::new(vec![s.to_string()]); Name::<Vec<u8>>::scan(&mut sc).map(|n| n.as_slice().to_vec()).map_err(|_| ()) });
        let w = match &o { Err(_) => "Panic".to_string(), Ok(Ok(v)) => format!("Ok:{}", hex(v)), Ok(Err(_)) => "Err".into() };
        out.case(&c, &w, s.len() > 1, "name_scan");
        let f = Name::<Vec<u8>>::from_str(s).map(|n| n.as_slice().to_vec()).map_err(|_| ());
        out.check(o.as_ref().ok() == Some(&f), "scan_differs_from_str", &c, &w);
        if let Ok(Ok(v)) = &o { oracle_abs(out, &c, v, false); }
    }
    {
        use domain::base::name::OwnedLabel;
        let c = format!("olabel {}", chars_word(s));
        let o = catch(|| OwnedLabel::from_chars(s.chars()).map(|l| l.as_label().as_slice().to_vec()));
        let w = match &o { Err(_) => "Panic".into(), Ok(Ok(v)) => format!("Ok:{}", hex(v)), Ok(Err(e)) => last_word(&format!("{:?}", e)) };
        out.case(&c, &w, s.len() > 1, "owned_label_from_chars");
        out.check(o.is_ok(), "owned_label_panic", &c, "");
        if let Ok(Ok(v)) = &o { out.check(v.len() <= 63, "owned_label_too_long", &c, &hex(v)); }
    }
    out.check(a.is_ok() && rl.is_ok() && u.is_ok(), "from_chars_panic", &c, "");
    if let Ok(Ok(n)) = &a { oracle_abs(out, &c, n.as_slice(), false); }
    if let Ok(Ok(n)) = &rl { oracle_rel(out, &c, n.as_slice(), false); }
    match &u {
        Ok(Ok(UncertainName::Absolute(n))) => oracle_abs(out, &c, n.as_slice(), false),
        Ok(Ok(UncertainName::Relative(n))) => oracle_rel(out, &c, n.as_slice(), false),
        _ => {}
    }
}
fn display_case(out: &mut Out, w: &[u8]) {
    let n = Name::from_octets(w.to_vec()).unwrap();
    let c = format!("disp {}", hex(w));
    let text = format!("{}", n);
    out.case(&c, &chars_word(&text), w.len() > 1, "display");
    let rw = &w[..w.len() - 1];
    let rn = RelativeName::from_octets(rw.to_vec()).unwrap();
    out.case(&format!("dispr {}", hex(rw)), &chars_word(&format!("{}", rn)), rw.len() > 1, "display_relative");
}


// ------------------------------------------------------------------ names parsed from a message
/// A candidate absolute name spelled without compression: labels of steered
/// lengths (62..65 included: 64 and 65 are not length octets at all) summing
/// to a steered total (250..257 included), then the root label.
fn steered_label_lens(r: &mut Rng, total: usize) -> Vec<usize> {
    // valid label lengths (62 and 63 frequent) whose wire size adds up to `total`;
    // one time in four one label is then stretched to 64 or 65 octets
    let mut v = vec![]; let mut used = 0usize;
    while used < total {
        let left = total - used;
        if left == 1 { match v.last_mut() { Some(x) => { *x += 1; } None => v.push(1) } break; }
        let mut l = match r.below(5) { 0 => r.range(62, 63) as usize, 1 => r.range(1, 3) as usize, _ => r.range(1, 63) as usize };
        if l + 1 > left { l = left - 1; }
        if left - (l + 1) == 1 && l > 1 { l -= 1; }
        v.push(l); used += l + 1;
    }
    if !v.is_empty() && r.chance(1, 4) { let i = r.below(v.len() as u64) as usize; v[i] = r.range(64, 65) as usize; }
    v
}
fn gen_wire_candidate(r: &mut Rng) -> (Vec<u8>, Vec<usize>) {
    let target = match r.below(4) { 0 => r.range(1, 40) as usize, _ => r.range(246, 258) as usize };
    let mut w = vec![]; let mut starts = vec![];
    for l in steered_label_lens(r, target - 1) {
        starts.push(w.len());
        w.push(l as u8); w.extend((0..l).map(|_| b'a' + r.below(26) as u8));
    }
    starts.push(w.len());
    w.push(0);
    (w, starts)
}

fn parsed_checks<'a>(out: &mut Out, case: &str, what: &str, buf: &'a [u8], start: usize, want_ok: bool, want: &[u8]) {
    use domain::base::name::{FlattenInto, ParsedName, ToLabelIter, ToName};
    use octseq::parse::Parser;
    let r = catch(std::panic::AssertUnwindSafe(|| {
        let mut p = Parser::from_ref(buf);
        p.advance(start).unwrap();
        ParsedName::parse(&mut p).map(|pn| {
            let v = pn.to_vec().as_slice().to_vec();
            let mut c = Vec::new(); pn.compose(&mut c).unwrap();
            let cl = usize::from(pn.compose_len());
            let labels: usize = pn.iter_labels().map(|l| l.len() + 1).sum();
            let f: Name<Vec<u8>> = pn.clone().flatten_into();
            let cow = pn.to_cow().as_slice().to_vec();
            let mut it = Vec::new();
            for l in pn.iter_labels() { it.push(l.len() as u8); it.extend_from_slice(l.as_slice()); }
            let eq_want = Name::from_octets(want.to_vec()).map(|n| pn == n).unwrap_or(true);
            // walk up with parent() on one copy and split_first() on another
            let mut up = pn.clone(); let mut sf = pn.clone();
            let mut parents: Vec<Vec<u8>> = vec![]; let mut firsts: Vec<Vec<u8>> = vec![]; let mut flat_bad: Vec<String> = vec![];
            let walk = buf.len() % 3 == 0 || want.len() < 40;
            for _ in 0..(if walk { 130 } else { 0 }) {
                let first = sf.split_first().map(|l| l.as_slice().to_vec());
                let moved = up.parent();
                if moved != first.is_some() { parents.push(vec![0xEE]); break; }
                match first { None => break, Some(l) => { firsts.push(l); parents.push(up.to_vec().as_slice().to_vec());
                    if sf.to_vec().as_slice() != up.to_vec().as_slice() || usize::from(up.compose_len()) != up.to_vec().as_slice().len() { parents.push(vec![0xEF]); break; }
                    // every way of flattening the shortened name must agree with its label iterator
                    for (tag, q) in [("parent", &up), ("split_first", &sf)] {
                        let mut it2 = Vec::new(); for l in q.iter_labels() { it2.push(l.len() as u8); it2.extend_from_slice(l.as_slice()); }
                        let mut c2 = Vec::new(); q.compose(&mut c2).unwrap();
                        let cow2 = q.to_cow().as_slice().to_vec();
                        let f2: Name<Vec<u8>> = q.clone().flatten_into();
                        let eq2 = Name::from_octets(it2.clone()).map(|n| *q == n).unwrap_or(false);
                        if c2 != it2 || cow2 != it2 || f2.as_slice() != &it2[..] || !eq2 {
                            flat_bad.push(format!("after {} x{}: labels {} compose {} to_cow {} flatten_into {} eq {}", tag, parents.len(), hex(&it2), hex(&c2), hex(&cow2), hex(f2.as_slice()), eq2));
                        }
                    } } }
            }
            if walk {
                // iter_suffixes: the same names again
                for (k, sfx) in pn.iter_suffixes().enumerate().take(130) {
                    let mut it2 = Vec::new(); for l in sfx.iter_labels() { it2.push(l.len() as u8); it2.extend_from_slice(l.as_slice()); }
                    let mut c2 = Vec::new(); sfx.compose(&mut c2).unwrap();
                    let cow2 = sfx.to_cow().as_slice().to_vec();
                    if c2 != it2 || cow2 != it2 { flat_bad.push(format!("iter_suffixes #{}: labels {} compose {} to_cow {}", k, hex(&it2), hex(&c2), hex(&cow2))); }
                    if k > 0 && parents.get(k - 1).map(|p| p != &it2).unwrap_or(false) { flat_bad.push(format!("iter_suffixes #{} = {} differs from parent() chain", k, hex(&it2))); }
                }
            }
            (v, c, cl, labels, f.as_slice().to_vec(), (cow, it, eq_want, parents, firsts, flat_bad))
        })
    }));
    {
        let c = format!("pn {} {}", hex(buf), start);
        let o = match &r { Err(_) => "Panic".to_string(), Ok(Err(_)) => "Err".to_string(), Ok(Ok(t)) => format!("Ok:{}", hex(&t.0)) };
        out.case(&c, &o, true, "parsed_name_t2");
    }
    match r {
        Err(e) => out.check(false, "parsed_name_panic", case, &format!("{}: {}", what, e)),
        Ok(Err(_)) => out.check(!want_ok, "parsed_vs_flat_mismatch", case, &format!("{}: ParsedName::parse rejects a name that Name::from_octets accepts", what)),
        Ok(Ok((v, c, cl, labels, f, (cow, it, eq_want, parents, firsts, flat_bad)))) => {
            out.check(flat_bad.is_empty(), "parsed_suffix_octets", case, &format!("{}: {}", what, flat_bad.join(" | ")));
            if want_ok && v == want && (buf.len() % 3 == 0 || want.len() < 40) {
                // expected: the suffixes of the name at every label start, the labels one by one
                let mut exp_p: Vec<Vec<u8>> = vec![]; let mut exp_f: Vec<Vec<u8>> = vec![];
                let mut i = 0usize; while want[i] != 0 { let l = want[i] as usize; exp_f.push(want[i..i + 1 + l].to_vec()); i += 1 + l; exp_p.push(want[i..].to_vec()); }
                out.check(parents == exp_p, "parsed_parent_wrong", case, &format!("{}: parent() chain gives {:?}", what, parents.iter().map(|p| hex(p)).collect::<Vec<_>>()));
                out.check(firsts == exp_f, "parsed_split_first_wrong", case, &format!("{}: split_first() gives {:?}", what, firsts.iter().map(|p| hex(p)).collect::<Vec<_>>()));
                out.check(parents.iter().all(|p| check_abs(p).is_ok()) && firsts.iter().all(|p| check_rel(p).is_ok()), "parsed_name_invalid", case, &format!("{}: parent/split_first result invalid", what));
            }
            out.check(check_abs(&cow).is_ok() && check_abs(&it).is_ok(), "parsed_name_invalid", case, &format!("{}: to_cow {} / label iterator {}", what, hex(&cow), hex(&it)));
            out.check(v == it && c == it && f == it && cow == it, "parsed_name_octets", case,
                &format!("{}: label iterator {} to_vec {} compose {} flatten_into {} to_cow {}", what, hex(&it), hex(&v), hex(&c), hex(&f), hex(&cow)));
            out.check(eq_want, "parsed_name_octets", case, &format!("{}: ParsedName != the same name as Name", what));
            out.check(want_ok, "parsed_vs_flat_mismatch", case, &format!("{}: ParsedName::parse accepts {} octets that Name::from_octets rejects", what, v.len()));
            let ok = check_abs(&v);
            out.check(ok.is_ok(), "parsed_name_invalid", case, &format!("{}: to_vec gives {:?} ({} octets)", what, ok, v.len()));
            out.check(check_abs(&f).is_ok() && check_abs(&c).is_ok(), "parsed_name_invalid", case, &format!("{}: flatten_into/compose give an invalid name", what));
            out.check(v == c && v == f && cl == v.len() && labels == v.len(), "parsed_name_len_mismatch", case,
                &format!("{}: to_vec {} compose {} flatten {} compose_len {} labels {}", what, v.len(), c.len(), f.len(), cl, labels));
            if want_ok { out.check(v == want, "parsed_name_octets", case, what); }
        }
    }
}

fn parsed_case(out: &mut Out, r: &mut Rng) {
    use octseq::parse::Parser;
    let (w, starts) = gen_wire_candidate(r);
    let case = format!("parsed {}", hex(&w));
    out.begin(&case);
    let flat = Name::from_octets(w.clone());
    let want_ok = flat.is_ok();
    {   // coverage counters for the boundary the limit tests guard
        let lens: Vec<usize> = starts.windows(2).map(|p| p[1] - p[0] - 1).collect();
        if lens.iter().all(|&l| l <= 63) { match w.len() { 255 => out.count("cov:parsed_total_255"), 256 => out.count("cov:parsed_total_256"), _ => {} } }
        if w.len() <= 255 && lens.iter().any(|&l| l == 64) { out.count("cov:parsed_label_64"); }
        if lens.iter().all(|&l| l <= 63) && lens.iter().any(|&l| l == 63) && w.len() <= 255 { out.count("cov:parsed_label_63_ok"); }
    }
    out.check(want_ok == check_abs(&w).is_ok(), "name_check_slice_wrong", &case, "");
    // uncompressed, at an offset
    let pad = r.range(0, 3) as usize;
    let mut buf = vec![0xAAu8; pad]; buf.extend_from_slice(&w); buf.extend_from_slice(&[0x55, 0x55]);
    parsed_checks(out, &case, "uncompressed", &buf, pad, want_ok, &w);
    // Name::parse on the same octets
    let np = catch(std::panic::AssertUnwindSafe(|| {
        let mut p = Parser::from_ref(&buf[..]); p.advance(pad).unwrap();
        Name::parse(&mut p).map(|n: Name<&[u8]>| n.as_slice().to_vec())
            .map_err(|e| if matches!(e, domain::base::wire::ParseError::ShortInput) { "ShortInput" } else { "Form" })
    }));
    {
        let c = format!("nparse {}", hex(&buf[pad..]));
        let o = match &np { Err(_) => "Panic".to_string(), Ok(Ok(v)) => format!("Ok:{}", hex(v)), Ok(Err(e)) => e.to_string() };
        out.case(&c, &o, true, "name_parse");
    }
    match np {
        Err(e) => out.check(false, "parsed_name_panic", &case, &format!("Name::parse: {}", e)),
        Ok(Err(_)) => out.check(!want_ok, "name_parse_vs_flat_mismatch", &case, "Name::parse rejects what from_octets accepts"),
        Ok(Ok(v)) => {
            out.check(want_ok, "name_parse_vs_flat_mismatch", &case, &format!("Name::parse accepts {} octets that from_octets rejects", v.len()));
            out.check(check_abs(&v).is_ok(), "parsed_name_invalid", &case, &format!("Name::parse gives {:?}", check_abs(&v)));
        }
    }
    // compressed: the tail from a label start is stored first, the head points to it
    if starts.len() >= 2 {
        let k = starts[r.below(starts.len() as u64) as usize];
        let (head, tail) = w.split_at(k);
        let mut buf = vec![0xAAu8; 2];
        let tpos = buf.len();
        buf.extend_from_slice(tail);
        let hpos = buf.len();
        buf.extend_from_slice(head);
        buf.push(0xC0 | ((tpos >> 8) as u8)); buf.push(tpos as u8);
        buf.extend_from_slice(&[0x55, 0x55]);
        parsed_checks(out, &case, &format!("pointer to the tail at label {}", k), &buf, hpos, want_ok, &w);
    }
    // the name is ONLY a pointer; the target is labels + another pointer (2 hops), or that again (3 hops)
    if starts.len() >= 3 {
        for hops in [2usize, 3] {
            if starts.len() < hops + 1 { continue; }
            // cut points: hops-1 inner boundaries, strictly increasing label starts > 0
            let mut cuts: Vec<usize> = vec![];
            let inner = &starts[1..starts.len() - 1];
            if inner.len() < hops - 1 { continue; }
            let mut pool: Vec<usize> = inner.to_vec();
            for _ in 0..hops - 1 { let i = r.below(pool.len() as u64) as usize; cuts.push(pool.remove(i)); }
            cuts.sort();
            let mut pieces: Vec<&[u8]> = vec![]; let mut prev = 0;
            for &c in &cuts { pieces.push(&w[prev..c]); prev = c; }
            pieces.push(&w[prev..]);           // last piece ends with the root label
            // layout: last piece first, each earlier piece followed by a pointer to the next one
            let mut buf = vec![0xAAu8; 2];
            let mut target = buf.len();
            buf.extend_from_slice(pieces[pieces.len() - 1]);
            for p in pieces[..pieces.len() - 1].iter().rev() {
                let here = buf.len();
                buf.extend_from_slice(p);
                buf.push(0xC0 | ((target >> 8) as u8)); buf.push(target as u8);
                target = here;
            }
            let hpos = buf.len();
            buf.push(0xC0 | ((target >> 8) as u8)); buf.push(target as u8);
            buf.extend_from_slice(&[0x55, 0x55]);
            parsed_checks(out, &case, &format!("bare pointer, {} hops", hops), &buf, hpos, want_ok, &w);
        }
    }
    out.oracle_case(&case, w.len() > 2, "parsed_name");
}

// ------------------------------------------------------------------ names scanned from zone-file text
/// presentation text of `labels`; `esc` selects how octets are spelled
fn zf_name_text(r: &mut Rng, labels: &[Vec<u8>], absolute: bool, esc_label: Option<usize>) -> String {
    let mut s = String::new();
    for (i, l) in labels.iter().enumerate() {
        if i > 0 { s.push('.'); }
        for (j, &b) in l.iter().enumerate() {
            let escape_here = esc_label == Some(i) && (j == 0 || j + 1 == l.len() || r.chance(1, 6));
            if escape_here {
                if r.chance(1, 2) { s.push_str(&format!("\\{:03}", b)); } else { s.push('\\'); s.push(b as char); }
            } else { s.push(b as char); }
        }
    }
    if absolute { s.push('.'); }
    s
}
fn zf_labels(r: &mut Rng, total: usize) -> Vec<Vec<u8>> {
    steered_label_lens(r, total).into_iter().map(|l| (0..l).map(|_| b'a' + r.below(26) as u8).collect()).collect()
}
/// Fixed in /repo (b78a8a8): the class must stay silent.
const HOLD_ZONEFILE_EMPTY_LABEL: bool = false;

fn zonefile_case(out: &mut Out, r: &mut Rng) {
    use domain::base::name::{ToLabelIter, ToName};
    use domain::rdata::ZoneRecordData;
    use domain::zonefile::inplace::{Entry, Zonefile};
    let ol = *r.pick(&[0usize, 4, 12, 30]);
    let origin_labels: Vec<Vec<u8>> = if ol == 0 { vec![] } else { vec![vec![b'o'; ol / 2 - 1], vec![b'g'; ol - ol / 2 - 1]] };
    let origin_len: usize = origin_labels.iter().map(|l| l.len() + 1).sum::<usize>() + 1;
    let expect_ok = std::cell::Cell::new(true);
    let cov = std::cell::Cell::new(0u8); let cov255 = std::cell::Cell::new(false); let cov256 = std::cell::Cell::new(false);
    let mk = |r: &mut Rng, steered: bool| -> String {
        let absolute = r.chance(1, 2);
        let room = if absolute { 254 } else { 255usize.saturating_sub(origin_len) };
        let total = if !steered { r.range(2, 40) as usize } else { (room as i64 + r.range(0, 7) as i64 - 5).max(2) as usize };
        let labels = zf_labels(r, total);
        let esc = match r.below(4) { 0 => None, 1 => Some(0), 2 => Some(labels.len() - 1), _ => Some(r.below(labels.len() as u64) as usize) };
        let wire: usize = labels.iter().map(|l| l.len() + 1).sum::<usize>() + if absolute { 1 } else { origin_len };
        if labels.iter().any(|l| l.len() > 63) || wire > 255 { expect_ok.set(false); }
        if wire <= 255 && labels.iter().filter(|l| l.len() > 63).count() == 1 && labels.iter().any(|l| l.len() == 64) {
            cov.set(if esc.is_some() { 2 } else { 1 });
        }
        if wire == 255 && labels.iter().all(|l| l.len() <= 63) { cov255.set(true); }
        if wire == 256 && labels.iter().all(|l| l.len() <= 63) { cov256.set(true); }
        let mut t = zf_name_text(r, &labels, absolute, esc);
        if r.chance(1, 8) {
            // an empty label: a doubled dot somewhere (never at the very start: that is the root spelling)
            let dots: Vec<usize> = t.char_indices().filter(|&(i, c)| c == '.' && i > 0 && &t[i - 1..i] != "\\").map(|(i, _)| i).collect();
            if let Some(&i) = dots.get(r.below(dots.len().max(1) as u64) as usize) { t.insert(i, '.'); expect_ok.set(false); }
        }
        t
    };
    let which = r.below(3);
    let owner = mk(r, which != 1);
    let target = mk(r, which != 0);
    let target = if r.chance(1, 6) { format!("\"{}\"", target) } else { target };
    let origin_text = if origin_labels.is_empty() { ".".to_string() } else { zf_name_text(r, &origin_labels, true, None) };
    let text = format!("$ORIGIN {}\n{} 3600 IN NS {}\n", origin_text, owner, target);
    let case = format!("zonefile {}", hex(text.as_bytes()));
    out.begin(&case);
    let data = text.clone().into_bytes();
    let res = catch(move || {
        let mut z = Zonefile::from(&data[..]);
        let mut names: Vec<(Vec<u8>, usize, usize)> = vec![];
        loop {
            match z.next_entry() {
                Ok(Some(Entry::Record(rec))) => {
                    let o = rec.owner();
                    let mut c = Vec::new(); o.compose(&mut c).unwrap();
                    names.push((c, usize::from(o.compose_len()), o.iter_labels().map(|l| l.len() + 1).sum()));
                    if let ZoneRecordData::Ns(ns) = rec.data() {
                        let n = ns.nsdname();
                        let mut c = Vec::new(); n.compose(&mut c).unwrap();
                        names.push((c, usize::from(n.compose_len()), n.iter_labels().map(|l| l.len() + 1).sum()));
                    }
                }
                Ok(Some(_)) => {}
                Ok(None) => { if names.is_empty() && std::env::var("C03_DEBUG").is_ok() { eprintln!("ZF-NONE :: {}", String::from_utf8_lossy(&data).replace('\n', "|")); } return names; }
                Err(e) => { if std::env::var("C03_DEBUG").is_ok() { eprintln!("ZF-ERR {} :: {}", e, String::from_utf8_lossy(&data).chars().take(120).collect::<String>().replace('\n', "|")); } return names; }
            }
        }
    });
    match res {
        Err(e) => out.check(false, "zonefile_name_panic", &case, &e),
        Ok(names) => {
            out.count(if names.is_empty() { "zonefile_rejected" } else { "zonefile_accepted" });
            match cov.get() { 1 => out.count("cov:zonefile_label_64_plain"), 2 => out.count("cov:zonefile_label_64_with_escape"), _ => {} }
            if cov255.get() { out.count("cov:zonefile_total_255"); }
            if cov256.get() { out.count("cov:zonefile_total_256"); }
            // diagnostic only (the property does not ask that every valid name is accepted)
            if names.is_empty() == expect_ok.get() { out.count(if expect_ok.get() { "zonefile_valid_but_rejected" } else { "zonefile_invalid_but_accepted" }); }
            for (c, cl, labels) in names {
                let ok = check_abs(&c);
                if ok == Err("root_label_in_relative_name") {
                    let d = format!("scanned name has an empty label inside: {}", hex(&c));
                    if HOLD_ZONEFILE_EMPTY_LABEL { out.count("held:zonefile_empty_label"); } else { out.check(false, "zonefile_empty_label", &case, &d); }
                    continue;
                }
                out.check(ok.is_ok(), "zonefile_name_invalid", &case, &format!("{:?}: {} octets {}", ok, c.len(), hex(&c)));
                out.check(cl == c.len() && labels == c.len(), "zonefile_name_len_mismatch", &case, &format!("compose_len {} labels {} composed {}", cl, labels, c.len()));
            }
        }
    }
    out.oracle_case(&case, true, "zonefile_name");
}


// ------------------------------------------------------------------ slicing (T2)
fn okhex(r: Result<Vec<u8>, String>) -> String { match r { Ok(v) => format!("Ok:{}", hex(&v)), Err(_) => "Panic".into() } }

fn slicing_t2(out: &mut Out, r: &mut Rng, w: &[u8], absolute: bool) {
    use std::ops::Bound;
    use std::panic::AssertUnwindSafe as A;
    let k = if absolute { "A" } else { "R" };
    let h = hex(w);
    let abs = if absolute { Some(Name::from_octets(w.to_vec()).unwrap()) } else { None };
    let rel = if absolute { None } else { Some(RelativeName::from_octets(w.to_vec()).unwrap()) };
    // indices: every offset for short names, label starts and their neighbours otherwise
    let mut idxs: Vec<usize> = if w.len() <= 24 { (0..=w.len() + 2).collect() } else {
        let mut v = vec![0usize, 1, w.len() - 1, w.len(), w.len() + 1, 300, 65536];
        let mut i = 0; while i < w.len() { v.push(i); v.push(i + 1); if i > 0 { v.push(i - 1); } let l = w[i] as usize; if l == 0 { break; } i += 1 + l; }
        v.push(i);
        for _ in 0..4 { v.push(r.below(w.len() as u64 + 2) as usize); }
        v.sort(); v.dedup(); v };
    if idxs.len() > 40 { let keep: Vec<usize> = (0..40).map(|_| *r.pick(&idxs)).collect(); idxs = keep; idxs.sort(); idxs.dedup(); }
    for &i in &idxs {
        let c = format!("ils {} {} {}", k, h, i);
        let b = match (&abs, &rel) { (Some(n), _) => n.is_label_start(i), (_, Some(n)) => n.is_label_start(i), _ => unreachable!() };
        out.case(&c, if b { "true" } else { "false" }, i > 0, "is_label_start");
        let c = format!("split {} {} {}", k, h, i);
        let obs = match (&abs, &rel) {
            (Some(n), _) => catch(A(|| { let (l, rr) = n.split(i); (l.as_slice().to_vec(), rr.as_slice().to_vec()) })),
            (_, Some(n)) => catch(A(|| { let (l, rr) = n.split(i); (l.as_slice().to_vec(), rr.as_slice().to_vec()) })),
            _ => unreachable!() };
        let o = match &obs { Ok((l, rr)) => format!("Ok:{}:{}", hex(l), hex(rr)), Err(_) => "Panic".into() };
        out.case(&c, &o, true, "split");
        out.check(obs.is_ok() == b, "split_vs_is_label_start", &c, "split accepts exactly the label starts");
        if let Ok((l, rr)) = &obs {
            out.check(check_rel(l).is_ok() && if absolute { check_abs(rr).is_ok() } else { check_rel(rr).is_ok() }, "split_part_invalid", &c, &o);
        }
        let c = format!("trunc {} {} {}", k, h, i);
        let obs = match (&abs, &rel) {
            (Some(n), _) => catch(A(|| n.clone().truncate(i).as_slice().to_vec())),
            (_, Some(n)) => catch(A(|| { let mut m = n.clone(); m.truncate(i); m.as_slice().to_vec() })),
            _ => unreachable!() };
        if let Ok(v) = &obs { out.check(check_rel(v).is_ok(), "truncate_invalid", &c, &hex(v)); }
        out.case(&c, &okhex(obs), true, "truncate");
        if let Some(n) = &abs {
            let c = format!("from {} {}", h, i);
            let o1 = catch(A(|| n.range_from(i).as_slice().to_vec()));
            let o2 = catch(A(|| n.slice_from(i).as_slice().to_vec()));
            out.check(o1 == o2, "slice_from_differs", &c, "");
            if let Ok(v) = &o1 { out.check(check_abs(v).is_ok(), "range_from_invalid", &c, &hex(v)); }
            out.case(&c, &okhex(o1), true, "range_from");
        }
    }
    // ranges: pairs of indices, all bound kinds
    for _ in 0..8 {
        let (a, b) = (*r.pick(&idxs), *r.pick(&idxs));
        let lo = if r.chance(1, 5) { None } else { Some(a) };
        let (hw, hb) = match r.below(5) { 0 => ("u".to_string(), Bound::Unbounded), 1 if b > 0 => (format!("i{}", b - 1), Bound::Included(b - 1)), _ => (format!("e{}", b), Bound::Excluded(b)) };
        let lb = match lo { Some(a) => Bound::Included(a), None => Bound::Unbounded };
        let c = format!("range {} {} {} {}", k, h, lo.map_or("-".to_string(), |a| a.to_string()), hw);
        let (o1, o2) = match (&abs, &rel) {
            (Some(n), _) => (catch(A(|| n.range((lb, hb)).as_slice().to_vec())), catch(A(|| n.slice((lb, hb)).as_slice().to_vec()))),
            (_, Some(n)) => (catch(A(|| n.range((lb, hb)).as_slice().to_vec())), catch(A(|| n.slice((lb, hb)).as_slice().to_vec()))),
            _ => unreachable!() };
        out.check(o1 == o2, "slice_range_differ", &c, "");
        if let Ok(v) = &o1 { out.check(check_rel(v).is_ok(), "range_invalid", &c, &hex(v)); }
        out.case(&c, &okhex(o1), true, "range");
    }
    // parent
    let c = format!("parent {} {}", k, h);
    let o = match (&abs, &rel) {
        (Some(n), _) => catch(A(|| n.parent().map(|p| p.as_slice().to_vec()))),
        (_, Some(n)) => catch(A(|| n.parent().map(|p| p.as_slice().to_vec()))),
        _ => unreachable!() };
    let ow = match &o { Ok(None) => "None".to_string(), Ok(Some(v)) => format!("Some:{}", hex(v)), Err(_) => "Panic".into() };
    if let Ok(Some(v)) = &o { out.check(if absolute { check_abs(v).is_ok() } else { check_rel(v).is_ok() }, "parent_invalid", &c, &hex(v)); }
    out.case(&c, &ow, w.len() > 1, "parent");
    // strip_suffix: a real suffix (case changed), a non-suffix, the whole name
    let mut starts = vec![0usize]; { let mut i = 0; while i < w.len() && w[i] != 0 { i += 1 + w[i] as usize; starts.push(i); } }
    for t in 0..3 {
        let cut = *r.pick(&starts);
        let mut base: Vec<u8> = w[cut..].to_vec();
        for x in base.iter_mut() { if x.is_ascii_alphabetic() && r.chance(1, 3) { *x ^= 0x20; } }
        // keep length octets intact: flipping bit 5 of a length octet would corrupt the name
        { let mut b2 = w[cut..].to_vec(); let mut i = 0; while i < b2.len() && b2[i] != 0 { let l = b2[i] as usize; for j in i + 1..i + 1 + l { b2[j] = base[j]; } i += 1 + l; } base = b2; }
        if t == 1 && base.len() > 2 { let j = 1; base[j] = if base[j] == b'#' { b'%' } else { b'#' }; }
        let c = format!("strip {} {} {}", k, h, hex(&base));
        let o = match (&abs, &rel) {
            (Some(n), _) => { let bn = Name::from_octets(base.clone()).unwrap(); catch(A(|| n.clone().strip_suffix(&bn).ok().map(|p| p.as_slice().to_vec()))) }
            (_, Some(n)) => { let bn = RelativeName::from_octets(base.clone()).unwrap(); catch(A(|| { let mut m = n.clone(); m.strip_suffix(&bn).ok().map(|_| m.as_slice().to_vec()) })) }
            _ => unreachable!() };
        let ow = match &o { Ok(None) => "None".to_string(), Ok(Some(v)) => format!("Some:{}", hex(v)), Err(_) => "Panic".into() };
        if let Ok(Some(v)) = &o { out.check(check_rel(v).is_ok(), "strip_suffix_invalid", &c, &hex(v)); }
        out.check(o.is_ok(), "strip_suffix_panic", &c, "");
        out.case(&c, &ow, true, "strip_suffix");
    }
    if let Some(n) = &abs {
        let c = format!("intorel {}", h);
        let o = catch(A(|| n.clone().into_relative().as_slice().to_vec()));
        if let Ok(v) = &o { out.check(check_rel(v).is_ok(), "into_relative_invalid", &c, &hex(v)); }
        out.case(&c, &okhex(o), true, "into_relative");
    }
    if let Some(n) = &rel {
        let c = format!("intoabs {}", h);
        let o = catch(A(|| n.clone().into_absolute().map(|a| a.as_slice().to_vec()).map_err(pe)));
        let ow = match &o { Ok(Ok(v)) => format!("Ok:{}", hex(v)), Ok(Err(e)) => e.to_string(), Err(_) => "Panic".into() };
        if let Ok(Ok(v)) = &o {
            out.check(check_abs(v).is_ok(), "into_absolute_invalid", &c, &hex(v));
            let cr = n.clone().chain_root(); use domain::base::name::ToName;
            out.check(cr.to_vec().as_slice() == &v[..], "chain_root_differs", &c, "");
            out.case(&format!("chroot {}", h), &format!("Ok:{}", hex(cr.to_vec().as_slice())), true, "chain_root");
        }
        out.case(&c, &ow, true, "into_absolute");
    }
}


// ------------------------------------------------------------------ suffix / prefix hidden inside a label
fn labels_of(w: &[u8]) -> Vec<Vec<u8>> {
    let mut v = vec![]; let mut i = 0;
    while i < w.len() && w[i] != 0 { let l = w[i] as usize; v.push(w[i + 1..i + 1 + l].to_vec()); i += 1 + l; }
    v
}
fn ends_with_ref(n: &[Vec<u8>], b: &[Vec<u8>]) -> bool {
    b.len() <= n.len() && n[n.len() - b.len()..].iter().zip(b).all(|(x, y)| x.eq_ignore_ascii_case(y))
}
fn starts_with_ref(n: &[Vec<u8>], b: &[Vec<u8>]) -> bool {
    b.len() <= n.len() && n.iter().zip(b).all(|(x, y)| x.eq_ignore_ascii_case(y))
}
/// Names one of whose labels CONTAINS the wire form of the base (length octet +
/// label ...) at its end or at its start, so that the octets of the name end
/// (start) with the octets of the base without the base being a suffix (prefix).
fn confusion_case(out: &mut Out, r: &mut Rng) {
    use domain::base::name::ToLabelIter;
    use std::panic::AssertUnwindSafe as A;
    let nb = r.range(1, 2) as usize;
    let base_labels: Vec<Vec<u8>> = (0..nb).map(|_| { let l = r.range(1, 6) as usize; (0..l).map(|_| b'a' + r.below(26) as u8).collect() }).collect();
    let base_rel: Vec<u8> = base_labels.iter().flat_map(|l| { let mut v = vec![l.len() as u8]; v.extend(l); v }).collect();
    let junk: Vec<u8> = (0..r.range(1, 8)).map(|_| b'a' + r.below(26) as u8).collect();
    let mut names: Vec<Vec<Vec<u8>>> = vec![];
    // the whole wire form of the base at the END of the last label
    { let mut big = junk.clone(); big.extend(&base_rel); let mut n = vec![]; if r.chance(1, 2) { n.push(b"pre".to_vec()); } n.push(big); names.push(n); }
    // ... with changed case of the letters
    { let mut big = junk.clone(); big.extend(base_rel.iter().map(|&x| if x.is_ascii_lowercase() && r.chance(1, 2) { x ^ 0x20 } else { x })); names.push(vec![big]); }
    // only the last label of the base is a real label, the rest hides in the label before it
    if nb == 2 { let mut big = junk.clone(); big.push(base_labels[0].len() as u8); big.extend(&base_labels[0]); names.push(vec![big, base_labels[1].clone()]); }
    // the base at the START of the first label (octet prefix, not a label prefix)
    { let mut n: Vec<Vec<u8>> = base_labels[..nb - 1].to_vec(); let mut big = base_labels[nb - 1].clone(); big.extend(&junk); n.push(big); n.push(b"post".to_vec()); names.push(n); }
    // genuine suffix / prefix for contrast
    { let mut n = vec![junk.clone()]; n.extend(base_labels.clone()); names.push(n); }
    { let mut n = base_labels.clone(); n.push(junk.clone()); names.push(n); }
    for nl in names {
        if nl.iter().any(|l| l.len() > 63) { continue; }
        let rel: Vec<u8> = nl.iter().flat_map(|l| { let mut v = vec![l.len() as u8]; v.extend(l); v }).collect();
        for absolute in [false, true] {
            let k = if absolute { "A" } else { "R" };
            let (w, bw) = if absolute { let mut a = rel.clone(); a.push(0); let mut b = base_rel.clone(); b.push(0); (a, b) } else { (rel.clone(), base_rel.clone()) };
            let (h, bh) = (hex(&w), hex(&bw));
            let want_e = if absolute { ends_with_ref(&nl, &base_labels) } else { ends_with_ref(&nl, &base_labels) };
            let want_s = if absolute { nl.len() == base_labels.len() && starts_with_ref(&nl, &base_labels) } else { starts_with_ref(&nl, &base_labels) };
            let (e, st, strip) = if absolute {
                let n = Name::from_octets(w.clone()).unwrap(); let b = Name::from_octets(bw.clone()).unwrap();
                (n.ends_with(&b), n.starts_with(&b), catch(A(|| n.clone().strip_suffix(&b).ok().map(|p| p.as_slice().to_vec()))))
            } else {
                let n = RelativeName::from_octets(w.clone()).unwrap(); let b = RelativeName::from_octets(bw.clone()).unwrap();
                (n.ends_with(&b), n.starts_with(&b), catch(A(|| { let mut m = n.clone(); m.strip_suffix(&b).ok().map(|_| m.as_slice().to_vec()) })))
            };
            let c = format!("ends {} {} {}", k, h, bh);
            out.begin(&c);
            out.case(&c, if e { "true" } else { "false" }, true, "ends_with");
            out.check(e == want_e, "ends_with_not_labelwise", &c, &format!("ends_with = {}, label by label = {}", e, want_e));
            let c = format!("starts {} {} {}", k, h, bh);
            out.case(&c, if st { "true" } else { "false" }, true, "starts_with");
            out.check(st == want_s, "starts_with_not_labelwise", &c, &format!("starts_with = {}, label by label = {}", st, want_s));
            let c = format!("strip {} {} {}", k, h, bh);
            let ow = match &strip { Ok(None) => "None".to_string(), Ok(Some(v)) => format!("Some:{}", hex(v)), Err(_) => "Panic".into() };
            out.case(&c, &ow, true, "strip_suffix");
            out.check(strip.is_ok(), "strip_suffix_panic", &c, "");
            if let Ok(res) = &strip {
                out.check(res.is_some() == want_e, "strip_suffix_not_labelwise", &c, &format!("strip_suffix {} but the base is{} a suffix label by label", ow, if want_e { "" } else { " not" }));
                if let Some(v) = res {
                    out.check(check_rel(v).is_ok(), "strip_suffix_invalid", &c, &hex(v));
                    let keep = nl.len().saturating_sub(base_labels.len());
                    let expect: Vec<u8> = nl[..keep].iter().flat_map(|l| { let mut x = vec![l.len() as u8]; x.extend(l); x }).collect();
                    if want_e { out.check(*v == expect, "strip_suffix_octets", &c, &hex(v)); }
                }
            }
            let _ = labels_of(&w);
        }
    }
}


// ------------------------------------------------------------------ serde (human readable: serde_json)
/// deserialize(JSON string of `s`) against from_str(`s`), for the three name kinds
fn serde_text_case(out: &mut Out, s: &str) {
    use domain::base::name::UncertainName;
    let json = serde_json::to_string(s).unwrap();
    let cw = chars_word(s);
    // absolute
    let c = format!("serde A {}", cw);
    out.begin(&c);
    let d = catch(|| serde_json::from_str::<Name<Vec<u8>>>(&json).map(|n| n.as_slice().to_vec()).map_err(|_| ()));
    let f = Name::<Vec<u8>>::from_str(s).map(|n| n.as_slice().to_vec()).map_err(|_| ());
    match &d {
        Err(_) => { out.case(&c, "Panic", true, "serde_de"); out.check(false, "serde_panic", &c, ""); }
        Ok(d) => {
            out.case(&c, &match d { Ok(v) => format!("Ok:{}", hex(v)), Err(_) => "Err".into() }, s.len() > 1, "serde_de");
            out.check(*d == f, "serde_name_differs_from_str", &c, &format!("deserialize {:?} from_str {:?}", d.as_ref().map(|v| hex(v)), f.as_ref().map(|v| hex(v))));
            if let Ok(v) = d { oracle_abs(out, &c, v, false); }
        }
    }
    // relative
    let c = format!("serde R {}", cw);
    let d = catch(|| serde_json::from_str::<RelativeName<Vec<u8>>>(&json).map(|n| n.as_slice().to_vec()).map_err(|_| ()));
    let f = RelativeName::<Vec<u8>>::from_str(s).map(|n| n.as_slice().to_vec()).map_err(|_| ());
    match &d {
        Err(_) => { out.case(&c, "Panic", true, "serde_de"); out.check(false, "serde_panic", &c, ""); }
        Ok(d) => {
            out.case(&c, &match d { Ok(v) => format!("Ok:{}", hex(v)), Err(_) => "Err".into() }, s.len() > 1, "serde_de");
            if *d != f {
                let det = format!("deserialize {:?} from_str {:?}", d.as_ref().map(|v| hex(v)), f.as_ref().map(|v| hex(v)));
                if d.is_ok() && f.is_err() && s.ends_with('.') {
                    // observation, not a violation of the property text (lead's decision): the visitor of
                    // RelativeName reads an absolute spelling "a." as the relative name a; the value is valid
                    out.count("observation:serde_relative_accepts_absolute");
                } else { out.check(false, "serde_relname_differs_from_str", &c, &det); }
            } else { out.check(true, "serde_relname_differs_from_str", &c, ""); }
            if let Ok(v) = d { oracle_rel(out, &c, v, false); }
        }
    }
    // uncertain
    let c = format!("serde U {}", cw);
    let show = |u: UncertainName<Vec<u8>>| match u { UncertainName::Absolute(n) => (true, n.as_slice().to_vec()), UncertainName::Relative(n) => (false, n.as_slice().to_vec()) };
    let d = catch(|| serde_json::from_str::<UncertainName<Vec<u8>>>(&json).map(show).map_err(|_| ()));
    let f = UncertainName::<Vec<u8>>::from_str(s).map(show).map_err(|_| ());
    match &d {
        Err(_) => { out.case(&c, "Panic", true, "serde_de"); out.check(false, "serde_panic", &c, ""); }
        Ok(d) => {
            out.case(&c, &match d { Ok((a, v)) => format!("Ok:{}:{}", if *a { "A" } else { "R" }, hex(v)), Err(_) => "Err".into() }, s.len() > 1, "serde_de");
            out.check(*d == f, "serde_uncertain_differs_from_str", &c, "");
            if let Ok((a, v)) = d { if *a { oracle_abs(out, &c, v, false); } else { oracle_rel(out, &c, v, false); } }
        }
    }
}

/// serialize -> JSON -> deserialize gives the same name; the JSON string is the Display text
fn serde_roundtrip_case(out: &mut Out, w: &[u8]) {
    use domain::base::name::UncertainName;
    // w: wire of a valid absolute name
    let n = Name::from_octets(w.to_vec()).unwrap();
    let c = format!("ser A {}", hex(w));
    out.begin(&c);
    let json = serde_json::to_string(&n).unwrap();
    let text: String = serde_json::from_str(&json).unwrap();
    out.case(&c, &chars_word(&text), w.len() > 1, "serde_ser");
    out.check(text == format!("{}", n), "serde_text_is_not_display", &c, &text);
    let back = serde_json::from_str::<Name<Vec<u8>>>(&json);
    out.check(back.as_ref().map(|m| m.as_slice() == w).unwrap_or(false), "serde_roundtrip", &c, &format!("{} -> {:?}", json, back.map(|m| hex(m.as_slice()))));
    let rw = &w[..w.len() - 1];
    let rn = RelativeName::from_octets(rw.to_vec()).unwrap();
    let c = format!("ser R {}", hex(rw));
    let json = serde_json::to_string(&rn).unwrap();
    let text: String = serde_json::from_str(&json).unwrap();
    out.case(&c, &chars_word(&text), rw.len() > 1, "serde_ser");
    let back = serde_json::from_str::<RelativeName<Vec<u8>>>(&json);
    out.check(back.as_ref().map(|m| m.as_slice() == rw).unwrap_or(false), "serde_roundtrip_relative", &c, &format!("{} -> {:?}", json, back.map(|m| hex(m.as_slice()))));
    // uncertain, both variants: Display -> FromStr and serde
    for (k, u, octs) in [("A", UncertainName::Absolute(n.clone()), w), ("R", UncertainName::Relative(rn.clone()), rw)] {
        let c = format!("ser U{} {}", k, hex(octs));
        let json = serde_json::to_string(&u).unwrap();
        let text: String = serde_json::from_str(&json).unwrap();
        out.case(&c, &chars_word(&text), octs.len() > 1, "serde_ser");
        let same = |x: &UncertainName<Vec<u8>>| x.as_slice() == octs && x.is_absolute() == (k == "A");
        let p = UncertainName::<Vec<u8>>::from_str(&format!("{}", u));
        let b = serde_json::from_str::<UncertainName<Vec<u8>>>(&json);
        let ok = p.as_ref().map(same).unwrap_or(false) && b.as_ref().map(same).unwrap_or(false);
        if !ok && k == "A" && octs.len() == 1 {
            if HOLD_UNC_ROOT { out.count("held:uncertain_root_display"); } else { out.check(false, "uncertain_root_display", &c, &format!("displayed as {:?}, parses to {:?}", text, p.map(|x| hex(x.as_slice())))); }
        } else {
            out.check(ok, "uncertain_display_parse_roundtrip", &c, &format!("displayed as {:?}", text));
        }
    }
}
const HOLD_UNC_ROOT: bool = false;


// ------------------------------------------------------------------ constant names, three-part chains
fn const_cases(out: &mut Out) {
    use domain::base::name::UncertainName;
    let items: Vec<(&str, Vec<Vec<u8>>, bool)> = vec![
        ("root", vec![Name::root_ref().as_slice().to_vec(), Name::root_vec().as_slice().to_vec(), Name::root_bytes().as_slice().to_vec(),
                      Name::<Vec<u8>>::root().as_slice().to_vec(), UncertainName::<Vec<u8>>::root_vec().as_slice().to_vec()], true),
        ("root_slice", vec![Name::root_slice().as_slice().to_vec()], true),
        ("empty", vec![RelativeName::empty_ref().as_slice().to_vec(), RelativeName::empty_vec().as_slice().to_vec(), RelativeName::empty_bytes().as_slice().to_vec(),
                       UncertainName::<Vec<u8>>::empty_vec().as_slice().to_vec()], false),
        ("empty_slice", vec![RelativeName::empty_slice().as_slice().to_vec()], false),
        ("wildcard", vec![RelativeName::wildcard_ref().as_slice().to_vec(), RelativeName::wildcard_vec().as_slice().to_vec(), RelativeName::wildcard_bytes().as_slice().to_vec()], false),
        ("wildcard_slice", vec![RelativeName::wildcard_slice().as_slice().to_vec()], false),
    ];
    for (k, vals, abs) in items {
        let c = format!("const {}", k);
        out.begin(&c);
        out.case(&c, &hex(&vals[0]), true, "constant_name");
        out.check(vals.iter().all(|v| v == &vals[0]), "constant_names_differ", &c, "");
        for v in &vals { if abs { oracle_abs(out, &c, v, false); } else { oracle_rel(out, &c, v, false); } }
    }
    out.check(UncertainName::<Vec<u8>>::root_vec().is_absolute() && UncertainName::<Vec<u8>>::empty_vec().is_relative(), "uncertain_constants", "const", "");
}

fn chain3_case(out: &mut Out, r: &mut Rng) {
    use domain::base::name::{ToLabelIter, ToName};
    // a (relative) . b (relative) . c (absolute), totals steered to 255
    let la = match r.below(3) { 0 => r.range(0, 10) as usize, _ => r.range(100, 250) as usize };
    let la = if la == 1 { 2 } else { la };
    let lb = match r.below(3) { 0 => (255usize.saturating_sub(la) as i64 + r.range(0, 4) as i64 - 2).max(0) as usize, _ => r.range(0, 255usize.saturating_sub(la) as u64) as usize };
    let lb = if lb == 1 { 2 } else { lb.min(254) };
    let room = 255usize.saturating_sub(la + lb);
    let lc = ((room as i64 + r.range(0, 4) as i64 - 2).max(1) as usize).min(255);
    let lc_rel = if lc - 1 == 1 { 2 } else { lc - 1 };
    let a = RelativeName::from_octets(rel_wire(r, la)).unwrap();
    let b = RelativeName::from_octets(rel_wire(r, lb)).unwrap();
    let mut cw = rel_wire(r, lc_rel.min(254)); cw.push(0);
    let cn = Name::from_octets(cw.clone()).unwrap();
    let c = format!("chain3 {} {} {}", a.as_slice().len(), b.as_slice().len(), cw.len());
    out.begin(&c);
    let full = format!("{} a={} b={} c={}", c, hex(a.as_slice()), hex(b.as_slice()), hex(&cw));
    let total = a.as_slice().len() + b.as_slice().len() + cw.len();
    match a.clone().chain(b.clone()).and_then(|ab| ab.chain(cn)) {
        Err(_) => { out.case(&c, "LongChain", true, "chain3"); out.check(total > 255, "chain_refused_fitting", &full, ""); }
        Ok(ch) => {
            out.case(&c, "Ok", true, "chain3");
            let v = ch.to_vec();
            oracle_abs(out, &full, v.as_slice(), false);
            let mut want = a.as_slice().to_vec(); want.extend_from_slice(b.as_slice()); want.extend_from_slice(&cw);
            out.check(v.as_slice() == &want[..] && usize::from(ch.compose_len()) == want.len(), "chain3_octets", &full, &hex(v.as_slice()));
        }
    }
}


// ------------------------------------------------------------------ Name::reverse_from_addr
fn reverse_case(out: &mut Out, r: &mut Rng) {
    use std::net::{IpAddr, Ipv4Addr, Ipv6Addr};
    let (addr, ops): (IpAddr, Vec<Op>) = if r.chance(1, 2) {
        let o: [u8; 4] = [*r.pick(&[0u8, 1, 9, 10, 99, 100, 199, 200, 255]), r.u8(), r.u8(), *r.pick(&[0u8, 7, 42, 127, 255])];
        let mut ops: Vec<Op> = o.iter().rev().map(|&x| Op::Dec(x)).collect();
        ops.push(Op::Label(b"in-addr".to_vec())); ops.push(Op::Label(b"arpa".to_vec()));
        (IpAddr::V4(Ipv4Addr::from(o)), ops)
    } else {
        let o: [u8; 16] = { let mut a = [0u8; 16]; for x in a.iter_mut() { *x = if r.chance(1, 4) { *r.pick(&[0u8, 0x0f, 0xf0, 0xff, 0x9a]) } else { r.u8() }; } a };
        let mut ops = vec![];
        for &item in o.iter().rev() { ops.push(Op::Hex(item)); ops.push(Op::Hex(item >> 4)); }
        ops.push(Op::Label(b"ip6".to_vec())); ops.push(Op::Label(b"arpa".to_vec()));
        (IpAddr::V6(Ipv6Addr::from(o)), ops)
    };
    // the same operations as a builder sequence (T2 + oracle) ...
    let mut case = String::from("seq -"); for o in &ops { case.push(' '); case.push_str(&o.word()); } case.push_str(" I");
    out.begin(&case);
    let obs = run_seq::<Vec<u8>>(out, &case, &ops, &Fin::IntoName, true);
    out.case(&case, &obs, true, "reverse_from_addr");
    // ... and what the constructor itself returns
    let n = catch(move || Name::<Vec<u8>>::reverse_from_addr(addr).map(|n| n.as_slice().to_vec()).map_err(pe));
    match n {
        Ok(Ok(v)) => {
            oracle_abs(out, &case, &v, false);
            out.check(obs.ends_with(&format!("Ok:{}", hex(&v))), "reverse_from_addr_differs", &case, &hex(&v));
            let text = format!("{}", Name::from_octets(v.clone()).unwrap());
            out.check(text.ends_with(if addr.is_ipv4() { "in-addr.arpa" } else { "ip6.arpa" }), "reverse_from_addr_differs", &case, &text);
        }
        other => out.check(false, "reverse_from_addr_failed", &case, &format!("{:?}", other)),
    }
}

// ------------------------------------------------------------------ chain
fn chain_case(out: &mut Out, r: &mut Rng) {
    let ll = match r.below(4) { 0 => r.range(0, 20) as usize, _ => r.range(236, 254) as usize };
    let ll = if ll == 1 { 2 } else { ll };
    let left = RelativeName::from_octets(rel_wire(r, ll)).unwrap();
    let room = 255usize.saturating_sub(ll);
    let rl = (room as i64 + r.range(0, 6) as i64 - 3).max(0) as usize;
    let right_abs = r.chance(1, 2);
    let rl = if right_abs { rl.max(1) } else { rl };
    let rel_part = if right_abs { rl - 1 } else { rl };
    let rel_part = if rel_part == 1 { 2 } else { rel_part.min(254) };
    let mut rw = rel_wire(r, rel_part);
    if right_abs { rw.push(0); }
    let c = format!("chain {} {}", ll, rw.len());
    out.begin(&c);
    let case_full = format!("{} left={} right={}", c, hex(left.as_slice()), hex(&rw));
    if right_abs {
        let right = Name::from_octets(rw.clone()).unwrap();
        match left.clone().chain(right) {
            Err(_) => { out.case(&c, "LongChain", true, "chain"); out.check(ll + rw.len() > 255, "chain_refused_fitting", &case_full, ""); }
            Ok(ch) => {
                out.case(&c, "Ok", true, "chain");
                use domain::base::name::ToName;
                let v = ch.to_vec();
                oracle_abs(out, &case_full, v.as_slice(), false);
            }
        }
    } else {
        let right = RelativeName::from_octets(rw.clone()).unwrap();
        match left.clone().chain(right) {
            Err(_) => { out.case(&c, "LongChain", true, "chain"); out.check(ll + rw.len() > 254, "chain_refused_fitting", &case_full, ""); }
            Ok(ch) => {
                out.case(&c, "Ok", true, "chain");
                use domain::base::name::ToRelativeName;
                let v = ch.to_vec();
                let ok = check_rel(v.as_slice());
                if ok.is_err() && ll + rw.len() == 255 && v.as_slice().len() == 255 {
                    known_hit(out, "chain_relative_255", &case_full, "relative + relative chain of 255 octets accepted");
                } else {
                    oracle_rel(out, &case_full, v.as_slice(), false);
                }
            }
        }
    }
}

const CAPS: [usize; 8] = [4, 7, 12, 64, 200, 254, 255, 256];

fn run_case(out: &mut Out, cap: Option<usize>, ops: &[Op], fin: &Fin, oracle: bool, t2: bool, kind: &str) {
    let mut case = String::from("seq ");
    case.push_str(&cap.map_or("-".to_string(), |c| c.to_string()));
    for o in ops { case.push(' '); case.push_str(&o.word()); }
    case.push(' '); case.push_str(&fin.word());
    out.begin(&case);
    let obs = match cap {
        None => run_seq::<Vec<u8>>(out, &case, ops, fin, oracle),
        Some(4) => run_seq::<Array<4>>(out, &case, ops, fin, oracle),
        Some(7) => run_seq::<Array<7>>(out, &case, ops, fin, oracle),
        Some(12) => run_seq::<Array<12>>(out, &case, ops, fin, oracle),
        Some(64) => run_seq::<Array<64>>(out, &case, ops, fin, oracle),
        Some(200) => run_seq::<Array<200>>(out, &case, ops, fin, oracle),
        Some(254) => run_seq::<Array<254>>(out, &case, ops, fin, oracle),
        Some(255) => run_seq::<Array<255>>(out, &case, ops, fin, oracle),
        Some(256) => run_seq::<Array<256>>(out, &case, ops, fin, oracle),
        Some(c) => panic!("capacity {} not instantiated", c),
    };
    let nontrivial = obs.contains("Long") || obs.contains("ShortBuf") || ops.len() >= 3;
    if t2 { out.case(&case, &obs, nontrivial, kind); } else { out.oracle_case(&case, nontrivial, kind); }
}

// ------------------------------------------------------------------ generators
fn label_bytes(r: &mut Rng, n: usize) -> Vec<u8> {
    (0..n).map(|_| match r.below(8) { 0 => r.u8(), 1 => b'.', 2 => 0, _ => b'a' + (r.below(26) as u8) }).collect()
}
fn boundary_len(r: &mut Rng) -> usize {
    match r.below(10) { 0..=3 => r.range(61, 65) as usize, 4 => 0, 5 => 1, 6 => r.range(2, 12) as usize, 7 => r.range(66, 80) as usize, _ => r.range(1, 63) as usize }
}
/// wire form of a valid relative name of exactly `total` octets (total = 0 or >= 2)
fn rel_wire(r: &mut Rng, total: usize) -> Vec<u8> {
    let mut w = vec![];
    let mut rem = total;
    while rem > 0 {
        let mut l = if rem <= 64 { rem - 1 } else { std::cmp::min(63, r.range(1, 63) as usize) };
        if rem - (l + 1) == 1 { l -= 1; }
        if l == 0 { l = 1; }
        w.push(l as u8); w.extend(label_bytes(r, l));
        rem -= l + 1;
    }
    w
}
fn fill_ops(r: &mut Rng, total: usize) -> Vec<Op> {
    // closed labels adding up to `total` octets (0 or >= 2)
    let w = rel_wire(r, total);
    let mut ops = vec![]; let mut i = 0;
    while i < w.len() { let l = w[i] as usize; ops.push(Op::Label(w[i + 1..i + 1 + l].to_vec())); i += 1 + l; }
    ops
}
fn random_op(r: &mut Rng, near: Option<usize>) -> Op {
    // `near`: octets left until 254, to steer argument lengths to the limit
    let len_arg = |r: &mut Rng| -> usize {
        match (near, r.below(3)) {
            (Some(left), 0) => (left as i64 + r.range(0, 4) as i64 - 2).max(0) as usize,
            _ => boundary_len(r),
        }
    };
    match r.below(20) {
        0..=4 => Op::Push(if r.chance(1, 4) { r.u8() } else { b'a' + r.below(26) as u8 }),
        5..=9 => { let n = len_arg(r); Op::Slice(label_bytes(r, n)) }
        10..=11 => Op::End,
        12..=15 => { let n = len_arg(r); Op::Label(label_bytes(r, n)) }
        16 => Op::Dec(*r.pick(&[0u8, 7, 9, 10, 42, 99, 100, 199, 255])),
        17 => Op::Hex(r.u8()),
        _ => { let mut n = len_arg(r).min(254); if n == 1 { n = 2; } Op::Name(rel_wire(r, n)) }
    }
}
fn random_fin(r: &mut Rng, near: Option<usize>) -> Fin {
    match r.below(4) {
        0 => Fin::Finish,
        1 => Fin::IntoName,
        2 => {
            let mut n = match (near, r.below(2)) { (Some(left), 0) => (left as i64 + r.range(0, 4) as i64 - 2).max(0) as usize, _ => r.range(0, 70) as usize };
            n = n.min(254); if n == 1 { n = 2; }
            let mut w = rel_wire(r, n); w.push(0); Fin::Origin(w)
        }
        _ => Fin::Nothing,
    }
}

fn gen_sequences(out: &mut Out, r: &mut Rng, count: u64, idx: &mut u64) {
    for _ in 0..count {
        *idx += 1;
        let style = r.below(10);
        let (cap, ops, fin) = if style < 5 {
            // steered to the name limit
            let target = r.range(236, 253) as usize;
            let mut ops = fill_ops(r, target);
            let mut approx = target;
            for _ in 0..r.range(1, 7) {
                let left = 254usize.saturating_sub(approx);
                let o = random_op(r, Some(left));
                approx += match &o { Op::Push(_) => 1, Op::Slice(s) | Op::Label(s) if s.len() <= 63 && approx + s.len() <= 254 => s.len() + 1, _ => 0 };
                ops.push(o);
            }
            let fin = random_fin(r, Some(255usize.saturating_sub(approx)));
            (if r.chance(1, 5) { Some(*r.pick(&[254usize, 255, 256])) } else { None }, ops, fin)
        } else if style < 8 {
            // free mix, label limits
            let ops: Vec<Op> = (0..r.range(1, 10)).map(|_| random_op(r, None)).collect();
            (None, ops, random_fin(r, None))
        } else {
            // fixed-capacity builders, steered to the capacity
            let cap = *r.pick(&CAPS);
            let mut ops = vec![];
            if cap >= 64 && r.chance(2, 3) { let t = (cap - r.range(0, 12) as usize).min(250); ops = fill_ops(r, if t == 1 { 2 } else { t }); }
            for _ in 0..r.range(1, 8) {
                let near = if r.below(3) == 0 { Some(r.range(0, 6) as usize) } else { None };
                let o = random_op(r, near);
                ops.push(o);
            }
            let near = Some(r.range(0, 5) as usize);
            (Some(cap), ops, random_fin(r, near))
        };
        if !out.wants(*idx) { continue; }
        run_case(out, cap, &ops, &fin, true, true, if cap.is_some() { "seq_bounded" } else { "seq" });
    }
}

/// Exhaustive enumeration of (current length) x (open label length or none) x
/// operation x argument length, the states built through the public API.
/// Every combination is judged by the oracle; every `t2_every`-th also goes to
/// the model.
fn enumerate(out: &mut Out, r: &mut Rng, lens: std::ops::RangeInclusive<usize>, t2_every: u64, idx: &mut u64) -> u64 {
    let mut n = 0u64;
    for len in lens {
        for open in 0..=63usize {
            // open = 0: no label under construction
            let closed = if open == 0 { len } else { if len < open + 1 || len > 254 { continue; } len - open - 1 };
            if closed == 1 { continue; }
            let mut prefix = if closed == 255 {
                let mut p = fill_ops(r, 250); p.push(Op::Label(b"1234".to_vec())); p
            } else { fill_ops(r, closed) };
            if open > 0 { prefix.push(Op::Slice(label_bytes(r, open))); }
            let mut todo: Vec<(Option<Op>, Fin)> = vec![];
            todo.push((Some(Op::Push(b'x')), Fin::Finish));
            todo.push((Some(Op::End), Fin::IntoName));
            for k in 0..=70usize {
                todo.push((Some(Op::Slice(vec![b's'; k])), Fin::Finish));
                todo.push((Some(Op::Label(vec![b'l'; k])), Fin::IntoName));
                if k != 1 { todo.push((Some(Op::Name(rel_wire(r, k))), Fin::Finish)); }
                if k >= 1 && k != 2 { let mut w = rel_wire(r, k - 1); w.push(0); todo.push((None, Fin::Origin(w))); }
            }
            for v in [5u8, 55, 255] { todo.push((Some(Op::Dec(v)), Fin::Finish)); }
            todo.push((Some(Op::Hex(11)), Fin::Finish));
            todo.push((None, Fin::Finish));
            todo.push((None, Fin::IntoName));
            for (op, fin) in todo {
                *idx += 1; n += 1;
                if !out.wants(*idx) { continue; }
                let mut ops = prefix.clone();
                if let Some(o) = op { ops.push(o); ops.push(Op::Push(b'q')); }
                run_case(out, None, &ops, &fin, true, n % t2_every == 0, "enumerated");
            }
        }
    }
    n
}

fn main() {
    let a = args();
    let mut out = Out::new(&a, "C03", 60);
    let mut r = Rng::new(a.seed);
    let mut idx = 0u64;

    // ---- corpus: regression and boundary sequences first
    let l9 = || Op::Label(b"123456789".to_vec());
    let base25: Vec<Op> = (0..25).map(|_| l9()).collect();
    let with = |extra: Vec<Op>| { let mut v = base25.clone(); v.extend(extra); v };
    let corpus: Vec<(Option<usize>, Vec<Op>, Fin)> = vec![
        // the known class and what into_name makes of it
        (None, with(vec![Op::Label(b"1234".to_vec())]), Fin::Finish),
        (None, with(vec![Op::Label(b"1234".to_vec())]), Fin::IntoName),
        (None, with(vec![Op::Slice(b"1234".to_vec())]), Fin::IntoName),
        (None, with(vec![Op::Label(b"12345".to_vec())]), Fin::Finish),
        (None, with(vec![Op::Label(b"123".to_vec())]), Fin::IntoName),
        // fixed: push at 253 must not start a label
        (None, with(vec![Op::Label(b"12".to_vec()), Op::Push(b'x')]), Fin::IntoName),
        (None, with(vec![Op::Label(b"1".to_vec()), Op::Push(b'x'), Op::Push(b'y')]), Fin::IntoName),
        // fixed: append_name must close the open label
        (None, vec![Op::Push(b'x'), Op::Name(b"\x03foo".to_vec())], Fin::Finish),
        // fixed: in-label append_slice total check
        (None, with(vec![Op::Push(b'a'), Op::Slice(vec![b'b'; 40])]), Fin::Finish),
        // fixed: full open label
        (None, vec![Op::Slice(vec![b'a'; 63]), Op::Slice(b"x".to_vec())], Fin::Finish),
        (None, vec![Op::Slice(vec![b'a'; 60]), Op::Slice(b"xyz".to_vec()), Op::Push(b'!')], Fin::Finish),
        // fixed: ShortBuf leaves the builder unchanged
        (Some(4), vec![Op::Label(b"abc".to_vec()), Op::Push(b'x'), Op::End], Fin::Finish),
        (Some(7), vec![Op::Label(b"abc".to_vec()), Op::Slice(b"wxyz".to_vec()), Op::Push(b'y')], Fin::Finish),
        (Some(7), vec![Op::Label(b"abc".to_vec()), Op::Name(b"\x03xyz".to_vec())], Fin::Finish),
        (Some(4), vec![Op::Label(b"abc".to_vec())], Fin::IntoName),
        (Some(7), vec![Op::Push(b'a'), Op::Label(b"bcdefg".to_vec()), Op::Push(b'h')], Fin::Finish),
        // errors that are not atomic (valid, but the label was ended / digits stay)
        (None, with(vec![Op::Label(b"1".to_vec()), Op::Dec(123)]), Fin::Finish),
        (None, with(vec![Op::Push(b'a'), Op::Push(b'b'), Op::Hex(5), Op::Push(b'c')]), Fin::Finish),
        // failed append_label / append_name restore the head: placeholder octet differs
        (None, with(vec![Op::Push(b'a'), Op::Label(b"12345".to_vec()), Op::Push(b'b')]), Fin::Finish),
        (None, with(vec![Op::Push(b'a'), Op::Name(b"\x0212\x0212".to_vec()), Op::Push(b'b')]), Fin::Finish),
        (None, vec![Op::Label(vec![0u8; 63]), Op::Label(vec![0u8; 64]), Op::Slice(vec![0u8; 60])], Fin::Origin(b"\x03com\x00".to_vec())),
        (None, vec![], Fin::IntoName),
        (None, vec![], Fin::Finish),
        (None, with(vec![Op::Label(b"123".to_vec())]), Fin::Origin(vec![0])),
        (None, with(vec![Op::Label(b"12".to_vec())]), Fin::Origin(b"\x01a\x00".to_vec())),
        (None, with(vec![Op::Label(b"12".to_vec())]), Fin::Origin(b"\x02ab\x00".to_vec())),
    ];
    for (cap, ops, fin) in &corpus {
        idx += 1;
        if !out.wants(idx) { continue; }
        run_case(&mut out, *cap, ops, fin, true, true, "corpus");
    }

    // ---- generated sequences
    let n_seq = if a.thorough { 150_000 } else { 20_000 } * a.scale;
    gen_sequences(&mut out, &mut r, n_seq, &mut idx);

    // ---- enumeration of the limit region
    let enumerated = if a.thorough {
        enumerate(&mut out, &mut r, 0..=255, 37, &mut idx)
    } else {
        enumerate(&mut out, &mut r, 240..=255, 29, &mut idx)
    };

    // ---- wire validators, slicing, chain
    let fixed: Vec<Vec<u8>> = vec![vec![], vec![0], vec![0, 0], vec![1], vec![1, 97], vec![1, 97, 0], vec![64, 1], vec![0xc0, 5], vec![0xc0],
        vec![0x80, 1, 0], vec![5, 1, 2], { let mut v = rel_wire(&mut r, 254); v.push(0); v }, { let mut v = rel_wire(&mut r, 254); v.push(1); v.push(97); v.push(0); v },
        rel_wire(&mut r, 254), rel_wire(&mut r, 255), { let mut v = vec![]; for _ in 0..3 { v.push(63u8); v.extend([b'a'; 63]); } v.push(62); v.extend([b'b'; 62]); v }, { let mut v = rel_wire(&mut r, 252); v.extend([1, 97, 1]); v }];
    for w in &fixed { idx += 1; if out.wants(idx) { wire_case(&mut out, w); } }
    let n_wire = if a.thorough { 60_000 } else { 6_000 } * a.scale;
    for _ in 0..n_wire { let w = gen_octets(&mut r); idx += 1; if out.wants(idx) { wire_case(&mut out, &w); } }
    for _ in 0..n_wire / 2 { idx += 1; if out.wants(idx) { chain_case(&mut out, &mut r); } else { let _ = r.fork(); } }
    // ---- presentation format
    let fixed_txt = [".", "", "..", "a", "a.", "a..", ".a", "\\", "\\.", "\\[", "a\\[", "\\[a", "a.\\[b", "\\0", "\\00", "\\000", "\\256", "\\255", "\\25a", "\\2", "a\\", ".\\",
        "é", "\\é", "a b", "a\\ b", "\\\u{1}", "www.example.com", "www.example.com.", "*", "\\046", "a\\.b.c", "\\\\", "\"", ";(x)"];
    for t in fixed_txt { idx += 1; if out.wants(idx) { text_case(&mut out, t); } }
    // the strings that gave 256-octet names before the push fix
    let long1 = format!("{}ab.x", "123456789.".repeat(25));
    let long2 = format!("{}abc", "123456789.".repeat(25));
    let long3 = format!("{}abcd", "123456789.".repeat(25));
    let long4 = format!("{}a.b", "123456789.".repeat(25));
    let l63 = format!("{}.{}", "a".repeat(63), "b".repeat(64));
    for t in [&long1, &long2, &long3, &long4, &l63] { idx += 1; if out.wants(idx) { text_case(&mut out, t); } }
    let n_txt = if a.thorough { 80_000 } else { 8_000 } * a.scale;
    for _ in 0..n_txt { let t = gen_text(&mut r); idx += 1; if out.wants(idx) { text_case(&mut out, &t); if idx % 2 == 0 { serde_text_case(&mut out, &t); } } }
    for t in fixed_txt { idx += 1; if out.wants(idx) { serde_text_case(&mut out, t); } }
    for _ in 0..n_txt / 4 {
        let total = match r.below(3) { 0 => r.range(0, 10) as usize, 1 => r.range(245, 254) as usize, _ => r.range(2, 100) as usize };
        let mut w = rel_wire(&mut r, if total == 1 { 2 } else { total }); w.push(0);
        idx += 1; if out.wants(idx) { display_case(&mut out, &w); serde_roundtrip_case(&mut out, &w); }
    }

    // ---- slicing at label boundaries (T2 + oracle)
    let n_slice = if a.thorough { 3_000 } else { 300 } * a.scale;
    for i in 0..n_slice {
        let total = match r.below(4) { 0 => r.range(0, 8) as usize, 1 => r.range(240, 254) as usize, _ => r.range(2, 40) as usize };
        let total = if total == 1 { 2 } else { total };
        let mut w = rel_wire(&mut r, total);
        let absolute = i % 2 == 0;
        if absolute { w.push(0); }
        idx += 1; if out.wants(idx) { slicing_t2(&mut out, &mut r, &w, absolute); }
    }

    idx += 1; if out.wants(idx) { const_cases(&mut out); }
    for _ in 0..n_wire / 4 { idx += 1; if out.wants(idx) { chain3_case(&mut out, &mut r); } else { let _ = r.fork(); } }
    for _ in 0..(if a.thorough { 2000 } else { 200 }) * a.scale { idx += 1; if out.wants(idx) { reverse_case(&mut out, &mut r); } else { let _ = r.fork(); } }
    let n_conf = if a.thorough { 4_000 } else { 400 } * a.scale;
    for _ in 0..n_conf { idx += 1; if out.wants(idx) { confusion_case(&mut out, &mut r); } else { let _ = r.fork(); } }

    // ---- names parsed from messages and scanned from zone-file text (oracle only)
    let n_msg = if a.thorough { 60_000 } else { 5_000 } * a.scale;
    for _ in 0..n_msg { idx += 1; if out.wants(idx) { parsed_case(&mut out, &mut r); } else { let _ = r.fork(); } }
    for _ in 0..n_msg { idx += 1; if out.wants(idx) { zonefile_case(&mut out, &mut r); } else { let _ = r.fork(); } }

    for k in 60..=66usize {
        let c = format!("label {}", hex(&vec![7u8; k]));
        let ok = domain::base::name::Label::from_slice(&vec![7u8; k]).is_ok();
        out.case(&c, if ok { "Ok" } else { "LongLabel" }, true, "label_from_slice");
        out.check(ok == (k <= 63), "label_from_slice_limit", &c, "");
    }

    out.finish(&[("enumerated_state_op_pairs", format!("{}", enumerated))]);
}
