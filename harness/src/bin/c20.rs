//! C20 -- client cache: histories of queries against the real
//! `net::client::cache::Connection` over a scripted, logging mock upstream under
//! tokio's paused clock.  T2: served / forwarded decision and served content
//! (flags, records, TTLs) against the extracted Coq model.  Oracle (independent
//! of the model): every served response is explained by an earlier upstream
//! response for the same question with compatible flags, aged, not stale, with
//! no DNSSEC records / AD bit for queries that did not ask; no panic.
use bytes::Bytes;
use domain::base::iana::{Class, Opcode, OptRcode, OptionCode, Rcode, Rtype};
use domain::base::rdata::UnknownRecordData;
use domain::base::message::CopyRecordsError;
use domain::base::message_builder::{AdditionalBuilder, PushError, StreamTarget};
use domain::base::opt::{ComposeOptData, LongOptData};
use domain::base::wire::Composer;
use domain::base::Header;
use domain::base::{Message, MessageBuilder, Name, ParsedName, ToName, Ttl};
use domain::net::client::cache;
use domain::net::client::request::{ComposeRequest, Error, GetResponse, RequestMessage, SendRequest};
use domain::rdata::AllRecordData;
use domain::dep::octseq::OctetsBuilder;
use dv_harness::*;
use std::collections::HashMap;
use std::fmt::Write as _;
use std::future::Future;
use std::pin::Pin;
use std::str::FromStr;
use std::sync::{Arc, Mutex};
use std::time::Duration;

// ---------- rendered observations ------------------------------------------------

#[derive(Clone, Debug, PartialEq, Eq, PartialOrd, Ord)]
struct Rec { rtype: u16, class: u16, ttl: u32, id: u32, bad: bool }

/// `broken`: walking the sections failed (what was readable up to there is kept);
/// a record is `bad` when its header parses but its RDATA does not parse as its type.
#[derive(Clone, Debug)]
struct RMsg { id: u16, rcode: u16, aa: bool, tc: bool, rd: bool, ad: bool, q: Option<(u16, u16)>, qcase: u32, secs: [Vec<Rec>; 3], broken: bool }
impl RMsg {
    /// the extended rcode, computed here from the parts: header rcode and the top octet of the TTL field of the first OPT record
    fn full_rcode(&self) -> u16 { match self.secs[2].iter().find(|r| r.rtype == 41) { Some(o) if !o.bad => ((o.ttl >> 24) as u16) << 4 | self.rcode, _ => self.rcode } }
    fn has_bad(&self) -> bool { self.secs.iter().any(|s| s.iter().any(|r| r.bad)) } }

#[derive(Clone, Debug)]
enum RResp { Err(u8), Msg(RMsg) }

fn err_code(e: &Error) -> u8 {
    match e {
        Error::ConnectionClosed => 1,
        Error::StreamReceiveError => 2,
        Error::StreamReadTimeout => 3,
        Error::NoTransportAvailable => 4,
        Error::MessageParseError => 20,
        Error::MessageBuilderPushError => 21,
        Error::FormError => 22,
        Error::ShortMessage => 23,
        _ => 99,
    }
}
fn err_of(code: u8) -> Error {
    match code { 1 => Error::ConnectionClosed, 2 => Error::StreamReceiveError, 3 => Error::StreamReadTimeout, _ => Error::NoTransportAvailable }
}

fn fnv32(s: &str) -> u32 {
    let mut h = 0x811c9dc5u32;
    for b in s.bytes() { h ^= b as u32; h = h.wrapping_mul(0x01000193); }
    h & 0x3fff_ffff
}

fn hexs(b: &[u8]) -> String { b.iter().map(|x| format!("{:02x}", x)).collect() }

/// which spelling (case variant) of a known name this is: index in NAMES + 1, 99 = none of them
fn spelling(name: &str) -> u32 {
    let n = name.trim_end_matches('.');
    NAMES.iter().position(|(s, _)| s.trim_end_matches('.') == n).map_or(99, |i| i as u32 + 1)
}

fn render_msg(m: &Message<Bytes>) -> RMsg {
    let h = m.header();
    let mut out = RMsg { id: h.id(), rcode: h.rcode().to_int() as u16, aa: h.aa(), tc: h.tc(), rd: h.rd(), ad: h.ad(), q: None, qcase: 0, secs: [vec![], vec![], vec![]], broken: false };
    out.q = match m.question().next() {
        Some(Ok(q)) => { out.qcase = spelling(&format!("{}", q.qname())); Some((q.qtype().to_int(), q.qclass().to_int())) }
        Some(Err(_)) => { out.broken = true; return out; } None => None };
    let mut sec = match m.answer() { Ok(s) => s, Err(_) => { out.broken = true; return out; } };
    for i in 0..3 {
        for rr in &mut sec {
            let rr = match rr { Ok(rr) => rr, Err(_) => { out.broken = true; return out; } };
            let (rtype, class, ttl) = (rr.rtype().to_int(), rr.class().to_int(), rr.ttl().as_secs());
            let owner = format!("{}", rr.owner()).to_ascii_lowercase();
            let raw = match rr.to_record::<UnknownRecordData<_>>() { Ok(Some(r)) => hexs(r.data().data().as_ref()), _ => "?".into() };
            let (text, bad) = if rr.rtype() == Rtype::OPT {
                // the OPT pseudo record: its options as octets (class and the ttl field carry the rest)
                (format!("opt {}", raw), false)
            } else {
                match rr.to_record::<AllRecordData<_, ParsedName<_>>>() { Ok(Some(r)) => (format!("{}", r.data()), false), _ => (format!("raw {}", raw), true) }
            };
            out.secs[i].push(Rec { rtype, class, ttl, id: fnv32(&format!("{} {} {}", owner, rtype, text.to_ascii_lowercase())), bad });
        }
        if i < 2 { sec = match sec.next_section() { Ok(Some(s)) => s, _ => { out.broken = true; return out; } }; }
    }
    out
}

fn render(r: &Result<Message<Bytes>, Error>) -> RResp {
    match r { Err(e) => RResp::Err(err_code(e)), Ok(m) => RResp::Msg(render_msg(m)) }
}

fn flags_word(m: &RMsg) -> u32 { m.aa as u32 | (m.tc as u32) << 1 | (m.rd as u32) << 2 | (m.ad as u32) << 3 }
fn rec_word(r: &Rec) -> String { format!("{}:{}:{}:{}", r.rtype, r.class, r.ttl, r.id) }
fn rec_case(r: &Rec) -> String { format!("{}:{}:{}:{}:{}", r.rtype, r.class, r.ttl, r.id, r.bad as u8) }

/// response in case-line syntax (input of the model)
fn resp_case(r: &RResp) -> String {
    match r {
        RResp::Err(c) => format!("e {}", c),
        RResp::Msg(m) => {
            let mut s = format!("m {} {} {} {} {} {} {} {}", m.id, m.rcode, flags_word(m) | (m.broken as u32) << 4,
                m.q.map_or("-".to_string(), |(t, c)| format!("{}:{}", t, c)), m.qcase, m.secs[0].len(), m.secs[1].len(), m.secs[2].len());
            for sec in &m.secs { for r in sec { s.push(' '); s.push_str(&rec_case(r)); } }
            s
        }
    }
}
/// served response in observation syntax (output of the model)
fn resp_obs(r: &RResp) -> String {
    match r {
        RResp::Err(c) => format!("e{}", c),
        RResp::Msg(m) => {
            let sec = |l: &Vec<Rec>| format!("[{}]", l.iter().map(rec_word).collect::<Vec<_>>().join(" "));
            format!("m {} {} {} {} {} {} {}", m.id, m.rcode, flags_word(m), m.qcase, sec(&m.secs[0]), sec(&m.secs[1]), sec(&m.secs[2]))
        }
    }
}

// ---------- script ------------------------------------------------------------------

const NAMES: [(&str, u32); 4] = [("a.example.", 1), ("b.example.", 2), ("A.Example.", 1), ("example.", 3)];
const DNSSEC_TYPES: [u16; 3] = [46, 47, 50];
const STRIP_OPTIONAL: [u16; 3] = [43, 48, 51];

#[derive(Clone, Debug)]
struct RecSpec { sec: usize, rtype: u16, class: u16, ttl: u32, owner_apex: bool, ser: u32, bad: bool }

/// `broken`: ARCOUNT promises one record more than the message holds.  `ext`: extended rcode
/// carried by an OPT record (added even if the request had none).  `opt_data`: the OPT carries an option.
#[derive(Clone, Debug)]
enum RespSpec { Err(u8), Msg { rcode: u8, aa: bool, tc: bool, ad: bool, noq: bool, recs: Vec<RecSpec>, broken: bool, ext: Option<u16>, opt_data: bool,
    /// the OPT record is the first record of the additional section instead of the last (RFC 6891 6.1.1: anywhere)
    opt_first: bool } }

#[derive(Clone, Debug)]
/// How the request gets (or does not get) EDNS: `base_opt` = the base message handed to
/// RequestMessage::new already carries an OPT record (1: DO clear, 2: DO set); `own` = which setter is
/// called on the RequestMessage (0: set_dnssec_ok(true) iff do_, 1: set_dnssec_ok(do_) always,
/// 2: set_udp_payload_size only, do_ is false; 3: not a RequestMessage at all but a relayed query (own ComposeRequest)
/// whose OPT record with DO = do_ is followed by another additional record).  What counts is the RequestMessage's own OPT: an OPT
/// record of the base message is dropped by both serialisations.
struct QSpec { name: usize, class: u16, rtype: u16, rd: bool, cd: bool, ad: bool, do_: bool, opcode: u8, base_opt: u8, own: u8 }
impl QSpec {
    fn own_present(&self) -> bool { self.do_ || self.own > 0 }
    /// DO bit of the RequestMessage's own OPT record
    fn own_do(&self) -> bool { self.do_ && self.own != 2 }
}

#[derive(Clone, Debug)]
/// `hold_ms`: the clock advance between send_request() and get_response().await of this request
struct Ev { gap_ms: u64, q: QSpec, resp: RespSpec, delay_ms: u64, hold_ms: u64 }

#[derive(Clone, Debug)]
/// `wire_append`: the mock upstream reads the request as a stream transport would (append_message), else as dgram does (to_message)
struct Cfg { raw: [u64; 6], trunc: bool, entries: Option<u64>, honest: bool, dflt: bool, wire_append: bool }

fn wire_name(labels: &[&str]) -> Vec<u8> {
    let mut v = vec![];
    for l in labels { v.push(l.len() as u8); v.extend_from_slice(l.as_bytes()); }
    v.push(0);
    v
}

fn rdata(rtype: u16, ser: u32) -> Vec<u8> {
    let sb = ser.to_be_bytes();
    let n = format!("n{}", ser);
    match rtype {
        1 => vec![10, sb[1], sb[2], sb[3]],
        28 => { let mut v = vec![0x20, 0x01, 0x0d, 0xb8, 0, 0, 0, 0, 0, 0, 0, 0]; v.extend_from_slice(&sb); v }
        16 => { let s = format!("t{}", ser); let mut v = vec![s.len() as u8]; v.extend_from_slice(s.as_bytes()); v }
        2 | 5 => wire_name(&[&n, "example"]),
        6 => {
            let mut v = wire_name(&["ns", "example"]); v.extend(wire_name(&["h", "example"]));
            v.extend_from_slice(&sb);
            for x in [7200u32, 3600, 1209600, 300] { v.extend_from_slice(&x.to_be_bytes()); }
            v
        }
        43 => { let mut v = vec![sb[2], sb[3], 8, 2]; for _ in 0..8 { v.extend_from_slice(&sb); } v }
        46 => {
            let mut v = vec![0, 1, 8, 2];
            for x in [3600u32, 0x7000_0000, 0x6000_0000] { v.extend_from_slice(&x.to_be_bytes()); }
            v.extend_from_slice(&[sb[2], sb[3]]);
            v.extend(wire_name(&["example"]));
            v.extend_from_slice(&sb); v.extend_from_slice(&sb);
            v
        }
        47 => { let mut v = wire_name(&[&n, "example"]); v.extend_from_slice(&[0, 1, 0x40]); v }
        50 => { let mut v = vec![1, 0, 0, 0, 0, 20]; for _ in 0..5 { v.extend_from_slice(&sb); } v.extend_from_slice(&[0, 1, 0x40]); v }
        _ => sb.to_vec(),
    }
}

// ---------- mock upstream --------------------------------------------------------------

#[derive(Clone, Debug)]
struct QObs { name: u32, class: u16, rtype: u16, opcode: u8, rd: bool, cd: bool, ad: bool, do_: bool }
impl QObs {
    fn adeff(&self) -> bool { self.ad || self.do_ }
    fn cacheable(&self) -> bool { self.opcode == 0 && self.class == 1 }
}

#[derive(Clone)]
struct LogEntry { q: QObs, req_id: u16, t_ms: u64, resp: RResp, raw: Option<Bytes>, delay_ms: u64 }

/// `next`: what to answer (and after how long) to the request with the given header ID
struct MockState { wire_append: bool, next: HashMap<u16, (RespSpec, u64)>, log: Vec<LogEntry>, honest: bool, t0: tokio::time::Instant,
    /// (true, id, ms) = request `id` started its lookup, (false, id, _) = upstream's answer to it arrived
    order: Vec<(bool, u16, u64)> }

#[derive(Clone)]
struct Mock(Arc<Mutex<MockState>>);

struct MockReq { mock: Mock, req: AnyReq }
impl std::fmt::Debug for MockReq { fn fmt(&self, f: &mut std::fmt::Formatter<'_>) -> std::fmt::Result { f.write_str("MockReq") } }

impl SendRequest<RequestMessage<Vec<u8>>> for Mock {
    fn send_request(&self, req: RequestMessage<Vec<u8>>) -> Box<dyn GetResponse + Send + Sync> {
        Box::new(MockReq { mock: self.clone(), req: AnyReq::Rm(req) })
    }
}
impl SendRequest<Verbatim> for Mock {
    fn send_request(&self, req: Verbatim) -> Box<dyn GetResponse + Send + Sync> {
        Box::new(MockReq { mock: self.clone(), req: AnyReq::Vb(req) })
    }
}

/// A ComposeRequest of our own (the trait is public): a relayed query that goes out octet for octet as it
/// came in, whatever the order of its additional records (RFC 6891 6.1.1: OPT may be anywhere).
#[derive(Clone, Debug)]
struct Verbatim { msg: Message<Vec<u8>>, header: Header }
impl ComposeRequest for Verbatim {
    fn append_message<Target: Composer>(&self, target: Target) -> Result<AdditionalBuilder<Target>, CopyRecordsError> {
        let mut target = MessageBuilder::from_target(target).map_err(|_| CopyRecordsError::Push(PushError::ShortBuf))?;
        *target.header_mut() = self.header;
        let source = self.msg.question();
        let mut target = target.question();
        for q in source { target.push(q?)?; }
        let mut source = source.answer()?;
        let mut target = target.answer();
        for rr in &mut source { target.push(rr?.into_record::<UnknownRecordData<_>>()?.expect("record"))?; }
        let mut source = source.next_section()?.expect("section");
        let mut target = target.authority();
        for rr in &mut source { target.push(rr?.into_record::<UnknownRecordData<_>>()?.expect("record"))?; }
        let source = source.next_section()?.expect("section");
        let mut target = target.additional();
        for rr in source { target.push(rr?.into_record::<UnknownRecordData<_>>()?.expect("record"))?; }
        Ok(target)
    }
    fn to_message(&self) -> Result<Message<Vec<u8>>, Error> { let mut m = self.msg.clone(); *m.header_mut() = self.header; Ok(m) }
    fn to_vec(&self) -> Result<Vec<u8>, Error> { Ok(self.to_message()?.into_octets()) }
    fn header(&self) -> &Header { &self.header }
    fn header_mut(&mut self) -> &mut Header { &mut self.header }
    fn set_udp_payload_size(&mut self, _value: u16) {}
    fn set_dnssec_ok(&mut self, _value: bool) {}
    fn add_opt(&mut self, _opt: &impl ComposeOptData) -> Result<(), LongOptData> { Ok(()) }
    fn is_answer(&self, _answer: &Message<[u8]>) -> bool { true }
    fn dnssec_ok(&self) -> bool { edns_of(&self.msg).is_some_and(|o| o.0) }
}

#[derive(Clone, Debug)]
enum AnyReq { Rm(RequestMessage<Vec<u8>>), Vb(Verbatim) }
impl AnyReq {
    fn send(self, conn: &cache::Connection<Mock>) -> Box<dyn GetResponse + Send + Sync> {
        match self { AnyReq::Rm(r) => conn.send_request(r), AnyReq::Vb(v) => conn.send_request(v) }
    }
}

/// the request as a transport would put it on the wire: stream-style (append_message into a
/// StreamTarget) or dgram-style (to_message)
fn wire_message(req: &AnyReq, append: bool) -> Message<Vec<u8>> {
    if append {
        let mut target = StreamTarget::new_vec();
        match req { AnyReq::Rm(r) => { r.append_message(&mut target).unwrap(); } AnyReq::Vb(v) => { v.append_message(&mut target).unwrap(); } }
        Message::from_octets(target.as_dgram_slice().to_vec()).unwrap()
    } else { match req { AnyReq::Rm(r) => r.to_message().unwrap(), AnyReq::Vb(v) => v.to_message().unwrap() } }
}

/// both serialisations of one request must describe the same request (the cache keys on to_message,
/// stream transports send append_message)
fn serialisations_agree(req: &AnyReq) -> Result<(), String> {
    let (a, b) = (wire_message(req, true), wire_message(req, false));
    let d = |m: &Message<Vec<u8>>| { let q = observe_query(m); format!("{:?} opt={:?} q={:?}", q, edns_of(m),
        m.question().next().and_then(|q| q.ok()).map(|q| format!("{}", q.qname()))) };
    if d(&a) == d(&b) { Ok(()) } else { Err(format!("append_message: {} / to_message: {}", d(&a), d(&b))) }
}

/// EDNS of a message read off the wire form, independently of Message::opt(): the first record of type
/// OPT anywhere in the additional section; (DO bit, UDP payload size)
fn edns_of(m: &Message<Vec<u8>>) -> Option<(bool, u16)> {
    let add = m.additional().ok()?;
    for rr in add {
        let rr = rr.ok()?;
        if rr.rtype() == Rtype::OPT { return Some((rr.ttl().as_secs() & 0x8000 != 0, rr.class().to_int())); }
    }
    None
}

fn observe_query(m: &Message<Vec<u8>>) -> QObs {
    let q = m.question().next().and_then(|q| q.ok());
    let (name, class, rtype) = match q {
        Some(q) => {
            let n = format!("{}", q.qname()).to_ascii_lowercase();
            let idx = NAMES.iter().find(|(s, _)| s.to_ascii_lowercase().trim_end_matches('.') == n.trim_end_matches('.')).map_or(0, |x| x.1);
            (idx, q.qclass().to_int(), q.qtype().to_int())
        }
        None => (0, 0, 0),
    };
    let h = m.header();
    QObs { name, class, rtype, opcode: h.opcode().to_int(), rd: h.rd(), cd: h.cd(), ad: h.ad(), do_: edns_of(m).is_some_and(|o| o.0) }
}

fn build_response(req: &Message<Vec<u8>>, q: &QObs, spec: &RespSpec, honest: bool) -> Result<Message<Bytes>, Error> {
    let (rcode, aa, tc, ad, noq, recs, broken, ext, opt_data, opt_first) = match spec {
        RespSpec::Err(c) => return Err(err_of(*c)),
        RespSpec::Msg { rcode, aa, tc, ad, noq, recs, broken, ext, opt_data, opt_first } => (*rcode, *aa, *tc, *ad, *noq, recs, *broken, *ext, *opt_data, *opt_first),
    };
    let qname: Name<Vec<u8>> = req.question().next().and_then(|q| q.ok()).map(|q| q.qname().to_name())
        .unwrap_or_else(|| Name::from_str("a.example.").unwrap());
    let apex: Name<Vec<u8>> = Name::from_str("example.").unwrap();
    let mb = MessageBuilder::new_vec();
    let mut ans = if noq {
        let mut mb = mb;
        let h = mb.header_mut();
        h.set_id(req.header().id()); h.set_qr(true); h.set_rd(req.header().rd());
        h.set_rcode(Rcode::masked_from_int(rcode));
        mb.answer()
    } else {
        mb.start_answer(req, Rcode::masked_from_int(rcode)).unwrap()
    };
    {
        let h = ans.header_mut();
        h.set_aa(aa); h.set_tc(tc); h.set_ra(true); h.set_cd(q.cd);
        h.set_ad(if honest { ad && q.adeff() } else { ad });
    }
    let want = |r: &RecSpec| !(honest && !q.do_ && DNSSEC_TYPES.contains(&r.rtype));
    let rec = |r: &RecSpec| (if r.owner_apex { apex.clone() } else { qname.clone() }, Class::from_int(r.class), Ttl::from_secs(r.ttl),
        UnknownRecordData::from_octets(Rtype::from_int(r.rtype), { let mut d = rdata(r.rtype, r.ser); if r.bad { d.truncate(d.len() - 1); } d }).unwrap());
    for r in recs.iter().filter(|r| r.sec == 0 && want(r)) { ans.push(rec(r)).unwrap(); }
    let mut auth = ans.authority();
    for r in recs.iter().filter(|r| r.sec == 1 && want(r)) { auth.push(rec(r)).unwrap(); }
    let mut add = auth.additional();
    let with_opt = edns_of(req).is_some() || ext.is_some();
    let d = q.do_;
    let push_opt = |add: &mut domain::base::message_builder::AdditionalBuilder<Vec<u8>>| {
        add.opt(|o| {
            o.set_udp_payload_size(1232); o.set_dnssec_ok(d);
            if let Some(x) = ext { o.set_rcode(OptRcode::masked_from_int(x)); }
            if opt_data { o.push_raw_option(OptionCode::from_int(65001), 3, |t| t.append_slice(&[1, 2, q.rtype as u8]))?; }
            Ok(())
        }).unwrap();
    };
    if with_opt && opt_first { push_opt(&mut add); }
    for r in recs.iter().filter(|r| r.sec == 2 && want(r)) { add.push(rec(r)).unwrap(); }
    if with_opt && opt_first {
        // something always follows the OPT record: a private-use record with a long TTL
        add.push((apex.clone(), Class::IN, Ttl::from_secs(4_000_000), UnknownRecordData::from_octets(Rtype::from_int(65280), vec![1u8, 2, 3, 4]).unwrap())).unwrap();
    }
    if with_opt && !opt_first { push_opt(&mut add); }
    let mut octets = add.into_message().into_octets();
    if broken { let n = u16::from_be_bytes([octets[10], octets[11]]) + 1; octets[10..12].copy_from_slice(&n.to_be_bytes()); }
    Ok(Message::from_octets(Bytes::from(octets)).unwrap())
}

impl GetResponse for MockReq {
    fn get_response(&mut self) -> Pin<Box<dyn Future<Output = Result<Message<Bytes>, Error>> + Send + Sync + '_>> {
        Box::pin(async move {
            let append = self.mock.0.lock().unwrap().wire_append;
            let msg = wire_message(&self.req, append);
            let q = observe_query(&msg);
            let (spec, delay, honest) = {
                let mut st = self.mock.0.lock().unwrap();
                let (s, d) = st.next.remove(&msg.header().id()).unwrap_or((RespSpec::Err(4), 0));
                (s, d, st.honest)
            };
            if delay > 0 { tokio::time::sleep(Duration::from_millis(delay)).await; }
            let resp = build_response(&msg, &q, &spec, honest);
            let mut st = self.mock.0.lock().unwrap();
            let t_ms = (tokio::time::Instant::now() - st.t0).as_millis() as u64;
            st.order.push((false, msg.header().id(), t_ms));
            st.log.push(LogEntry { q, req_id: msg.header().id(), t_ms, resp: render(&resp), raw: resp.as_ref().ok().map(|m| m.as_octets().clone()), delay_ms: delay });
            resp
        })
    }
}

// ---------- running a history ---------------------------------------------------------------

struct Served { q: QObs, now_ms: u64, resp: RResp, log_len: usize }

#[derive(Default)]
struct Trace { disagree: Vec<String>, words: Vec<String>, obs: Vec<String>, served: Vec<Served>, cur: Option<(String, usize)>, altered: Vec<String>, nonneg: usize, nserved: usize }

fn build_query(q: &QSpec, id: u16) -> AnyReq {
    let mut mb = MessageBuilder::new_vec();
    {
        let h = mb.header_mut();
        h.set_id(id); h.set_opcode(Opcode::from_int(q.opcode)); h.set_rd(q.rd); h.set_cd(q.cd); h.set_ad(q.ad);
    }
    let mut qb = mb.question();
    qb.push((Name::<Vec<u8>>::from_str(NAMES[q.name].0).unwrap(), Rtype::from_int(q.rtype), Class::from_int(q.class))).unwrap();
    if q.own == 3 {
        // a relayed query: OPT record (DO = do_) first, then a private-use record
        let mut add = qb.additional();
        let d = q.do_;
        add.opt(|o| { o.set_udp_payload_size(1232); o.set_dnssec_ok(d); Ok(()) }).unwrap();
        add.push((Name::<Vec<u8>>::from_str("example.").unwrap(), Class::IN, Ttl::from_secs(0), UnknownRecordData::from_octets(Rtype::from_int(65280), vec![9u8, 9]).unwrap())).unwrap();
        let msg = add.into_message();
        let header = msg.header();
        return AnyReq::Vb(Verbatim { msg, header });
    }
    let base = if q.base_opt > 0 {
        let mut add = qb.additional();
        let d = q.base_opt == 2;
        add.opt(|o| { o.set_udp_payload_size(4096); o.set_dnssec_ok(d); Ok(()) }).unwrap();
        add.into_message()
    } else { qb.into_message() };
    let mut req = RequestMessage::new(base).unwrap();
    match q.own {
        0 => if q.do_ { req.set_dnssec_ok(true); },
        1 => req.set_dnssec_ok(q.do_),
        _ => req.set_udp_payload_size(1400),
    }
    AnyReq::Rm(req)
}

fn qflags(q: &QSpec) -> u32 { q.rd as u32 | (q.cd as u32) << 1 | (q.ad as u32) << 2 | (q.own_do() as u32) << 3 | (q.base_opt as u32) << 4 | (q.own_present() as u32) << 6 }

fn make_conn(cfg: &Cfg, mock: &Mock) -> cache::Connection<Mock> {
    let mut c = cache::Config::new();
    if !cfg.dflt {
        c.set_max_validity(Duration::from_secs(cfg.raw[0]));
        c.set_transport_failure_duration(Duration::from_secs(cfg.raw[1]));
        c.set_misc_error_duration(Duration::from_secs(cfg.raw[2]));
        c.set_max_nxdomain_validity(Duration::from_secs(cfg.raw[3]));
        c.set_max_nodata_validity(Duration::from_secs(cfg.raw[4]));
        c.set_max_delegation_validity(Duration::from_secs(cfg.raw[5]));
        c.set_cache_truncated(cfg.trunc);
    }
    if let Some(n) = cfg.entries { c.set_max_cache_entries(n); }
    // the untouched default configuration goes through Connection::new
    if cfg.dflt && cfg.entries.is_none() { cache::Connection::new(mock.clone()) } else { cache::Connection::with_config(mock.clone(), c) }
}

/// Concurrency (oracle only): the events are issued in batches of 1..3 requests that are in flight
/// at the same time on one Connection (the upstream answers after its scripted delay).
async fn run_concurrent(cfg: Cfg, evs: Vec<Ev>, batches: Vec<usize>, trace: Arc<Mutex<Trace>>, mock: Mock) {
    let t0 = tokio::time::Instant::now();
    mock.0.lock().unwrap().t0 = t0;
    let conn = make_conn(&cfg, &mock);
    let mut i = 0usize;
    for b in batches {
        let batch: Vec<(usize, &Ev)> = (i..(i + b).min(evs.len())).map(|j| (j, &evs[j])).collect();
        i += b;
        if batch.is_empty() { break; }
        if batch[0].1.gap_ms > 0 { tokio::time::advance(Duration::from_millis(batch[0].1.gap_ms)).await; }
        let mut reqs = vec![];
        for (j, ev) in &batch {
            mock.0.lock().unwrap().next.insert(1000 + *j as u16, (ev.resp.clone(), ev.delay_ms));
            let reqmsg = build_query(&ev.q, 1000 + *j as u16);
            if let Err(e) = serialisations_agree(&reqmsg) { trace.lock().unwrap().disagree.push(e); }
            let qobs = observe_query(&wire_message(&reqmsg, true));
            reqs.push((*j, qobs, reqmsg.send(&conn)));
        }
        let mref = &mock;
        let results = futures_util::future::join_all(reqs.iter_mut().map(|(j, q, r)| { let (j, q) = (*j, q.clone()); async move {
            { let mut st = mref.0.lock().unwrap(); let now = (tokio::time::Instant::now() - t0).as_millis() as u64; st.order.push((true, 1000 + j as u16, now)); }
            let res = r.get_response().await;
            (j, q, res, (tokio::time::Instant::now() - t0).as_millis() as u64)
        }})).await;
        let mut st = mock.0.lock().unwrap();
        let mut tr = trace.lock().unwrap();
        let results: HashMap<u16, (QObs, Result<Message<Bytes>, Error>, u64)> = results.into_iter().map(|(j, q, r, d)| (1000 + j as u16, (q, r, d))).collect();
        let order = std::mem::take(&mut st.order);
        for (is_start, id, ms) in order {
            let j = (id - 1000) as usize;
            let (qobs, res, done_ms) = &results[&id];
            let le = st.log.iter().find(|le| le.req_id == id);
            if is_start {
                tr.words.push(format!("s {} {} {} {} {} {} {}", NAMES[evs[j].q.name].1, evs[j].q.name + 1, evs[j].q.class, evs[j].q.rtype, qflags(&evs[j].q), evs[j].q.opcode, ms));
                if le.is_some() { tr.obs.push("P".into()); } else {
                    let r = render(res);
                    tr.obs.push(format!("S {}", resp_obs(&r)));
                    tr.nserved += 1;
                    tr.served.push(Served { q: qobs.clone(), now_ms: *done_ms, resp: r, log_len: st.log.len() });
                }
            } else {
                let le = le.unwrap();
                let same = match (res, &le.raw, &le.resp) {
                    (Ok(m), Some(raw), _) => m.as_slice() == raw.as_ref(),
                    (Err(e), None, RResp::Err(c)) => err_code(e) == *c,
                    _ => false,
                };
                let fe = matches!((res, &le.resp), (Err(e), RResp::Msg(um)) if um.broken && err_code(e) == 20);
                if !same && !fe { tr.altered.push(format!("event {}", j)); }
                if le.q.cacheable() {
                    tr.words.push(format!("f {} {} {} {} {} {}", le.q.name, le.q.class, le.q.rtype,
                        le.q.rd as u32 | (le.q.cd as u32) << 1 | (le.q.ad as u32) << 2 | (le.q.do_ as u32) << 3, ms, resp_case(&le.resp)));
                    tr.obs.push(if fe { "FE20".into() } else { "F".into() });
                }
            }
        }
    }
}

async fn run_history(cfg: Cfg, evs: Vec<Ev>, trace: Arc<Mutex<Trace>>, mock: Mock) {
    let t0 = tokio::time::Instant::now();
    mock.0.lock().unwrap().t0 = t0;
    let conn = make_conn(&cfg, &mock);
    for (i, ev) in evs.iter().enumerate() {
        if ev.gap_ms > 0 { tokio::time::advance(Duration::from_millis(ev.gap_ms)).await; }
        let reqmsg = build_query(&ev.q, 1000 + i as u16);
        if let Err(e) = serialisations_agree(&reqmsg) { trace.lock().unwrap().disagree.push(e); }
            let qobs = observe_query(&wire_message(&reqmsg, true));
        // the request object may be created well before it is awaited: what counts (age of
        // entries, expiry) is the time at which get_response() runs
        let mut req = reqmsg.send(&conn);
        if ev.hold_ms > 0 { tokio::time::advance(Duration::from_millis(ev.hold_ms)).await; }
        let now_ms = (tokio::time::Instant::now() - t0).as_millis() as u64;
        let qw = format!("q {} {} {} {} {} {} {}", NAMES[ev.q.name].1, ev.q.name + 1, ev.q.class, ev.q.rtype, qflags(&ev.q), ev.q.opcode, now_ms);
        let before = {
            let mut st = mock.0.lock().unwrap();
            st.next.insert(1000 + i as u16, (ev.resp.clone(), ev.delay_ms));
            st.log.len()
        };
        trace.lock().unwrap().cur = Some((qw.clone(), before));
        let res = req.get_response().await;
        drop(req);
        let st = mock.0.lock().unwrap();
        let mut tr = trace.lock().unwrap();
        tr.cur = None;
        if let Some(le) = st.log.iter().find(|le| le.req_id == 1000 + i as u16) {
            tr.words.push(format!("{} {} {}", qw, le.delay_ms, resp_case(&le.resp)));
            // pass-through must be what upstream said, unaltered; the one exception is an
            // upstream message whose sections cannot be walked: the caller gets the parse error
            let same = match (&res, &le.raw, &le.resp) {
                (Ok(m), Some(raw), _) => m.as_slice() == raw.as_ref(),
                (Err(e), None, RResp::Err(c)) => err_code(e) == *c,
                _ => false,
            };
            match (&res, &le.resp) {
                (Err(e), RResp::Msg(um)) if um.broken && err_code(e) == 20 => tr.obs.push("FE20".into()),
                _ => { tr.obs.push("F".into()); if !same { tr.altered.push(format!("event {} {}", i, qw)); } }
            }
        } else {
            let r = render(&res);
            tr.words.push(format!("{} 0 e 0", qw));
            tr.obs.push(format!("S {}", resp_obs(&r)));
            tr.nserved += 1;
            if let RResp::Msg(m) = &r { if m.secs.iter().any(|s| !s.is_empty()) { tr.nonneg += 1; } }
            tr.served.push(Served { q: qobs, now_ms, resp: r, log_len: before });
        }
    }
}

// ---------- the property oracle ---------------------------------------------------------------

fn clamp(v: u64, lo: u64, hi: u64) -> u64 { v.min(hi).max(lo) }
/// effective configuration per the documented limits of the setters
fn effective(cfg: &Cfg) -> [u64; 6] {
    [clamp(cfg.raw[0], 60, 6_048_000), clamp(cfg.raw[1], 1, 300), clamp(cfg.raw[2], 1, 300),
     clamp(cfg.raw[3], 60, 86_400), clamp(cfg.raw[4], 60, 86_400), clamp(cfg.raw[5], 60, 1_000_000_000)]
}

fn class_cap(eff: &[u64; 6], trunc: bool, u: &RMsg) -> u64 {
    if u.tc && !trunc { return 0; }
    let maxv = eff[0];
    match u.full_rcode() {
        0 => {
            let (qt, qc) = match u.q { Some(x) => x, None => return 0 };
            if u.secs[0].iter().any(|r| r.rtype == qt && r.class == qc) { maxv }
            else if u.secs[1].iter().any(|r| r.rtype == 6 && r.class == qc) { maxv.min(eff[4]) }
            else if u.secs[1].iter().any(|r| r.rtype == 2 && r.class == qc) { maxv.min(eff[5]) }
            else { 0 }
        }
        3 => maxv.min(eff[3]),
        _ => maxv.min(eff[2]),
    }
}

fn keyed(l: &[Rec], dnssec: bool) -> Vec<Rec> {
    let mut v: Vec<Rec> = l.iter().filter(|r| DNSSEC_TYPES.contains(&r.rtype) == dnssec).cloned().collect();
    v.sort_by_key(|r| (r.rtype, r.class, r.id, r.ttl));
    v
}
fn same_keys(a: &[Rec], b: &[Rec]) -> bool {
    a.len() == b.len() && a.iter().zip(b).all(|(x, y)| (x.rtype, x.class, x.id) == (y.rtype, y.class, y.id))
}

/// which parts of the property the pair (served, candidate upstream exchange) violates
fn violations(eff: &[u64; 6], trunc: bool, s: &Served, u: &LogEntry) -> Vec<(&'static str, String)> {
    let mut v = vec![];
    let (q, uq) = (&s.q, &u.q);
    if q.cd != uq.cd || (q.rd && !uq.rd) || (q.do_ && !uq.do_) || (q.adeff() && !uq.adeff()) {
        v.push(("flag_incompatible", format!("query {:?} upstream query {:?}", q, uq)));
    }
    let elapsed = s.now_ms.saturating_sub(u.t_ms);
    let secs = elapsed / 1000;
    match (&s.resp, &u.resp) {
        (RResp::Err(a), RResp::Err(b)) => {
            if a != b { v.push(("served_not_received", format!("error {} vs {}", a, b))); }
            if elapsed > eff[1] * 1000 { v.push(("served_stale", format!("failure served after {} ms, bound {} s", elapsed, eff[1]))); }
        }
        (RResp::Msg(sm), RResp::Msg(um)) => {
            if sm.rcode != um.rcode || sm.tc != um.tc { v.push(("served_not_received", "rcode/tc differ".into())); }
            let strip = uq.do_ && !q.do_;
            let mut min_ttl = u64::MAX;
            for i in 0..3 {
                let (sn, mut un) = (keyed(&sm.secs[i], false), keyed(&um.secs[i], false));
                if strip {
                    // other DNSSEC-only types (DS, DNSKEY, NSEC3PARAM) may or may not be removed
                    // for a request without DO; the property does not say, so both are accepted
                    un.retain(|r| !STRIP_OPTIONAL.contains(&r.rtype) || sn.iter().any(|x| (x.rtype, x.class, x.id) == (r.rtype, r.class, r.id)));
                }
                if !same_keys(&sn, &un) { v.push(("served_not_received", format!("section {} differs", i))); continue; }
                let (sd, ud) = (keyed(&sm.secs[i], true), keyed(&um.secs[i], true));
                let mut pairs: Vec<(Rec, Rec)> = sn.into_iter().zip(un).collect();
                if strip {
                    if !sd.is_empty() { v.push(("dnssec_leak", format!("section {}: {:?}", i, sd))); }
                } else if !same_keys(&sd, &ud) {
                    v.push(("served_not_received", format!("section {} DNSSEC records differ", i)));
                } else {
                    pairs.extend(sd.into_iter().zip(ud));
                }
                for (sr, ur) in pairs {
                    if sr.rtype == 41 { continue; }
                    min_ttl = min_ttl.min(ur.ttl as u64);
                    if sr.ttl as u64 + secs > ur.ttl as u64 {
                        v.push(("ttl_increased", format!("served {} after {} s, upstream {}", sr.ttl, secs, ur.ttl)));
                    } else if (sr.ttl as u64) + secs + 1 < ur.ttl as u64 {
                        v.push(("ttl_not_aged", format!("served {} after {} s, upstream {}", sr.ttl, secs, ur.ttl)));
                    }
                }
            }
            if !q.adeff() && uq.adeff() {
                if sm.ad { v.push(("ad_leak", "AD set for a query without AD/DO".into())); }
            } else if sm.ad && !um.ad {
                v.push(("served_not_received", "AD invented".into()));
            }
            let bound = class_cap(eff, trunc, um).min(min_ttl);
            if elapsed > bound * 1000 { v.push(("served_stale", format!("served after {} ms, bound {} s", elapsed, bound))); }
        }
        (RResp::Err(20), RResp::Msg(um)) if um.has_bad() => {
            // The cache could not rebuild the cached message (a record whose RDATA does not parse):
            // the caller gets MessageParseError in its place.  That stands for the upstream message
            // and is held to the same freshness bound.
            let strip = uq.do_ && !q.do_;
            let min_ttl = um.secs.iter().flatten().filter(|r| r.rtype != 41 && !(strip && DNSSEC_TYPES.contains(&r.rtype))).map(|r| r.ttl as u64).min().unwrap_or(u64::MAX);
            let bound = class_cap(eff, trunc, um).min(min_ttl);
            if elapsed > bound * 1000 { v.push(("stale_parse_error", format!("parse error for an unparsable cached message served after {} ms, bound {} s", elapsed, bound))); }
        }
        _ => v.push(("served_not_received", "message vs error".into())),
    }
    v
}

/// verdict on one served response: None = explained by some earlier upstream
/// exchange, Some(class, detail) = the first violation of the best candidate
fn judge(eff: &[u64; 6], trunc: bool, s: &Served, log: &[LogEntry]) -> Option<(&'static str, String)> {
    if !s.q.cacheable() { return Some(("served_uncacheable", format!("{:?}", s.q))); }
    let mut best: Option<Vec<(&'static str, String)>> = None;
    for u in log[..s.log_len].iter().filter(|u| u.q.cacheable() && u.q.name == s.q.name && u.q.class == s.q.class && u.q.rtype == s.q.rtype) {
        let v = violations(eff, trunc, s, u);
        // fewest violations first; among equals prefer a candidate that at least has the content right
        let rank = |v: &Vec<(&'static str, String)>| (v.len(), v.first().map_or(false, |x| x.0 == "served_not_received"));
        if best.as_ref().map_or(true, |b| rank(&v) < rank(b)) { best = Some(v); }
        if best.as_ref().unwrap().is_empty() { break; }
    }
    match best {
        None => Some(("served_not_received", format!("no upstream exchange for {:?} before t={}", s.q, s.now_ms))),
        Some(v) if v.is_empty() => None,
        Some(mut v) => { let f = v.remove(0); Some((f.0, format!("t={} {:?}: {}", s.now_ms, s.q, f.1))) }
    }
}

fn oracle(out: &mut Out, label: &str, cfg: &Cfg, tr: &Trace, log: &[LogEntry]) {
    let eff = effective(cfg);
    for s in &tr.served {
        match judge(&eff, cfg.trunc, s, log) {
            None => out.check(true, "served_ok", label, ""),
            Some((c, d)) => out.check(false, c, label, &d),
        }
    }
    for d in &tr.disagree { out.check(false, "request_serialisations_disagree", label, d); }
    out.check(tr.disagree.is_empty(), "request_serialisations_disagree", label, "");
    for a in &tr.altered { out.check(false, "forward_altered", label, a); }
    out.check(tr.altered.is_empty(), "forward_altered", label, "");
}

/// The oracle judging doctored observations of the cascade corpus history: each
/// doctoring must be reported under the expected class (guards the oracle itself).
fn oracle_selftest(out: &mut Out, cfg: &Cfg, tr: &Trace, log: &[LogEntry]) {
    let eff = effective(cfg);
    let mut expect = |out: &mut Out, what: &str, s: Served, classes: &[&str]| {
        let got = judge(&eff, cfg.trunc, &s, log).map(|x| x.0).unwrap_or("served_ok");
        out.check(classes.contains(&got), "oracle_selftest", what, &format!("oracle said {} for a doctored observation, expected one of {:?}", got, classes));
    };
    let clone = |s: &Served| Served { q: s.q.clone(), now_ms: s.now_ms, resp: s.resp.clone(), log_len: s.log_len };
    // a response served to a query without AD/DO that came from the DO entry
    let Some(plain) = tr.served.iter().find(|s| !s.q.adeff() && matches!(s.resp, RResp::Msg(_))) else { out.check(false, "oracle_selftest", "setup", "no plain served response"); return; };
    let Some(dnssec) = tr.served.iter().find(|s| s.q.do_ && matches!(s.resp, RResp::Msg(_))) else { out.check(false, "oracle_selftest", "setup", "no DO served response"); return; };
    let edit = |s: &Served, f: &dyn Fn(&mut RMsg, &mut Served)| { let mut c = clone(s); if let RResp::Msg(m) = &s.resp { let mut m = m.clone(); f(&mut m, &mut c); c.resp = RResp::Msg(m); } c };
    expect(out, "unchanged", clone(plain), &["served_ok"]);
    expect(out, "ttl+1", edit(plain, &|m, _| m.secs[0][0].ttl += 1), &["ttl_increased"]);
    expect(out, "ttl-2", edit(plain, &|m, _| m.secs[0][0].ttl -= 2), &["ttl_not_aged"]);
    expect(out, "other record", edit(plain, &|m, _| m.secs[0][0].id ^= 1), &["served_not_received"]);
    expect(out, "record dropped", edit(plain, &|m, _| { m.secs[1].clear(); }), &["served_not_received"]);
    expect(out, "rcode changed", edit(plain, &|m, _| m.rcode = 3), &["served_not_received"]);
    expect(out, "AD kept", edit(plain, &|m, _| m.ad = true), &["ad_leak"]);
    expect(out, "RRSIG kept", edit(plain, &|m, _| { let r = Rec { rtype: 46, class: 1, ttl: 1, id: 5, bad: false }; m.secs[0].push(r); }), &["dnssec_leak"]);
    expect(out, "served to CD", edit(plain, &|_, c| c.q.cd = true), &["flag_incompatible"]);
    expect(out, "much later", edit(plain, &|m, c| { c.now_ms += 400_000; for s in m.secs.iter_mut() { for r in s.iter_mut() { if r.rtype != 41 { r.ttl = 0; } } } }), &["ttl_increased"]);
    {
        // the same observation under a configuration whose maximum validity has already passed
        let mut eff2 = eff; eff2[0] = 0;
        let got = judge(&eff2, cfg.trunc, plain, log).map(|x| x.0).unwrap_or("served_ok");
        out.check(got == "served_stale", "oracle_selftest", "cap exceeded", &format!("oracle said {}, expected served_stale", got));
    }
    expect(out, "before any upstream exchange", { let mut c = clone(plain); c.log_len = 0; c }, &["served_not_received"]);
    expect(out, "DO unchanged", clone(dnssec), &["served_ok"]);
    expect(out, "DO lost its RRSIG", edit(dnssec, &|m, _| m.secs[0].retain(|r| r.rtype != 46)), &["served_not_received"]);
    expect(out, "other name", { let mut c = clone(plain); c.q.name = 2; c }, &["served_not_received"]);
}

// ---------- generators ----------------------------------------------------------------------------

const TTLS: [u32; 12] = [0, 1, 2, 5, 30, 60, 61, 300, 3600, 3601, 86400, 700_000];

fn gen_cfg(r: &mut Rng, kind: u64) -> Cfg {
    // kind 0: the documented defaults (one week, 30 s, 30 s, one hour, one hour, 1,000,000 s), no setter called
    let mut raw = [604800u64, 30, 30, 3600, 3600, 1_000_000];
    let mut trunc = false;
    if kind >= 1 {
        let pick = |r: &mut Rng, xs: &[u64]| *r.pick(xs);
        raw[0] = pick(r, &[0, 59, 60, 61, 120, 3600, 604800, 6048000, 6048001, 10_000_000_000]);
        raw[1] = pick(r, &[0, 1, 2, 5, 30, 300, 301, 100000]);
        raw[2] = pick(r, &[0, 1, 2, 5, 30, 300, 301, 100000]);
        raw[3] = pick(r, &[0, 60, 61, 90, 3600, 86400, 86401]);
        raw[4] = pick(r, &[0, 60, 61, 90, 3600, 86400, 86401]);
        raw[5] = pick(r, &[0, 60, 61, 90, 1_000_000, 1_000_000_000, 1_000_000_001]);
        trunc = r.chance(1, 2);
    }
    Cfg { raw, trunc, entries: None, honest: !r.chance(1, 6), dflt: kind == 0, wire_append: r.chance(1, 2) }
}

fn gen_resp(r: &mut Rng, q: &QSpec, ttls: &[u32], ser: &mut u32) -> RespSpec {
    let mut next = || { *ser += 1; *ser };
    let t = |r: &mut Rng| *r.pick(ttls);
    let kind = r.below(20);
    let mut recs = vec![];
    let mut rcode = 0u8;
    let sig = r.chance(3, 4);
    match kind {
        0..=7 => { // positive
            for _ in 0..r.range(1, 3) { recs.push(RecSpec { sec: 0, rtype: q.rtype, class: 1, ttl: t(r), owner_apex: false, ser: next(), bad: false }); }
            if r.chance(1, 5) { recs.insert(0, RecSpec { sec: 0, rtype: 5, class: 1, ttl: t(r), owner_apex: false, ser: next(), bad: false }); }
            if sig { recs.push(RecSpec { sec: 0, rtype: 46, class: 1, ttl: t(r), owner_apex: false, ser: next(), bad: false }); }
            if r.chance(1, 3) { recs.push(RecSpec { sec: 1, rtype: 2, class: 1, ttl: t(r), owner_apex: true, ser: next(), bad: false }); }
            if r.chance(1, 3) { recs.push(RecSpec { sec: 2, rtype: 1, class: 1, ttl: t(r), owner_apex: true, ser: next(), bad: false }); }
            if r.chance(1, 8) { recs.push(RecSpec { sec: 2, rtype: 46, class: 1, ttl: t(r), owner_apex: true, ser: next(), bad: false }); }
        }
        8..=10 => { // NODATA
            if r.chance(1, 4) { recs.push(RecSpec { sec: 0, rtype: 5, class: 1, ttl: t(r), owner_apex: false, ser: next(), bad: false }); }
            recs.push(RecSpec { sec: 1, rtype: 6, class: 1, ttl: t(r), owner_apex: true, ser: next(), bad: false });
            if sig {
                recs.push(RecSpec { sec: 1, rtype: 46, class: 1, ttl: t(r), owner_apex: true, ser: next(), bad: false });
                recs.push(RecSpec { sec: 1, rtype: if r.chance(1, 2) { 47 } else { 50 }, class: 1, ttl: t(r), owner_apex: false, ser: next(), bad: false });
            }
        }
        11..=12 => { // NXDOMAIN
            rcode = 3;
            if r.chance(5, 6) { recs.push(RecSpec { sec: 1, rtype: 6, class: 1, ttl: t(r), owner_apex: true, ser: next(), bad: false }); }
            if sig {
                recs.push(RecSpec { sec: 1, rtype: if r.chance(1, 2) { 47 } else { 50 }, class: 1, ttl: t(r), owner_apex: true, ser: next(), bad: false });
                recs.push(RecSpec { sec: 1, rtype: 46, class: 1, ttl: t(r), owner_apex: true, ser: next(), bad: false });
            }
        }
        13..=14 => { // delegation
            for _ in 0..r.range(1, 2) { recs.push(RecSpec { sec: 1, rtype: 2, class: 1, ttl: t(r), owner_apex: true, ser: next(), bad: false }); }
            if sig {
                recs.push(RecSpec { sec: 1, rtype: 43, class: 1, ttl: t(r), owner_apex: true, ser: next(), bad: false });
                recs.push(RecSpec { sec: 1, rtype: 46, class: 1, ttl: t(r), owner_apex: true, ser: next(), bad: false });
            }
            if r.chance(1, 2) { recs.push(RecSpec { sec: 2, rtype: 1, class: 1, ttl: t(r), owner_apex: true, ser: next(), bad: false }); }
        }
        15 => { // SERVFAIL / REFUSED / other, sometimes with records
            rcode = *r.pick(&[2u8, 5, 1, 4, 9]);
            if r.chance(1, 3) { recs.push(RecSpec { sec: 1, rtype: 6, class: 1, ttl: t(r), owner_apex: true, ser: next(), bad: false }); }
        }
        16 => { // weird NOERROR: nothing useful, or records of another class
            if r.chance(1, 2) { recs.push(RecSpec { sec: 0, rtype: q.rtype, class: 3, ttl: t(r), owner_apex: false, ser: next(), bad: false }); }
            if r.chance(1, 2) { recs.push(RecSpec { sec: 1, rtype: 6, class: 3, ttl: t(r), owner_apex: true, ser: next(), bad: false }); }
        }
        _ => return RespSpec::Err(r.range(1, 4) as u8),
    }
    // malformed upstream data: one record whose RDATA is one octet short, or counts that promise too much
    if r.chance(1, 12) && !recs.is_empty() { let i = r.below(recs.len() as u64) as usize; recs[i].bad = true; }
    // extended rcodes; those whose low nibble is 0 (NOERROR) or 3 (NXDOMAIN) only differ from these in the OPT record
    let ext = if r.chance(1, 12) { Some(*r.pick(&[16u16, 19, 23, 0x120, 0x123, 0x7f0, 0xff3, 3841, 4095])) } else { None };
    RespSpec::Msg { rcode, aa: r.chance(1, 2), tc: r.chance(1, 10), ad: r.chance(1, 2), noq: r.chance(1, 60), recs,
        broken: r.chance(1, 30), ext, opt_data: r.chance(1, 6), opt_first: r.chance(1, 3) }
}

fn gen_history(r: &mut Rng, cfg: &Cfg, len: usize) -> Vec<Ev> {
    let eff = effective(cfg);
    // TTL palette of this history: a base value, its neighbours, and the caps
    let base = *r.pick(&TTLS);
    let mut ttls: Vec<u32> = vec![base, base, base.saturating_add(1), base.saturating_sub(1), base.saturating_mul(2), *r.pick(&TTLS), *r.pick(&TTLS)];
    if r.chance(1, 2) { ttls.push(*r.pick(&eff).min(&4_000_000_000) as u32 + r.below(2) as u32); }
    if r.chance(1, 8) { ttls.push(0); }
    if r.chance(1, 8) { ttls.push(*r.pick(&[0x7fff_ffffu32, 0x8000_0000, 0xffff_ffff])); }
    let mut marks: Vec<u64> = ttls.iter().map(|t| *t as u64 * 1000).collect();
    for e in &eff { marks.push(e * 1000); }
    let names: Vec<usize> = if r.chance(2, 3) { vec![0, 2] } else { vec![0, 1, 2] };
    let types: Vec<u16> = match r.below(4) { 0 => vec![1], 1 => vec![1, 28], 2 => vec![1, 46], _ => vec![16, 47, 43] };
    let mut ser = r.below(1000) as u32 * 64;
    let cd_do = r.chance(1, 6);
    let mut evs = vec![];
    let mut since = 0u64; // time since the last event that may have been forwarded
    for i in 0..len {
        let gap = if i == 0 { r.below(3) * 500 } else {
            match r.below(10) {
                0..=2 => 0,
                3..=4 => *r.pick(&[1u64, 500, 999, 1000, 1001, 1999, 2000]),
                5..=7 => {
                    // land on (or next to) an expiry mark measured from some earlier event
                    let m = *r.pick(&marks);
                    let target = m.saturating_sub(if r.chance(1, 2) { since } else { 0 });
                    match r.below(4) { 0 => target.saturating_sub(1), 1 => target + 1, 2 => target + 999, _ => target }
                }
                8 => *r.pick(&marks) / 2,
                _ => r.below(5000),
            }
        };
        let gap = gap.min(20_000_000_000);
        if r.chance(1, 3) { since = 0; } else { since += gap; }
        let opcode = if r.chance(1, 40) { *r.pick(&[2u8, 4]) } else { 0 };
        let q = QSpec { name: *r.pick(&names), class: if r.chance(1, 40) { 3 } else { 1 }, rtype: *r.pick(&types),
            rd: r.chance(1, 2), cd: r.chance(1, 8), ad: r.chance(1, 3), do_: r.chance(1, 3), opcode, base_opt: 0, own: 0 };
        let mut q = q;
        // 1 history in 6: DO requests throughout, CD set every other time (CD partitions the cache for DO requests too)
        if cd_do { q.do_ = true; q.cd = r.chance(1, 2); }
        // EDNS by other routes: an OPT record in the hand-made base message (dropped), other setters
        match r.below(10) { 0 | 1 => { q.base_opt = 1 + q.do_ as u8; q.do_ = false; } 2 => { q.base_opt = r.range(1, 2) as u8; q.own = 1; } 3 => { q.own = 2; q.do_ = false; } 4 => { q.own = 1; } 5 => { q.own = 3; } _ => {} }
        let resp = gen_resp(r, &q, &ttls, &mut ser);
        let delay = if r.chance(1, 6) { *r.pick(&[1u64, 400, 1000, 1500]) } else { 0 };
        // 1 in 5 requests is created first and awaited after the clock has moved on to (around) an expiry mark
        let hold = if r.chance(1, 5) { let m = *r.pick(&marks); match r.below(4) { 0 => m.saturating_sub(since + 1), 1 => m.saturating_sub(since), 2 => m + 1, _ => *r.pick(&[1u64, 999, 1000, 30_000, 70_000]) } } else { 0 };
        let hold = hold.min(20_000_000_000);
        if hold > 0 { since += hold; }
        evs.push(Ev { gap_ms: gap, q, resp, delay_ms: delay, hold_ms: hold });
    }
    evs
}

fn a_rec(sec: usize, rtype: u16, ttl: u32, apex: bool, ser: u32) -> RecSpec { RecSpec { sec, rtype, class: 1, ttl, owner_apex: apex, ser, bad: false } }
fn bad_rec(sec: usize, rtype: u16, ttl: u32, apex: bool, ser: u32) -> RecSpec { RecSpec { sec, rtype, class: 1, ttl, owner_apex: apex, ser, bad: true } }
fn qs(name: usize, rtype: u16, flags: u32) -> QSpec {
    QSpec { name, class: 1, rtype, rd: flags & 1 != 0, cd: flags & 2 != 0, ad: flags & 4 != 0, do_: flags & 8 != 0, opcode: 0, base_opt: 0, own: 0 }
}
fn msg(rcode: u8, ad: bool, tc: bool, recs: Vec<RecSpec>) -> RespSpec { RespSpec::Msg { rcode, aa: true, tc, ad, noq: false, recs, broken: false, ext: None, opt_data: false, opt_first: false } }

/// fixed boundary / regression histories
fn corpus() -> Vec<(Cfg, Vec<Ev>)> {
    let dflt = Cfg { raw: [604800, 30, 30, 3600, 3600, 1_000_000], trunc: false, entries: None, honest: true, dflt: true, wire_append: true };
    let ev = |gap: u64, q: QSpec, resp: RespSpec| Ev { gap_ms: gap, q, resp, delay_ms: 0, hold_ms: 0 };
    let held = |gap: u64, hold: u64, q: QSpec, resp: RespSpec| Ev { gap_ms: gap, q, resp, delay_ms: 0, hold_ms: hold };
    let none = RespSpec::Err(4);
    let mut v = vec![];
    // exact expiry: served at elapsed == ttl (TTL 0), forwarded one ms later
    v.push((dflt.clone(), vec![
        ev(0, qs(0, 1, 1), msg(0, false, false, vec![a_rec(0, 1, 60, false, 1), a_rec(0, 1, 90, false, 2)])),
        ev(59_999, qs(0, 1, 1), none.clone()), ev(1, qs(2, 1, 1), none.clone()),
        ev(1, qs(0, 1, 1), msg(0, false, false, vec![a_rec(0, 1, 5, false, 3)])),
        ev(5000, qs(0, 1, 1), none.clone())]));
    // the whole cascade: answer to RD+DO with AD and RRSIG, then every weaker flag combination
    let mut evs = vec![ev(0, qs(0, 1, 1 | 8), msg(0, true, false, vec![a_rec(0, 1, 300, false, 1), a_rec(0, 46, 100, false, 2), a_rec(1, 2, 300, true, 3), a_rec(1, 46, 300, true, 4)]))];
    for f in [0u32, 4, 1, 5, 8, 9, 12, 13, 2, 3] { evs.push(ev(1000, qs(0, 1, f), msg(0, false, false, vec![a_rec(0, 1, 77, false, 10 + f)]))); }
    // past the RRSIG TTL the DO entry is stale but the stripped ones live on
    evs.push(ev(95_000, qs(0, 1, 0), none.clone()));
    evs.push(ev(0, qs(0, 1, 9), msg(0, true, false, vec![a_rec(0, 1, 300, false, 30), a_rec(0, 46, 100, false, 31)])));
    v.push((dflt.clone(), evs));
    // DNSSEC qtype without DO is never answered from a DO entry
    v.push((dflt.clone(), vec![
        ev(0, qs(0, 46, 9), msg(0, true, false, vec![a_rec(0, 46, 300, false, 1)])),
        ev(10, qs(0, 46, 1), msg(0, false, false, vec![a_rec(0, 46, 200, false, 2)])),
        ev(10, qs(0, 46, 0), none.clone()), ev(10, qs(0, 46, 9), none.clone())]));
    // negative answers and failures at their caps (defaults)
    v.push((dflt.clone(), vec![
        ev(0, qs(0, 1, 1), msg(3, false, false, vec![a_rec(1, 6, 86400, true, 1)])),
        ev(3_600_000, qs(0, 1, 1), none.clone()), ev(1, qs(0, 1, 1), msg(0, false, false, vec![a_rec(1, 6, 86400, true, 2)])),
        ev(3_600_000, qs(0, 1, 1), none.clone()), ev(1, qs(0, 1, 1), msg(2, false, false, vec![])),
        ev(30_000, qs(0, 1, 1), none.clone()), ev(1, qs(0, 1, 1), RespSpec::Err(2)),
        ev(30_000, qs(0, 1, 0), none.clone()), ev(1, qs(0, 1, 1), msg(0, false, false, vec![a_rec(1, 2, 2_000_000, true, 3)])),
        ev(1_000_000_000, qs(0, 1, 1), none.clone()), ev(1, qs(0, 1, 1), msg(0, false, false, vec![a_rec(0, 1, 0xffff_ffff, false, 4)])),
        ev(604_800_000, qs(0, 1, 1), none.clone()), ev(1, qs(0, 1, 1), none.clone())]));
    // truncated: not cached by default, cached when configured
    for trunc in [false, true] {
        let mut c = dflt.clone(); c.trunc = trunc; c.dflt = false;
        v.push((c, vec![ev(0, qs(0, 1, 1), msg(0, false, true, vec![a_rec(0, 1, 60, false, 1)])), ev(0, qs(0, 1, 1), msg(0, false, false, vec![a_rec(0, 1, 60, false, 2)])), ev(1000, qs(0, 1, 0), none.clone())]));
    }
    // an upstream "response" that carries no question section (NOERROR): must not panic
    v.push((dflt.clone(), vec![
        ev(0, qs(0, 1, 1), RespSpec::Msg { rcode: 0, aa: false, tc: false, ad: false, noq: true, recs: vec![a_rec(0, 1, 60, false, 1)], broken: false, ext: None, opt_data: false, opt_first: false }),
        ev(1000, qs(0, 1, 1), msg(0, false, false, vec![a_rec(0, 1, 60, false, 2)])), ev(1000, qs(0, 1, 1), none.clone())]));
    // the same with an error rcode (the stream/dgram transports accept such replies when all sections are empty)
    v.push((dflt.clone(), vec![
        ev(0, qs(0, 1, 1), RespSpec::Msg { rcode: 2, aa: false, tc: false, ad: false, noq: true, recs: vec![], broken: false, ext: None, opt_data: false, opt_first: false }),
        ev(1000, qs(0, 1, 1), none.clone()), ev(30_000, qs(0, 1, 1), none.clone())]));
    // an answer to a DO request with one record whose RDATA does not parse: requests without DO
    // must not get a parse error out of the cache once the entry has expired (60 s)
    v.push((dflt.clone(), vec![
        ev(0, qs(0, 1, 1 | 8), msg(0, false, false, vec![a_rec(0, 1, 60, false, 1), bad_rec(0, 1, 60, false, 2), a_rec(0, 46, 60, false, 3)])),
        ev(1000, qs(0, 1, 1), msg(0, false, false, vec![a_rec(0, 1, 60, false, 4)])),
        ev(60_001, qs(0, 1, 0), msg(0, false, false, vec![a_rec(0, 1, 60, false, 5)])),
        ev(1_000_000_000, qs(0, 1, 4), msg(0, false, false, vec![a_rec(0, 1, 60, false, 6)]))]));
    // the same record under the exact key: MessageParseError in place of the entry while it is fresh, then upstream again
    v.push((dflt.clone(), vec![
        ev(0, qs(0, 1, 1), msg(0, false, false, vec![a_rec(0, 1, 60, false, 1), bad_rec(2, 28, 90, true, 2)])),
        ev(1000, qs(0, 1, 1), none.clone()), ev(59_000, qs(0, 1, 0), none.clone()),
        ev(1, qs(0, 1, 1), msg(0, false, false, vec![a_rec(0, 1, 60, false, 3)])), ev(1000, qs(0, 1, 1), none.clone())]));
    // a message whose sections cannot be walked: the caller gets the error, nothing is cached; with TC it passes through
    v.push((dflt.clone(), vec![
        ev(0, qs(0, 1, 1), RespSpec::Msg { rcode: 0, aa: false, tc: false, ad: false, noq: false, recs: vec![a_rec(0, 1, 60, false, 1)], broken: true, ext: None, opt_data: false, opt_first: false }),
        ev(0, qs(0, 1, 1), RespSpec::Msg { rcode: 0, aa: false, tc: true, ad: false, noq: false, recs: vec![a_rec(0, 1, 60, false, 2)], broken: true, ext: None, opt_data: false, opt_first: false }),
        ev(0, qs(0, 1, 1), msg(0, false, false, vec![a_rec(0, 1, 60, false, 3)])), ev(1000, qs(0, 1, 1), none.clone())]));
    // extended rcode BADVERS (16) in an OPT record: header rcode NOERROR, but cached as an error for misc_error_duration (30 s);
    // the OPT record with its option is served as stored
    v.push((dflt.clone(), vec![
        ev(0, qs(0, 1, 1), RespSpec::Msg { rcode: 0, aa: false, tc: false, ad: false, noq: false, recs: vec![a_rec(0, 1, 600, false, 1)], broken: false, ext: Some(16), opt_data: true, opt_first: false }),
        ev(30_000, qs(0, 1, 0), none.clone()), ev(1, qs(0, 1, 1), none.clone())]));
    // a hand-made base message that already carries an OPT record with DO set, no EDNS setter called: both
    // serialisations drop it, so the cache keys it as DO clear and upstream is asked without DO; an ordinary DO
    // request afterwards must not be served that answer
    let handmade = |name: usize, rtype: u16, flags: u32, base: u8, own: u8| { let mut q = qs(name, rtype, flags); q.base_opt = base; q.own = own; q };
    v.push((dflt.clone(), vec![
        ev(0, handmade(0, 1, 1, 2, 0), msg(0, true, false, vec![a_rec(0, 1, 300, false, 1), a_rec(0, 46, 300, false, 2)])),
        ev(1000, qs(0, 1, 1 | 8), msg(0, true, false, vec![a_rec(0, 1, 300, false, 3), a_rec(0, 46, 300, false, 4)])),
        ev(1000, qs(0, 1, 1), none.clone()), ev(0, qs(0, 1, 1 | 8), none.clone()),
        ev(0, handmade(0, 1, 1, 1, 1), none.clone()), ev(0, handmade(0, 1, 1 | 8, 1, 1), none.clone()), ev(0, handmade(0, 1, 1, 2, 2), none.clone())]));
    // CD partitions the cache also for DO requests; a stripped answer stays within its CD half
    v.push((dflt.clone(), vec![
        ev(0, qs(0, 1, 1 | 8), msg(0, true, false, vec![a_rec(0, 1, 300, false, 1), a_rec(0, 46, 300, false, 2)])),
        ev(1000, qs(0, 1, 1 | 8 | 2), msg(0, false, false, vec![a_rec(0, 1, 200, false, 3), a_rec(0, 46, 200, false, 4)])),
        ev(1000, qs(0, 1, 1 | 8), none.clone()), ev(0, qs(0, 1, 1 | 8 | 2), none.clone()),
        ev(0, qs(0, 1, 2), none.clone()), ev(0, qs(0, 1, 0), none.clone())]));
    // extended rcodes whose low nibble reads NOERROR (0x120) / NXDOMAIN (0x123): misc errors, 30 s, not 3600 s
    v.push((dflt.clone(), vec![
        ev(0, qs(0, 1, 1), RespSpec::Msg { rcode: 3, aa: false, tc: false, ad: false, noq: false, recs: vec![a_rec(1, 6, 3600, true, 1)], broken: false, ext: Some(0x123), opt_data: false, opt_first: false }),
        ev(30_000, qs(0, 1, 1), none.clone()),
        ev(1, qs(0, 1, 1), RespSpec::Msg { rcode: 0, aa: false, tc: false, ad: false, noq: false, recs: vec![a_rec(0, 1, 3600, false, 2)], broken: false, ext: Some(0x120), opt_data: false, opt_first: false }),
        ev(30_000, qs(0, 1, 0), none.clone()), ev(1, qs(0, 1, 1), none.clone())]));
    // a relayed DO query whose OPT record is not the last additional record: it is a DO request all the same, so a plain
    // request afterwards gets the answer stripped and without AD
    let relayed = |name: usize, rtype: u16, flags: u32| { let mut q = qs(name, rtype, flags); q.own = 3; q };
    v.push((dflt.clone(), vec![
        ev(0, relayed(0, 1, 1 | 8), msg(0, true, false, vec![a_rec(0, 1, 300, false, 1), a_rec(0, 46, 300, false, 2)])),
        ev(1000, qs(0, 1, 1), none.clone()), ev(0, qs(0, 1, 1 | 8), none.clone()), ev(0, relayed(0, 1, 1), none.clone())]));
    // BADVERS in an OPT record that is the first of three additional records: still a misc error, 30 s
    v.push((dflt.clone(), vec![
        ev(0, qs(0, 1, 1), RespSpec::Msg { rcode: 0, aa: false, tc: false, ad: false, noq: false, recs: vec![a_rec(0, 1, 600, false, 1), a_rec(2, 1, 600, true, 2)], broken: false, ext: Some(16), opt_data: false, opt_first: true }),
        ev(30_000, qs(0, 1, 1), none.clone()), ev(1, qs(0, 1, 1), none.clone())]));
    // requests created early and awaited late: TTL 100 fetched at t=0; created at t=10 s and awaited at t=70 s -> TTL 30;
    // created at t=90 s (entry still fresh) and awaited at t=200 s -> stale, goes upstream; created at 200 s, awaited exactly at expiry
    v.push((dflt.clone(), vec![
        ev(0, qs(0, 1, 1), msg(0, false, false, vec![a_rec(0, 1, 100, false, 1)])),
        held(10_000, 60_000, qs(0, 1, 1), none.clone()),
        held(20_000, 110_000, qs(0, 1, 1), msg(0, false, false, vec![a_rec(0, 1, 100, false, 2)])),
        held(0, 100_000, qs(0, 1, 0), none.clone()),
        held(0, 1, qs(0, 1, 0), msg(0, false, false, vec![a_rec(0, 1, 50, false, 3)]))]));
    // zero TTL, weird NOERROR, OPT in the additional section is not aged
    v.push((dflt.clone(), vec![
        ev(0, qs(0, 1, 1), msg(0, false, false, vec![a_rec(0, 1, 0, false, 1)])), ev(0, qs(0, 1, 1), msg(0, false, false, vec![])),
        ev(0, qs(0, 1, 1), msg(0, false, false, vec![a_rec(0, 1, 10, false, 2), a_rec(2, 1, 9, true, 3)])), ev(9000, qs(0, 1, 9), msg(0, true, false, vec![a_rec(0, 1, 10, false, 4)])),
        ev(3000, qs(0, 1, 8), none.clone()), ev(0, qs(0, 1, 1), none.clone())]));
    v
}

// ---------- main ---------------------------------------------------------------------------------------

fn execute(cfg: &Cfg, evs: &[Ev]) -> (Trace, Vec<LogEntry>, bool) { execute_with(cfg, evs, None) }

fn execute_with(cfg: &Cfg, evs: &[Ev], batches: Option<Vec<usize>>) -> (Trace, Vec<LogEntry>, bool) {
    let trace = Arc::new(Mutex::new(Trace::default()));
    let rt = tokio::runtime::Builder::new_current_thread().enable_time().start_paused(true).build().unwrap();
    let mock = Mock(Arc::new(Mutex::new(MockState { wire_append: cfg.wire_append, next: HashMap::new(), order: vec![], log: vec![], honest: cfg.honest, t0: rt.block_on(async { tokio::time::Instant::now() }) })));
    let (c2, e2, t2, m2) = (cfg.clone(), evs.to_vec(), trace.clone(), mock.clone());
    let res = catch_mut(move || match batches { None => rt.block_on(run_history(c2, e2, t2, m2)), Some(b) => rt.block_on(run_concurrent(c2, e2, b, t2, m2)) });
    let log = match mock.0.lock() { Ok(g) => g.log.clone(), Err(p) => p.into_inner().log.clone() };
    let mut tr = match trace.lock() { Ok(mut g) => std::mem::take(&mut *g), Err(p) => std::mem::take(&mut *p.into_inner()) };
    let panicked = res.is_err();
    if panicked {
        if let Some((qw, before)) = tr.cur.take() {
            if log.len() > before { tr.words.push(format!("{} {} {}", qw, log[before].delay_ms, resp_case(&log[before].resp))); }
            else { tr.words.push(format!("{} 0 e 0", qw)); }
        }
    }
    (tr, log, panicked)
}

/// a panic right after an upstream response without question section is the
/// specific class `panic_cache_no_question`
fn panic_class(log: &[LogEntry]) -> &'static str {
    match log.last() { Some(LogEntry { resp: RResp::Msg(m), .. }) if m.q.is_none() => "panic_cache_no_question", _ => "panic_cache" }
}

fn case_line(cfg: &Cfg, tr: &Trace) -> String {
    let mut s = if cfg.dflt { format!("h d d d d d d d {}", tr.words.len()) } else {
        format!("h {} {} {} {} {} {} {} {}", cfg.raw[0], cfg.raw[1], cfg.raw[2], cfg.raw[3], cfg.raw[4], cfg.raw[5], cfg.trunc as u8, tr.words.len()) };
    for w in &tr.words { write!(s, " {}", w).unwrap(); }
    s
}

fn main() {
    let a = args();
    let mut out = Out::new(&a, "C20", 60);
    let mut r = Rng::new(a.seed);
    let n_hist = if a.thorough { 50_000 } else { 4_000 } * a.scale;
    let n_small = if a.thorough { 10_000 } else { 800 } * a.scale;
    let mut idx = 0u64;
    let (mut served_total, mut served_records, mut forwarded) = (0u64, 0u64, 0u64);
    let fixed = corpus();
    for i in 0..(fixed.len() as u64 + n_hist) {
        let (cfg, evs, kind) = if (i as usize) < fixed.len() { let (c, e) = fixed[i as usize].clone(); (c, e, "corpus") } else {
            let k = r.below(3);
            let cfg = gen_cfg(&mut r, k);
            let len = r.range(2, 25) as usize;
            let evs = gen_history(&mut r, &cfg, len);
            (cfg, evs, if k == 0 { "default_config" } else { "random_config" })
        };
        idx += 1;
        if !out.wants(idx) { continue; }
        let label = format!("history#{} seed={}", idx, a.seed);
        out.begin(&label);
        let (tr, log, panicked) = execute(&cfg, &evs);
        let case = case_line(&cfg, &tr);
        let obs = if panicked { "Panic".to_string() } else { tr.obs.join(" | ") };
        out.case(&case, &obs, tr.nserved > 0, kind);
        out.check(!panicked, panic_class(&log), &case, "panic while running the history");
        oracle(&mut out, &case, &cfg, &tr, &log);
        if i == 1 { oracle_selftest(&mut out, &cfg, &tr, &log); }
        served_total += tr.nserved as u64; served_records += tr.nonneg as u64; forwarded += log.len() as u64;
    }
    // small capacities: moka evicts; the oracle alone judges (eviction is not modelled in T2)
    let mut small_served = 0u64;
    for _ in 0..n_small {
        let k = r.below(3);
        let mut cfg = gen_cfg(&mut r, k);
        cfg.entries = Some(r.range(1, 4));
        let len = r.range(5, 25) as usize;
        let evs = gen_history(&mut r, &cfg, len);
        idx += 1;
        if !out.wants(idx) { continue; }
        let label = format!("small#{} seed={}", idx, a.seed);
        out.begin(&label);
        let (tr, log, panicked) = execute(&cfg, &evs);
        let case = format!("entries={} {}", cfg.entries.unwrap(), case_line(&cfg, &tr));
        out.oracle_case(&case, tr.nserved > 0, "small_capacity");
        out.check(!panicked, panic_class(&log), &case, "panic while running the history");
        oracle(&mut out, &case, &cfg, &tr, &log);
        small_served += tr.nserved as u64;
    }
    // requests in flight at the same time on one Connection (oracle only)
    let n_conc = if a.thorough { 6_000 } else { 500 } * a.scale;
    let (mut conc_served, mut conc_double) = (0u64, 0u64);
    {
        // fixed scenario: two identical requests in flight together (answers after 400 and 1000 ms) and a
        // third one later.  Exact expectation: no single-flight (both reach upstream), both answers are
        // inserted, the later insert wins, so the third request is served the second answer, aged from
        // the moment that answer arrived.
        let dflt = Cfg { raw: [604800, 30, 30, 3600, 3600, 1_000_000], trunc: false, entries: None, honest: true, dflt: true, wire_append: true };
        let evs = vec![
            Ev { gap_ms: 0, q: qs(0, 1, 1), resp: msg(0, false, false, vec![a_rec(0, 1, 60, false, 1)]), delay_ms: 400, hold_ms: 0 },
            Ev { gap_ms: 0, q: qs(0, 1, 1), resp: msg(0, false, false, vec![a_rec(0, 1, 90, false, 2)]), delay_ms: 1000, hold_ms: 0 },
            Ev { gap_ms: 2000, q: qs(2, 1, 1), resp: RespSpec::Err(4), delay_ms: 0, hold_ms: 0 }];
        idx += 1;
        if out.wants(idx) {
            out.begin("concurrent fixed");
            let (tr, log, panicked) = execute_with(&dflt, &evs, Some(vec![2, 1]));
            let case = case_line(&dflt, &tr);
            let obs = tr.obs.join(" | ");
            if panicked { out.oracle_case(&case, false, "concurrent_panic"); } else { out.case(&case, &obs, true, "concurrent"); }
            out.check(!panicked, panic_class(&log), &case, "panic while running the history");
            oracle(&mut out, &case, &dflt, &tr, &log);
            let ok = log.len() == 2 && tr.obs.len() == 5 && tr.obs[..4] == ["P", "P", "F", "F"]
                && tr.served.len() == 1 && matches!(&tr.served[0].resp, RResp::Msg(m) if m.id == 1001 && m.qcase == 3 && m.secs[0].len() == 1 && m.secs[0][0].ttl == 88);
            out.check(ok, "concurrent_expectation", &case, &format!("expected P | P | F | F | S <second answer, TTL 88, asked spelling>, saw {}", obs));
        }
    }
    for _ in 0..n_conc {
        let k = r.below(3);
        let cfg = gen_cfg(&mut r, k);
        let len = r.range(4, 20) as usize;
        let mut evs = gen_history(&mut r, &cfg, len);
        // identical questions in a batch are what matters: copy the question of the batch head, vary flags a little
        let mut batches = vec![];
        let mut i = 0;
        while i < evs.len() {
            let b = r.range(1, 3) as usize;
            for j in i + 1..(i + b).min(evs.len()) {
                if r.chance(2, 3) { evs[j].q = evs[i].q.clone(); if r.chance(1, 3) { evs[j].q.rd = !evs[j].q.rd; } if r.chance(1, 4) { evs[j].q.do_ = !evs[j].q.do_; } }
            }
            for j in i..(i + b).min(evs.len()) { evs[j].delay_ms = *r.pick(&[0u64, 1, 400, 1000, 1500]); }
            batches.push(b); i += b;
        }
        idx += 1;
        if !out.wants(idx) { continue; }
        let label = format!("concurrent#{} seed={}", idx, a.seed);
        out.begin(&label);
        let (tr, log, panicked) = execute_with(&cfg, &evs, Some(batches.clone()));
        let case = case_line(&cfg, &tr);
        if panicked { out.oracle_case(&case, false, "concurrent_panic"); } else { out.case(&case, &tr.obs.join(" | "), tr.nserved > 0, "concurrent"); }
        out.check(!panicked, panic_class(&log), &case, "panic while running the history");
        oracle(&mut out, &case, &cfg, &tr, &log);
        conc_served += tr.nserved as u64;
        // identical requests in flight together both reach upstream (there is no single-flight)
        for w in log.windows(2) { if w[0].q.name == w[1].q.name && w[0].q.rtype == w[1].q.rtype && w[0].t_ms.abs_diff(w[1].t_ms) <= 1500 { conc_double += 1; } }
    }
    out.finish(&[("served_concurrent", conc_served.to_string()), ("concurrent_same_question_both_upstream", conc_double.to_string()), ("served_from_cache", served_total.to_string()), ("served_with_records", served_records.to_string()),
        ("forwarded", forwarded.to_string()), ("served_small_capacity", small_served.to_string())]);
}
